(* C18 (first half), classic portfolio: `simplify --portfolio classic --strategy fixpoint` and the
   `apply_fixpoint` calls of `verify` (portfolio INTUITIONISTIC ++ HT ++ CLASSIC, composed left to
   right, applied post-order by Apply::apply, iterated until a pass changes nothing) terminate.
   Statements only; proofs live in Proofs/SimplClsTerm.v.

   The measure is the 5-tuple (mu, m_gen, m_qn, m_scope, m_def) of Model/ClsTerm.v under the
   lexicographic order [cls_lt]:
     mu       the measure of the intuitionistic portfolio (terms are not counted);
     m_gen    general-sorted variables in quantifier blocks;
     m_qn     quantifier nodes;
     m_scope  sum over the binary nodes of the quantifier nodes below them;
     m_def    equations l = r (inside comparisons) with l <> r and a bare variable on one side.
   Each of the fifteen rewrites returns its argument or decreases the tuple (C18_cls_rule), the
   order is a congruence for not / binary connectives / quantifiers, so the same holds for the
   composed portfolio applied at every node (C18_measure_cls).  The components are bounded by
   mu (m_scope by mu * mu), so the tuple is a number below (mu F + 1)^6: [classic_fuel F] passes
   suffice (C18_term_cls_fuel).  Idempotence of the result is the generic C18_idem / C18_again. *)
From Coq Require Import List String ZArith NArith.
Import ListNotations.
From Anthem Require Import Syntax.Fol Model.Apply Model.Strategy Model.SimplIntuit Model.SimplClassic
  Model.ClsTerm Proofs.SimplIntuitTerm Proofs.SimplClsTerm.
Open Scope string_scope.

(* every rewrite of the portfolio alone, at the root *)
Theorem C18_cls_rule :
  forall r, In r (INTUITIONISTIC ++ HT ++ CLASSIC) -> forall F, r F = F \/ cls_lt (r F) F.
Proof. exact (proj1 (Forall_forall _ _) portfolio_classic_cls_dec). Qed.
Print Assumptions C18_cls_rule.

(* one pass of the composed portfolio (post-order, every node) changes nothing or decreases the tuple *)
Theorem C18_measure_cls :
  forall F, apply (compose (INTUITIONISTIC ++ HT ++ CLASSIC)) F = F
            \/ cls_lt (apply (compose (INTUITIONISTIC ++ HT ++ CLASSIC)) F) F.
Proof. exact cls_pass_decreasing. Qed.
Print Assumptions C18_measure_cls.

(* termination *)
Theorem C18_term_cls :
  forall F, exists fuel G, apply_fixpoint fuel (compose (INTUITIONISTIC ++ HT ++ CLASSIC)) F = Some G.
Proof. exact cls_fixpoint_terminates. Qed.
Print Assumptions C18_term_cls.

(* ... with an explicit bound on the number of passes, and any larger fuel gives the same answer *)
Theorem C18_term_cls_fuel :
  forall F, exists G, apply_fixpoint (classic_fuel F) (compose (INTUITIONISTIC ++ HT ++ CLASSIC)) F = Some G.
Proof. exact cls_fixpoint_terminates_fuel. Qed.
Print Assumptions C18_term_cls_fuel.

Theorem C18_term_cls_any_fuel :
  forall F fuel, classic_fuel F <= fuel ->
  exists G, apply_fixpoint fuel (compose (INTUITIONISTIC ++ HT ++ CLASSIC)) F = Some G.
Proof. exact cls_fixpoint_terminates_any. Qed.
Print Assumptions C18_term_cls_any_fuel.

(* the same for CLASSIC alone (not a CLI portfolio; the op simplify_cls of C07 runs it) *)
Theorem C18_measure_cls_alone :
  forall F, apply (compose CLASSIC) F = F \/ cls_lt (apply (compose CLASSIC) F) F.
Proof. exact cls_only_pass_decreasing. Qed.
Print Assumptions C18_measure_cls_alone.
Theorem C18_term_cls_alone :
  forall F, exists G, apply_fixpoint (classic_fuel F) (compose CLASSIC) F = Some G.
Proof. exact cls_only_fixpoint_terminates. Qed.
Print Assumptions C18_term_cls_alone.

(* any list of rewrites that are decreasing in this sense terminates with the same bound *)
Theorem C18_term_generic :
  forall rs, Forall (fun r => forall F, r F = F \/ cls_lt (r F) F) rs ->
  forall F, exists G, apply_fixpoint (classic_fuel F) (compose rs) F = Some G.
Proof. exact (fun rs H F => apply_fixpoint_cls_total rs F H). Qed.
Print Assumptions C18_term_generic.

(* Formula::substitute never increases a component of the tuple (terms are not counted) *)
Theorem C18_substitute_measure :
  forall F x t G, Subst.substitute F x t = Some G ->
  mu G <= mu F /\ m_gen G <= m_gen F /\ m_qn G <= m_qn F /\ m_scope G <= m_scope F /\ m_def G <= m_def F.
Proof. exact substitute_measure. Qed.
Print Assumptions C18_substitute_measure.

(* ---- non-vacuity (vm_compute of the model) ---- *)
Definition gv (x : string) : gterm := GVar x.
Definition iv (x : string) : gterm := GInt (IVar x).
Definition num (z : Z) : gterm := GInt (INum z).
Definition plus (l r : gterm) : gterm :=
  match l, r with GInt a, GInt b => GInt (IBin BAdd a b) | _, _ => l end.
Definition atom (p : string) (ts : list gterm) : formula := FAtomic (AAtom p ts).
Definition eqn (l r : gterm) : formula := FAtomic (ACmp l [mkguard REq r]).
Definition G_ (x : string) := mkvar x SGeneral.
Definition I_ (x : string) := mkvar x SInteger.
Definition tuple (F : formula) := (mu F, m_gen F, m_qn F, m_scope F, m_def F).
Definition pass := apply (compose (INTUITIONISTIC ++ HT ++ CLASSIC)).

(* extend_quantifier_scope pulls one block of an alternating prefix per pass: only m_scope moves.
   (forall X exists Y forall Z p(X,Y,Z)) and q  needs 4 passes: 3 pulls, 1 to see the fixpoint *)
Example C18_cls_prefix_passes :
  let F := FBin CAnd (FQ QForall [G_ "X"] (FQ QExists [G_ "Y"] (FQ QForall [G_ "Z"]
                        (atom "p" [gv "X"; gv "Y"; gv "Z"])))) (atom "q" []) in
  fixpoint_iterations 10 (compose (INTUITIONISTIC ++ HT ++ CLASSIC)) F = Some 4
  /\ tuple F = (9, 3, 3, 3, 0)
  /\ tuple (pass F) = (9, 3, 3, 2, 0)
  /\ tuple (pass (pass F)) = (9, 3, 3, 1, 0)
  /\ pass (pass (pass F)) = FQ QForall [G_ "X"] (FQ QExists [G_ "Y"] (FQ QForall [G_ "Z"]
                              (FBin CAnd (atom "p" [gv "X"; gv "Y"; gv "Z"]) (atom "q" [])))).
Proof. vm_compute. repeat split; reflexivity. Qed.

(* substitute_defined_variables: mu, m_gen, m_qn, m_scope unchanged, m_def 2 -> 0, the formula grows
   exists X$i Y$i (X$i = Y$i + Y$i and Y$i = 1 and p(X$i))
   => exists X$i Y$i (1 + 1 = 1 + 1 and 1 = 1 and p(1 + 1))   =>  p(1 + 1) *)
Example C18_cls_definitions :
  let F := FQ QExists [I_ "X"; I_ "Y"]
             (FBin CAnd (FBin CAnd (eqn (iv "X") (plus (iv "Y") (iv "Y"))) (eqn (iv "Y") (num 1)))
                        (atom "p" [iv "X"])) in
  pass F = FQ QExists [I_ "X"; I_ "Y"]
             (FBin CAnd (FBin CAnd (eqn (plus (num 1) (num 1)) (plus (num 1) (num 1))) (eqn (num 1) (num 1)))
                        (atom "p" [plus (num 1) (num 1)]))
  /\ tuple F = (10, 0, 1, 0, 2) /\ tuple (pass F) = (10, 0, 1, 0, 0)
  /\ apply_fixpoint 10 (compose (INTUITIONISTIC ++ HT ++ CLASSIC)) F = Some (atom "p" [plus (num 1) (num 1)])
  /\ fixpoint_iterations 10 (compose (INTUITIONISTIC ++ HT ++ CLASSIC)) F = Some 3.
Proof. vm_compute. repeat split; reflexivity. Qed.

(* restrict_quantifier_domain: m_gen 1 -> 0 (Z$g becomes the fresh I1$i; the free I$i on the right
   blocks extend_quantifier_scope), then the integer definition I$i = I1$i is substituted,
   evaluated and removed:
   exists Z (exists I$i (I$i = Z and q(I$i)) and p(Z, I$i))
   =>  exists I1$i (exists I$i (I$i = I1$i and q(I$i)) and p(I1$i, I$i))
   =>* exists I1$i (q(I1$i) and p(I1$i, I$i)) *)
Example C18_cls_restriction :
  let F := FQ QExists [G_ "Z"]
             (FBin CAnd (FQ QExists [I_ "I"] (FBin CAnd (eqn (iv "I") (gv "Z")) (atom "q" [iv "I"])))
                        (atom "p" [gv "Z"; iv "I"])) in
  tuple F = (10, 1, 2, 1, 1) /\ tuple (pass F) = (10, 0, 2, 1, 1)
  /\ pass F = FQ QExists [I_ "I1"]
                (FBin CAnd (FQ QExists [I_ "I"] (FBin CAnd (eqn (iv "I") (iv "I1")) (atom "q" [iv "I"])))
                           (atom "p" [iv "I1"; iv "I"]))
  /\ apply_fixpoint 10 (compose (INTUITIONISTIC ++ HT ++ CLASSIC)) F
     = Some (FQ QExists [I_ "I1"] (FBin CAnd (atom "q" [iv "I1"]) (atom "p" [iv "I1"; iv "I"])))
  /\ fixpoint_iterations 10 (compose (INTUITIONISTIC ++ HT ++ CLASSIC)) F = Some 4.
Proof. vm_compute. repeat split; reflexivity. Qed.

(* the bound is far from tight: classic_fuel grows like mu^6 while the loop needs 2 passes here *)
Example C18_cls_fuel_example :
  let F := FBin CAnd (FQ QForall [G_ "X"] (atom "p" [gv "X"])) (atom "q" []) in
  N.of_nat (classic_fuel F) = 29179%N /\ mu F = 5 /\ fixpoint_iterations 10 (compose (INTUITIONISTIC ++ HT ++ CLASSIC)) F = Some 2.
Proof. vm_compute. repeat split; reflexivity. Qed.
