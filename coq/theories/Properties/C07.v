(* C07 - simplification portfolios preserve meaning.
   Statements only; proofs live in Proofs/SimplSem.v, SimplCongr.v, SimplIntuitOk.v.

   PART 1 (this section): the intuitionistic and ht portfolios, documented for here-and-there
   interpretations.  "Same truth value" is proved in the strong sense needed for replacement
   inside formulas: for EVERY HT interpretation (H,T) with H subset-of T, every interpretation FI
   of placeholders and EVERY variable assignment e over the infinite standard domain; the
   there-world (classical, H = T) statement is included.
   PART 2 (the classic portfolio, classical interpretations) is added below by its own cluster. *)
From Coq Require Import List String ZArith.
Import ListNotations.
From Anthem Require Import Syntax.Fol Sem.Domain Sem.Sat Model.Apply Model.Strategy Model.SimplIntuit
  Proofs.SimplCongr Proofs.SimplIntuitOk.
Open Scope string_scope.

(* ===================== PART 1: intuitionistic and ht portfolios ===================== *)

(* each of the ten rewrites of the INTUITIONISTIC portfolio, applied to any formula *)
Theorem C07_int_rule :
  forall r, In r INTUITIONISTIC -> forall F,
    (forall FI H T e, sub H T -> (hsat FI H T e (r F) <-> hsat FI H T e F))
    /\ (forall FI T e, csat FI T e (r F) <-> csat FI T e F)
    /\ incl (free_variables (r F)) (free_variables F).
Proof. exact int_rule_ok. Qed.
Print Assumptions C07_int_rule.

(* the rewrites of intuitionistic.rs that are defined but in no portfolio
   (apply_negation_definition, apply_reverse_implication_definition_inverse,
   apply_equivalence_definition) are equivalences too *)
Theorem C07_int_unused_rule :
  forall r, In r UNUSED_INVERSES -> forall F,
    (forall FI H T e, sub H T -> (hsat FI H T e (r F) <-> hsat FI H T e F))
    /\ (forall FI T e, csat FI T e (r F) <-> csat FI T e F)
    /\ incl (free_variables (r F)) (free_variables F).
Proof. exact unused_rule_ok. Qed.
Print Assumptions C07_int_unused_rule.

(* replacement theorem: a rewrite that preserves HT meaning under all assignments still does
   when applied at every node (Apply::apply), under binders, negation and implication *)
Theorem C07_apply_congruence :
  forall r : formula -> formula,
    (forall F FI H T e, sub H T -> (hsat FI H T e (r F) <-> hsat FI H T e F)) ->
    forall F FI H T e, sub H T -> (hsat FI H T e (apply r F) <-> hsat FI H T e F).
Proof. exact apply_congruence_h. Qed.
Print Assumptions C07_apply_congruence.

(* the same for classical meaning (used by the classic half) *)
Theorem C07_apply_congruence_classical :
  forall r : formula -> formula,
    (forall F FI I e, csat FI I e (r F) <-> csat FI I e F) ->
    forall F FI I e, csat FI I e (apply r F) <-> csat FI I e F.
Proof. exact apply_congruence_c. Qed.
Print Assumptions C07_apply_congruence_classical.

Theorem C07_compose_congruence :
  forall rs : list (formula -> formula),
    (forall r, In r rs -> forall F FI H T e, sub H T -> (hsat FI H T e (r F) <-> hsat FI H T e F)) ->
    forall F FI H T e, sub H T -> (hsat FI H T e (compose rs F) <-> hsat FI H T e F).
Proof. exact compose_congruence_h. Qed.
Print Assumptions C07_compose_congruence.

Theorem C07_apply_fixpoint_congruence :
  forall (r : formula -> formula) fuel F G,
    (forall F FI H T e, sub H T -> (hsat FI H T e (r F) <-> hsat FI H T e F)) ->
    apply_fixpoint fuel r F = Some G ->
    forall FI H T e, sub H T -> (hsat FI H T e G <-> hsat FI H T e F).
Proof. exact apply_fixpoint_congruence_h. Qed.
Print Assumptions C07_apply_fixpoint_congruence.

Theorem C07_apply_congruence_fv :
  forall r : formula -> formula,
    (forall F, incl (free_variables (r F)) (free_variables F)) ->
    forall F, incl (free_variables (apply r F)) (free_variables F).
Proof. exact apply_congruence_fv. Qed.
Print Assumptions C07_apply_congruence_fv.

(* `simplify --portfolio intuitionistic` under each strategy (any fuel for the fixpoint loop) *)
Theorem C07_int_portfolio :
  forall fuel (s : strategy) F G,
    run_strategy fuel portfolio_intuitionistic s F = Some G ->
    (forall FI H T e, sub H T -> (hsat FI H T e G <-> hsat FI H T e F))
    /\ (forall FI T e, csat FI T e G <-> csat FI T e F)
    /\ incl (free_variables G) (free_variables F).
Proof. exact int_portfolio_ok. Qed.
Print Assumptions C07_int_portfolio.

(* `simplify --portfolio ht` (= INTUITIONISTIC ++ HT, HT = []) and the portfolio applied inside
   `verify` for strong equivalence, under each strategy *)
Theorem C07_ht_portfolio :
  forall fuel (s : strategy) F G,
    run_strategy fuel portfolio_ht s F = Some G ->
    (forall FI H T e, sub H T -> (hsat FI H T e G <-> hsat FI H T e F))
    /\ (forall FI T e, csat FI T e G <-> csat FI T e F)
    /\ incl (free_variables G) (free_variables F).
Proof. exact ht_portfolio_ok. Qed.
Print Assumptions C07_ht_portfolio.

(* the result has no free variable that the input did not have *)
Theorem C07_fv_int :
  forall fuel (s : strategy) F G,
    run_strategy fuel portfolio_ht s F = Some G -> incl (free_variables G) (free_variables F).
Proof. exact ht_portfolio_fv. Qed.
Print Assumptions C07_fv_int.

(* ---- non-vacuity ---- *)
(* the modelled portfolio is the ten rewrites, in source order; ht adds nothing *)
Example C07_int_portfolio_is :
  INTUITIONISTIC = [ evaluate_comparisons; apply_negation_definition_inverse;
                     apply_reverse_implication_definition; apply_equivalence_definition_inverse;
                     remove_identities; remove_annihilations; remove_idempotences;
                     remove_orphaned_variables; remove_empty_quantifications; join_nested_quantifiers ]
  /\ portfolio_ht = INTUITIONISTIC.
Proof. split; reflexivity. Qed.

(* the rewrites do fire:  exists () (exists () ((p(a) <- a = a) and #true))  ==>  p(a)
   (variable-free on purpose: Syntax/Fol.v's var_dec goes through an opaque lemma, so vm_compute
   cannot decide equality of variables; formulas with variables are exercised by the
   correspondence run instead) *)
Example C07_int_fires :
  let pa := FAtomic (AAtom "p" [GSym (SSym "a")]) in
  let aa := FAtomic (ACmp (GSym (SSym "a")) [mkguard REq (GSym (SSym "a"))]) in
  let F1 := FQ QExists [] (FBin CAnd (FBin CRimp pa aa) (FAtomic ATrue)) in
  let F := FQ QExists [] F1 in
  simplify_ht Shallow F = Some F1
  /\ simplify_ht Recursive F = Some pa
  /\ simplify_ht Fixpoint_ F = Some pa.
Proof. vm_compute. repeat split; reflexivity. Qed.

(* the HT statement is not the classical one: `not not p` and `p` agree in every there-world but
   differ in an HT interpretation with H strictly inside T - which is why no rewrite of these
   portfolios eliminates double negation *)
Example C07_ht_is_stronger_than_classical :
  let p := FAtomic (AAtom "p" []) in
  let H : pint := fun _ _ => False in
  let T : pint := fun q a => q = "p" /\ a = [] in
  let FI := mkfint (fun _ => VInf) (fun _ => 0%Z) (fun _ => "a") in
  let e := mkenv (fun _ => VInf) (fun _ => 0%Z) (fun _ => "a") in
  sub H T /\ hsat FI H T e (FNot (FNot p)) /\ ~ hsat FI H T e p
  /\ (csat FI T e (FNot (FNot p)) <-> csat FI T e p).
Proof.
  cbv zeta. split; [intros q a []|]. cbn. split; [|split]; tauto.
Qed.

(* ===================== PART 2: classic portfolio (added by its own cluster) ===================== *)
