(* C04, composed with the tau* model (C01): the statement of the property with no hypothesis about
   the translation left open.  Statements only; proofs in Proofs/FagesTauStar.v (the bridge
   `tau_star P = Some G -> represents FI G P`), Proofs/FagesBridge.v (C04_fages_partial),
   Proofs/CompletionOk.v.

   Models: Model/TauStar.tau_star : program -> option theory  (None = the usize overflow panic of
   choose_fresh_global_variables, finding F11), Model/Completion.completion, Model/Tightness.is_tight.
   Oracle: Sem/AspRef.stable (reference semantics of mini-gringo), Sem/Sat.cvalid. *)
From Coq Require Import List String ZArith.
Import ListNotations.
From Anthem Require Import Syntax.Fol Syntax.Asp Sem.Domain Sem.Sat Sem.AspRef
  Model.TauStar Model.Completion Model.Tightness
  Proofs.EnvFacts Proofs.CompletionShape Proofs.CompletionOk Proofs.FagesBridge Proofs.FagesTauStar.
Open Scope string_scope.
Open Scope list_scope.

(* The bridge the completion cluster asked for: the theory tau* builds represents the program rule
   by rule (each formula is the constraint / definition of its rule, with the classical reading of
   its body = "some ground instance of the rule supports the tuple"; same vocabulary). *)
Theorem C04_tau_star_represents :
  forall (FI : fint) (P : program) (G : theory), tau_star P = Some G -> represents FI G P.
Proof. exact tau_star_represents. Qed.
Print Assumptions C04_tau_star_represents.

(* Every tau*-theory is completable: completion never refuses the translation of a program,
   whatever the input set. *)
Theorem C04_tau_star_completable :
  forall (P : program) (G : theory) (ins : list pred),
  tau_star P = Some G -> exists D, completion G ins = Some D.
Proof. exact C04_tau_star_completable_proof. Qed.
Print Assumptions C04_tau_star_completable.

(* C04 (Fages), in full: for a program the code reports tight, an input set disjoint from the head
   predicates, and an interpretation T that interprets only predicates of the program or inputs:
   T satisfies completion(tau*(P)) with the inputs left open  iff  T is a stable model (reference
   semantics) of P extended with T's own input facts. *)
Theorem C04_fages :
  forall (P : program) (ins : list pred) (G D : theory) (FI : fint) (T : pint),
  is_tight P = true ->
  (forall r h, In r P -> head_pred (rhead r) = Some h -> ~ In h ins) ->
  (forall p d, T p d -> In (mkpred p (List.length d)) (program_preds P) \/ In (mkpred p (List.length d)) ins) ->
  tau_star P = Some G ->
  completion G ins = Some D ->
  ((forall f, In f D -> cvalid FI T f) <-> stable T P (input_facts T ins)).
Proof. exact C04_fages_proof. Qed.
Print Assumptions C04_fages.

(* the same with the two translation steps hidden: whenever tau* does not hit the overflow panic the
   completion exists, and its models are the stable models *)
Corollary C04_fages_exists :
  forall (P : program) (ins : list pred) (G : theory),
  is_tight P = true ->
  (forall r h, In r P -> head_pred (rhead r) = Some h -> ~ In h ins) ->
  tau_star P = Some G ->
  exists D, completion G ins = Some D /\
    forall (FI : fint) (T : pint),
    (forall p d, T p d -> In (mkpred p (List.length d)) (program_preds P) \/ In (mkpred p (List.length d)) ins) ->
    ((forall f, In f D -> cvalid FI T f) <-> stable T P (input_facts T ins)).
Proof.
  intros P ins G Ht Hi Hts. destruct (C04_tau_star_completable P G ins Hts) as [D HD].
  exists D. split; [exact HD|]. intros FI T Hv. exact (C04_fages P ins G D FI T Ht Hi Hv Hts HD).
Qed.
Print Assumptions C04_fages_exists.

(* ---------------- non-vacuity: the hypotheses are met by a computed instance ---------------- *)
Definition av (x : string) : term := TVar x.
Definition P4 : program :=
  [ mkrule (HBasic (mkatom "p" [av "X"])) [BLit (mklit SNone (mkatom "q" [av "X"])); BLit (mklit SNeg (mkatom "r" [av "X"]))];
    mkrule (HChoice (mkatom "r" [TPre (PNum 1)])) [];
    mkrule HFalsity [BLit (mklit SNone (mkatom "p" [TPre (PNum 2)]))] ].

Example C04_full_instance :
  is_tight P4 = true /\
  exists G D, tau_star P4 = Some G /\ completion G [mkpred "q" 1] = Some D /\ List.length D = 3.
Proof.
  split; [vm_compute; reflexivity|].
  destruct (tau_star P4) as [G|] eqn:EG; [|vm_compute in EG; discriminate].
  destruct (C04_tau_star_completable P4 G [mkpred "q" 1] EG) as [D HD].
  exists G, D. split; [reflexivity|]. split; [exact HD|].
  vm_compute in EG. injection EG as <-. vm_compute in HD. injection HD as <-. reflexivity.
Qed.

(* and the equivalence is used with both sides true: T4 = { r(1) } is a stable model of P4 (no
   q-facts), hence - by C04_fages - a model of the completion of tau*(P4) *)
Definition T4 : pint := fun p d => p = "r" /\ d = [VNum 1].
Example P4_stable : stable T4 P4 (input_facts T4 [mkpred "q" 1]).
Proof.
  split; [split|].
  - intros r Hr. unfold P4 in Hr. destruct Hr as [<-|[<-|[<-|[]]]]; intros sg; cbn [rhead rbody].
    + split; intros Hb; inversion Hb as [|? ? H1 _]; subst; destruct H1 as [vs [_ [E _]]]; discriminate.
    + split; intros _ vs Hv; inversion Hv as [|? v ? ? Hv1 Hv2]; subst; inversion Hv2; subst;
        cbn in Hv1; subst v; left; split; reflexivity.
    + split; intros Hb; inversion Hb as [|? ? H1 _]; subst; destruct H1 as [vs [_ [E _]]]; discriminate.
  - intros p a [H _]. exact H.
  - intros H HS HR HF p a [-> ->].
    assert (Hin : In (mkrule (HChoice (mkatom "r" [TPre (PNum 1)])) []) P4) by (right; left; reflexivity).
    destruct (HR _ Hin (fun _ => VInf)) as [HR1 _]. cbn [rhead rbody] in HR1.
    destruct (HR1 (Forall_nil _) [VNum 1]) as [X|X].
    + constructor; [reflexivity|constructor].
    + exact X.
    + exfalso. apply X. split; reflexivity.
Qed.
Example C04_full_instance_model :
  forall G D, tau_star P4 = Some G -> completion G [mkpred "q" 1] = Some D ->
  forall (FI : fint) f, In f D -> cvalid FI T4 f.
Proof.
  intros G D HG HD FI. apply (C04_fages P4 [mkpred "q" 1] G D FI T4); [vm_compute; reflexivity| | |exact HG|exact HD|exact P4_stable].
  - intros r h Hr. unfold P4 in Hr. destruct Hr as [<-|[<-|[<-|[]]]]; cbn; intros E; try discriminate;
      injection E as <-; intros [X|[]]; discriminate.
  - unfold T4. intros p d [-> ->]. left. vm_compute. auto.
Qed.
