(* C01 - the tau* theory has exactly the program's here-and-there and stable models.
   Statements only; proofs live in Proofs/TauStar*.v, Proofs/FreshNamesOk.v, Proofs/DivisionDeviation.v.

   Model: Model/TauStar.v (tau_star : program -> option theory, None = the usize overflow panic of
   choose_fresh_global_variables), Model/FreshNames.v.  Oracle: Sem/AspRef.v (vals, body_sat,
   head_sat, ref_rule_sat, stable), Sem/Sat.v (csat, hsat, hvalid, equilibrium).

   READING OF / AND \ (finding F24).  The oracle [vals] reads t1 / t2 and t1 \ t2 the way ANTHEM does:
   a value exists only for a POSITIVE divisor and is the floor quotient / the non-negative remainder.
   That clause is a transcription of the formula tau_star.rs builds (J != 0 & R >= 0 & R < J), whose
   comment says "Not Abstract Gringo compliant in negative divisor edge cases".  So C01_val, C01_rule,
   C01_ht, C01_stable below say: tau* is correct W.R.T. ANTHEM'S OWN READING of the two operators.
   They do NOT say that tau*(P) captures the stable models clingo computes for P, and that is false:
   the second half of this file (section "the published readings") states exactly where the reading
   deviates from Abstract Gringo (floor, every divisor <> 0) and from clingo (truncation), proves that
   outside that class the main theorems hold with the published semantics as well, and refutes them
   inside it (out(7/(0-2)).: tau* has the empty equilibrium model, clingo answers out(-3)). *)
From Coq Require Import List String ZArith NArith.
Import ListNotations.
From Anthem Require Import Syntax.Fol Syntax.Asp Sem.Domain Sem.Sat Sem.AspRef Sem.AspRefGringo
  Model.FreshNames Model.TauStar Model.Eval Model.EvalAspGringo Proofs.DivisionDeviation
  Proofs.FreshNamesOk Proofs.TauStarBase Proofs.TauStarVal Proofs.TauStarBody Proofs.TauStarRule
  Proofs.TauStarProgram Proofs.TauStarClosed Proofs.TauStarClassical Model.EvalAsp Proofs.EvalAspOk.
Open Scope string_scope.

(* (a) val_t(Z) holds exactly when the value of Z is one of the values of t, for EVERY term (all six
   operators, unary minus, nested), every interpretation and every assignment - [vals] being ANTHEM'S
   reading of / and \ (positive divisors only, floor; see the header and C01_division_reading).  z_ok z: an
   integer-sorted z is not named Q<n> / R<n> (tau* only ever passes general-sorted Z<n>, V<n> or
   integer-sorted I<n>, J<n>). *)
Theorem C01_val :
  forall (FI : fint) (I : pint) (t : term) (z : var) (e : env), z_ok z ->
  (csat FI I e (val t z) <-> vals (eg e) t (getv e z)).
Proof. exact val_spec. Qed.
Print Assumptions C01_val.

Theorem C01_val_ht :
  forall (FI : fint) (H T : pint) (t : term) (z : var) (e : env), z_ok z ->
  (hsat FI H T e (val t z) <-> vals (eg e) t (getv e z)).
Proof. exact val_spec_ht. Qed.
Print Assumptions C01_val_ht.

(* the fresh-name search: as many names as asked for, pairwise distinct, none of them taken, all
   beginning with the requested variant; the loop never runs out of candidates *)
Theorem C01_fresh_names :
  forall (taken : list string) (variant : string) (arity : nat),
  let l := choose_fresh_variable_names taken variant arity in
  List.length l = arity /\ NoDup l /\ forall x, In x l -> ~ In x taken /\ has_prefix variant x.
Proof. exact choose_fresh_spec. Qed.
Print Assumptions C01_fresh_names.

(* (b) body literals, comparisons, bodies: in either world W of (W,T) *)
Theorem C01_body_item :
  forall (FI : fint) (W T : pint) (e : env) (b : bformula),
  hsat FI W T e (tau_b b) <-> bformula_sat W T (eg e) b.
Proof. exact tau_b_sat. Qed.
Print Assumptions C01_body_item.

Theorem C01_body :
  forall (FI : fint) (W T : pint) (e : env) (b : list bformula),
  hsat FI W T e (tau_body b) <-> body_sat W T (eg e) b.
Proof. exact tau_body_sat. Qed.
Print Assumptions C01_body.

(* rules: with usable global variables (enough, distinct, not in the rule) the formula of a rule is
   HT-valid iff every ground instance of the rule is HT-satisfied (no H subset-of T needed) *)
Theorem C01_rule :
  forall (FI : fint) (H T : pint) (r : rule) (globals : list string) (F : formula),
  tau_star_rule r globals = Some F -> fresh_globals r globals ->
  (hvalid FI H T F <-> ref_rule_sat H T r).
Proof. exact tau_star_rule_ok. Qed.
Print Assumptions C01_rule.

(* the globals chosen for a program are usable by each of its rules *)
Theorem C01_globals_fresh :
  forall (P : program) (globals : list string), choose_fresh_global_variables P = Some globals ->
  forall r, In r P -> fresh_globals r globals.
Proof. exact globals_fresh. Qed.
Print Assumptions C01_globals_fresh.

(* programs: all HT interpretations (H,T) - in particular all H subset-of T.
   [ref_sat] = anthem's own reading of / and \ (F24); for the published readings see
   C01_ht_abstract_gringo_outside_F24 and C01_not_abstract_gringo_negative_divisor below *)
Theorem C01_ht :
  forall (FI : fint) (P : program) (G : theory) (H T : pint), tau_star P = Some G ->
  (theory_hsat FI H T G <-> ref_sat H T P).
Proof. exact tau_star_ht. Qed.
Print Assumptions C01_ht.

(* (c) stable models with any set of extra facts = equilibrium models with the same facts
   ([stable] = stable models under anthem's own reading of / and \, NOT clingo's answer sets when a
   division by a negative number or of a negative number is evaluated: finding F24) *)
Theorem C01_stable :
  forall (FI : fint) (P : program) (G : theory) (T : pint) (Facts : pint), tau_star P = Some G ->
  (equilibrium FI T G Facts <-> stable T P Facts).
Proof. exact tau_star_stable. Qed.
Print Assumptions C01_stable.

(* tau_star is defined (the real code does not panic) whenever the global counter stays below 2^64 *)
Theorem C01_defined :
  forall P : program, no_global_overflow P -> exists G, tau_star P = Some G.
Proof. exact tau_star_defined. Qed.
Print Assumptions C01_defined.

(* (d) every formula of tau*(P) is a sentence *)
Theorem C01_closed :
  forall (P : program) (G : theory), tau_star P = Some G -> forall F, In F G -> free_variables F = [].
Proof. exact tau_star_closed. Qed.
Print Assumptions C01_closed.

(* tau*(P) mentions exactly the predicates (symbol/arity) of P *)
Theorem C01_predicates :
  forall (P : program) (G : theory) (p : pred), tau_star P = Some G ->
  (In p (theory_predicates G) <-> In p (program_preds P)).
Proof. exact tau_star_predicates. Qed.
Print Assumptions C01_predicates.

(* classical reading used by the completion (C04): the antecedent val_t(V) & tau^B(Body) of a rule
   with head p(t) is satisfiable with V := d exactly for the tuples d the rule derives *)
Theorem C01_fo_body_classical :
  forall (FI : fint) (T : pint) (r : rule) (a : atom) (globals : list string),
  head_atom (rhead r) = Some a -> fresh_globals r globals ->
  let fvars := firstn (List.length (aterms a)) globals in
  forall d,
    (exists e, map (getv e) (map gvar fvars) = d /\
               csat FI T e (FBin CAnd (valtz (aterms a) (map gvar fvars)) (tau_body (rbody r)))) <->
    (exists sg, tuple_vals sg (aterms a) d /\ body_sat T T sg (rbody r)).
Proof. exact fo_body_classical. Qed.
Print Assumptions C01_fo_body_classical.

(* the executable reference evaluator used by the semantic cross-check (driver op sem_tau_star)
   computes, with the trivial universe filter, exactly the value sets of the oracle *)
Theorem C01_ref_vals :
  forall (sg : fassign) (t : term) (v : gval),
  In v (ref_vals all_values sg t) <-> vals (alookup sg) t v.
Proof. exact ref_vals_spec. Qed.
Print Assumptions C01_ref_vals.

(* ---------- non-vacuity ---------- *)
(* a program using every operator, all signs, a choice head, a constraint, with variables named
   I, J, K, Z, Z1, V1, Q, R (all of which collide with names the translator picks) *)
Definition v (x : string) : term := TVar x.
Definition n (z : Z) : term := TPre (PNum z).
Definition P_ex : program :=
  [ mkrule (HBasic (mkatom "p" [TBin ADiv (v "I") (v "J"); TBin AMod (v "Z") (v "Q"); TUn AUNeg (v "K")]))
      [ BLit (mklit SNone (mkatom "q" [v "I"; v "J"; v "K"]));
        BLit (mklit SNone (mkatom "q" [v "Z"; v "Z1"; v "V1"]));
        BLit (mklit SDNeg (mkatom "q" [v "R"; v "Q"; v "Q"]));
        BCmp (mkcmp AEq (TBin AAdd (v "I") (v "J")) (TBin ASub (TBin AMul (v "K") (v "Z")) (v "Z1")));
        BCmp (mkcmp AEq (v "V1") (TBin AInterval (n 1) (n 3))) ];
    mkrule (HChoice (mkatom "p" [TBin AInterval (v "Z1") (v "V1"); v "Q"; v "R"]))
      [ BLit (mklit SNone (mkatom "q" [v "Z1"; v "V1"; v "Q"]));
        BCmp (mkcmp ALe (v "R") (TBin AMul (v "Q") (n 2))) ];
    mkrule HFalsity
      [ BLit (mklit SNone (mkatom "q" [v "I"; v "J"; v "K"]));
        BLit (mklit SNeg (mkatom "q" [v "I"; v "J"; v "K"]));
        BCmp (mkcmp ANe (v "I") (v "J")) ];
    mkrule (HBasic (mkatom "p" [TBin AInterval (n 1) (n 3); n 0; TPre (PSym "a")])) [] ].

Definition FI0 : fint := mkfint (fun _ => VNum 0%Z) (fun _ => 0%Z) (fun _ => "").

(* tau_star is defined on it (4 formulas); Fol.variables, used for the Q/R names, goes through an
   opaque equality test and does not compute inside Coq, so definedness comes from C01_defined *)
Lemma P_ex_defined : exists G, tau_star P_ex = Some G /\ List.length G = 4.
Proof.
  destruct (C01_defined P_ex) as [G HG].
  { right. vm_compute. reflexivity. }
  exists G. split; [exact HG|].
  unfold tau_star in HG. destruct (choose_fresh_global_variables P_ex); [|discriminate].
  apply map_opt_forall2 in HG. clear -HG.
  assert (L : forall (A B : Type) (R : A -> B -> Prop) l m, Forall2 R l m -> List.length m = List.length l)
    by (induction 1; cbn; congruence).
  apply L in HG. exact HG.
Qed.

(* both sides TRUE: T = every atom, H = every atom except those of the (unused) predicate s *)
Example C01_nonvacuous_true :
  let T : pint := fun _ _ => True in
  let H : pint := fun p _ => p <> "s" in
  sub H T /\ ~ (forall p a, T p a -> H p a) /\ ref_sat H T P_ex /\
  forall G, tau_star P_ex = Some G -> theory_hsat FI0 H T G.
Proof.
  cbv zeta.
  split; [intros p a _; exact I|]. split; [intros Hall; apply (Hall "s" [] I); reflexivity|].
  assert (Href : ref_sat (fun p _ => p <> "s") (fun _ _ => True) P_ex).
  { intros r [<-|[<-|[<-|[<-|[]]]]]; intros sg; cbn [rhead rbody head_sat apred]; split.
    - intros _ vs _. discriminate.
    - intros _ vs _. exact I.
    - intros _ vs _. left. discriminate.
    - intros _ vs _. left. exact I.
    - intros Hb. inversion Hb as [|? ? _ Hb']; subst. inversion Hb' as [|? ? Hn _]; subst.
      destruct Hn as [vs [_ Hn]]. apply Hn. exact I.
    - intros Hb. inversion Hb as [|? ? _ Hb']; subst. inversion Hb' as [|? ? Hn _]; subst.
      destruct Hn as [vs [_ Hn]]. apply Hn. exact I.
    - intros _ vs _. discriminate.
    - intros _ vs _. exact I. }
  split; [exact Href|]. intros G HG. apply (proj2 (C01_ht FI0 P_ex G _ _ HG)). exact Href.
Qed.

(* both sides FALSE: H = T = no atom at all; the fact p(1..3,0,a) is violated *)
Example C01_nonvacuous_false :
  let T : pint := fun _ _ => False in
  ~ ref_sat T T P_ex /\ forall G, tau_star P_ex = Some G -> ~ theory_hsat FI0 T T G.
Proof.
  cbv zeta.
  assert (Href : ~ ref_sat (fun _ _ => False) (fun _ _ => False) P_ex).
  { intros Hs.
    destruct (Hs (mkrule (HBasic (mkatom "p" [TBin AInterval (n 1) (n 3); n 0; TPre (PSym "a")])) [])
                 ltac:(cbn; tauto) (fun _ => VNum 0%Z)) as [Hh _].
    apply (Hh ltac:(constructor) [VNum 1%Z; VNum 0%Z; VSym "a"]).
    repeat constructor. cbn. exists 1%Z, 3%Z, 1%Z. repeat split; reflexivity || discriminate. }
  split; [exact Href|]. intros G HG Hg. apply Href.
  apply (proj1 (C01_ht FI0 P_ex G _ _ HG)). exact Hg.
Qed.

(* the overflow panic is real in the model: a head of arity 1 and a variable V18446744073709551615 *)
Example C01_overflow_panics :
  tau_star [mkrule (HBasic (mkatom "p" [v "V18446744073709551615"])) []] = None.
Proof. vm_compute. reflexivity. Qed.

(* val's fresh names on adversarial input: the literal mentions Z and Z1, the term I, J and K *)
Example C01_adversarial_names :
  tau_b (BLit (mklit SNeg (mkatom "p" [TBin AInterval (v "I") (TBin AAdd (v "J") (v "K")); v "Z"; v "Z1"]))) =
  FQ QExists [gvar "Z2"; gvar "Z3"; gvar "Z4"]
    (FBin CAnd
       (FBin CAnd
          (FBin CAnd
             (FQ QExists [ivar "I1"; ivar "J1"; ivar "K1"]
                (FBin CAnd
                   (FBin CAnd
                      (FBin CAnd
                         (eq_formula (GInt (IVar "I1")) (GVar "I"))
                         (FQ QExists [ivar "I"; ivar "J2"]
                            (FBin CAnd
                               (FBin CAnd (eq_formula (GInt (IVar "J1")) (GInt (IBin BAdd (IVar "I") (IVar "J2"))))
                                  (eq_formula (GInt (IVar "I")) (GVar "J")))
                               (eq_formula (GInt (IVar "J2")) (GVar "K")))))
                      (eq_formula (GVar "Z2") (GInt (IVar "K1"))))
                   (FAtomic (ACmp (GInt (IVar "I1")) [mkguard RLe (GInt (IVar "K1")); mkguard RLe (GInt (IVar "J1"))]))))
             (eq_formula (GVar "Z3") (GVar "Z")))
          (eq_formula (GVar "Z4") (GVar "Z1")))
       (FNot (FAtomic (AAtom "p" [GVar "Z2"; GVar "Z3"; GVar "Z4"])))).
Proof. vm_compute. reflexivity. Qed.

(* =============================================================================================
   The published readings of / and \ (finding F24).  Definitions: Sem/AspRefGringo.v.
     qr_anthem n1 n2 q m := n1 = n2*q + m /\ 0 <= m < n2           (Sem/AspRef.v, = tau_star.rs)
     qr_ag     n1 n2 q m := n2 <> 0 /\ q = n1 / n2 /\ m = n1 mod n2  (Abstract Gringo: floor; Coq's Z.div)
     qr_clingo n1 n2 q m := n2 <> 0 /\ q = n1 quot n2 /\ m = n1 rem n2  (clingo: truncation; Coq's Z.quot)
   (the two published definitions are written from memory - no network; the Coq functions are tied
   to "floor" and "truncation" by C01_floor / C01_truncation)
   ============================================================================================= *)

(* the oracle of the theorems above IS the instance qr_anthem (by conversion, nothing to trust) *)
Theorem C01_oracle_is_anthems_reading :
  vals_with qr_anthem = vals /\ ref_sat_with qr_anthem = ref_sat /\ stable_with qr_anthem = stable.
Proof. exact (conj vals_with_anthem (conj ref_sat_with_anthem stable_with_anthem)). Qed.
Print Assumptions C01_oracle_is_anthems_reading.

(* anthem's reading, spelled out: positive divisors only, floor quotient, non-negative remainder *)
Theorem C01_division_reading :
  forall n1 n2 q m : Z, qr_anthem n1 n2 q m <-> (0 < n2 /\ q = n1 / n2 /\ m = n1 mod n2)%Z.
Proof. exact qr_anthem_iff. Qed.
Print Assumptions C01_division_reading.

(* Z.div is the floor of the rational quotient for either sign of the divisor; Z.quot truncates *)
Theorem C01_floor :
  forall n1 n2 q : Z, n2 <> 0%Z ->
  (q = n1 / n2 <-> ((0 < n2 /\ q * n2 <= n1 < (q + 1) * n2) \/ (n2 < 0 /\ (q + 1) * n2 < n1 <= q * n2)))%Z.
Proof. exact ag_quotient_is_floor. Qed.
Print Assumptions C01_floor.
Theorem C01_truncation :
  forall n1 n2 : Z, n2 <> 0%Z -> Z.quot n1 n2 = (Z.sgn n1 * Z.sgn n2 * (Z.abs n1 / Z.abs n2))%Z.
Proof. exact clingo_quotient_is_truncation. Qed.
Print Assumptions C01_truncation.

(* all three readings agree on a non-negative dividend and a positive divisor *)
Theorem C01_readings_agree_nonneg :
  forall n1 n2 q m : Z, (0 <= n1)%Z -> (0 < n2)%Z ->
  (qr_anthem n1 n2 q m <-> qr_ag n1 n2 q m) /\ (qr_anthem n1 n2 q m <-> qr_clingo n1 n2 q m).
Proof. exact readings_agree_nonneg. Qed.
Print Assumptions C01_readings_agree_nonneg.

(* anthem = Abstract Gringo for every positive divisor (any dividend) *)
Theorem C01_anthem_is_abstract_gringo_pos_divisor :
  forall n1 n2 q m : Z, (0 < n2)%Z -> (qr_anthem n1 n2 q m <-> qr_ag n1 n2 q m).
Proof. exact anthem_is_ag_pos_divisor. Qed.
Print Assumptions C01_anthem_is_abstract_gringo_pos_divisor.

(* THE EXACT DEVIATION SETS on (dividend, divisor):
   vs Abstract Gringo - exactly the negative divisors (AG has a value there, anthem none);
   vs clingo - the negative divisors, and the negative dividends a positive divisor does not divide *)
Theorem C01_deviation_set_abstract_gringo :
  forall n1 n2 : Z, ~ (forall q m, qr_anthem n1 n2 q m <-> qr_ag n1 n2 q m) <-> (n2 < 0)%Z.
Proof. exact anthem_ag_deviation_set. Qed.
Print Assumptions C01_deviation_set_abstract_gringo.
Theorem C01_negative_divisor_no_value :
  forall n1 n2 : Z, (n2 < 0)%Z ->
  qr_ag n1 n2 (n1 / n2)%Z (n1 mod n2)%Z /\ forall q m, ~ qr_anthem n1 n2 q m.
Proof. exact neg_divisor_ag_value_anthem_none. Qed.
Print Assumptions C01_negative_divisor_no_value.
Theorem C01_deviation_set_clingo :
  forall n1 n2 : Z, ~ (forall q m, qr_anthem n1 n2 q m <-> qr_clingo n1 n2 q m) <->
                    (n2 < 0 \/ (0 < n2 /\ n1 < 0 /\ n1 mod n2 <> 0))%Z.
Proof. exact anthem_clingo_deviation_set. Qed.
Print Assumptions C01_deviation_set_clingo.

(* terms: a term whose evaluation never applies / or \ to a pair of the class has the same values in
   both readings.  neg_divisor n1 n2 := n2 < 0;  neg_operand n1 n2 := n2 < 0 \/ n1 < 0;
   [reaches qr bad sg t]: some subterm l/r or l\r of t has values n1 of l, n2 of r with bad n1 n2 *)
Theorem C01_vals_abstract_gringo_outside_F24 :
  forall (sg : assignment) (t : term), ~ reaches qr_anthem neg_divisor sg t ->
  forall v, vals sg t v <-> vals_ag sg t v.
Proof. exact (vals_agree_outside qr_anthem qr_ag neg_divisor anthem_is_ag_outside). Qed.
Print Assumptions C01_vals_abstract_gringo_outside_F24.
Theorem C01_vals_clingo_outside_F24 :
  forall (sg : assignment) (t : term), ~ reaches qr_anthem neg_operand sg t ->
  forall v, vals sg t v <-> vals_clingo sg t v.
Proof. exact (vals_agree_outside qr_anthem qr_clingo neg_operand anthem_is_clingo_outside). Qed.
Print Assumptions C01_vals_clingo_outside_F24.
(* a syntactic sufficient test: every divisor is a positive numeral *)
Theorem C01_positive_numeral_divisors_outside_F24 :
  forall (qr : divreading) (sg : assignment) (t : term),
  divisors_positive_numerals t = true -> ~ reaches qr neg_divisor sg t.
Proof. exact divisors_positive_numerals_outside. Qed.
Print Assumptions C01_positive_numeral_divisors_outside_F24.

(* OUTSIDE the class C01_ht and C01_stable hold with the published semantics.
   [program_reaches qr bad P]: some ground instance of some rule of P reaches a bad pair; the class may
   be tested in either reading *)
Theorem C01_ht_abstract_gringo_outside_F24 :
  forall (FI : fint) (P : program) (G : theory) (H T : pint), tau_star P = Some G ->
  ~ program_reaches qr_anthem neg_divisor P \/ ~ program_reaches qr_ag neg_divisor P ->
  (theory_hsat FI H T G <-> ref_sat_with qr_ag H T P).
Proof. exact tau_star_ht_ag_outside. Qed.
Print Assumptions C01_ht_abstract_gringo_outside_F24.
Theorem C01_stable_abstract_gringo_outside_F24 :
  forall (FI : fint) (P : program) (G : theory) (T : pint) (Facts : pint), tau_star P = Some G ->
  ~ program_reaches qr_anthem neg_divisor P \/ ~ program_reaches qr_ag neg_divisor P ->
  (equilibrium FI T G Facts <-> stable_with qr_ag T P Facts).
Proof. exact tau_star_stable_ag_outside. Qed.
Print Assumptions C01_stable_abstract_gringo_outside_F24.
Theorem C01_ht_clingo_outside_F24 :
  forall (FI : fint) (P : program) (G : theory) (H T : pint), tau_star P = Some G ->
  ~ program_reaches qr_anthem neg_operand P \/ ~ program_reaches qr_clingo neg_operand P ->
  (theory_hsat FI H T G <-> ref_sat_with qr_clingo H T P).
Proof. exact tau_star_ht_clingo_outside. Qed.
Print Assumptions C01_ht_clingo_outside_F24.
Theorem C01_stable_clingo_outside_F24 :
  forall (FI : fint) (P : program) (G : theory) (T : pint) (Facts : pint), tau_star P = Some G ->
  ~ program_reaches qr_anthem neg_operand P \/ ~ program_reaches qr_clingo neg_operand P ->
  (equilibrium FI T G Facts <-> stable_with qr_clingo T P Facts).
Proof. exact tau_star_stable_clingo_outside. Qed.
Print Assumptions C01_stable_clingo_outside_F24.

(* INSIDE the class the statement is FALSE for the published semantics.
   P_F24 = out(7/(0-2)).  (anthem has no negative numeral literals)     P_F24c = out((0-7)/2).
   no_atoms = the empty interpretation; only_atom p c = {p(c)}. *)
Theorem C01_not_abstract_gringo_negative_divisor :
  forall FI : fint, exists G, tau_star P_F24 = Some G /\
    equilibrium FI no_atoms G no_atoms /\ ~ stable_with qr_ag no_atoms P_F24 no_atoms /\
    stable_with qr_ag (only_atom "out" (-4)) P_F24 no_atoms /\ ~ equilibrium FI (only_atom "out" (-4)) G no_atoms.
Proof. exact tau_star_not_abstract_gringo_negative_divisor. Qed.
Print Assumptions C01_not_abstract_gringo_negative_divisor.
Theorem C01_not_clingo_negative_divisor :
  forall FI : fint, exists G, tau_star P_F24 = Some G /\
    equilibrium FI no_atoms G no_atoms /\ ~ stable_with qr_clingo no_atoms P_F24 no_atoms /\
    stable_with qr_clingo (only_atom "out" (-3)) P_F24 no_atoms /\ ~ equilibrium FI (only_atom "out" (-3)) G no_atoms.
Proof. exact tau_star_not_clingo_negative_divisor. Qed.
Print Assumptions C01_not_clingo_negative_divisor.
Theorem C01_not_clingo_negative_dividend :
  forall FI : fint, exists G, tau_star P_F24c = Some G /\
    equilibrium FI (only_atom "out" (-4)) G no_atoms /\ ~ stable_with qr_clingo (only_atom "out" (-4)) P_F24c no_atoms /\
    stable_with qr_clingo (only_atom "out" (-3)) P_F24c no_atoms /\ ~ equilibrium FI (only_atom "out" (-3)) G no_atoms.
Proof. exact tau_star_not_clingo_negative_dividend. Qed.
Print Assumptions C01_not_clingo_negative_dividend.
(* the two witnesses lie in their classes (in every reading), so the "outside" theorems do not cover them *)
Theorem C01_F24_witnesses_in_class :
  forall qr : divreading, program_reaches qr neg_divisor P_F24 /\ program_reaches qr neg_operand P_F24c.
Proof. exact (fun qr => conj (P_F24_in_class qr) (P_F24c_in_class qr)). Qed.
Print Assumptions C01_F24_witnesses_in_class.

(* the executable oracles of the semantic ops sem_tau_star_ag / sem_tau_star_clingo compute the value
   sets of the published readings, and return anthem's verdict on every rule their class test rejects *)
Theorem C01_published_oracle_vals :
  forall (d : divmode) (sg : fassign) (t : term) (v : gval),
  In v (ref_vals_m d all_values sg t) <-> vals_with (qr_of d) (alookup sg) t v.
Proof. exact ref_vals_m_spec. Qed.
Print Assumptions C01_published_oracle_vals.
Theorem C01_published_oracle_outside_F24 :
  forall (W : window) (H T : fpint) (r : rule),
  (rule_in_class DGringo neg_divisor_b W r = false -> ref_rule_eval_m DGringo W H T r = ref_rule_eval_m DAnthem W H T r) /\
  (rule_in_class DClingo neg_operand_b W r = false -> ref_rule_eval_m DClingo W H T r = ref_rule_eval_m DAnthem W H T r).
Proof. exact (fun W H T r => conj (ref_rule_eval_ag_outside W H T r) (ref_rule_eval_clingo_outside W H T r)). Qed.
Print Assumptions C01_published_oracle_outside_F24.

(* ---------- non-vacuity of the "outside" theorems ---------- *)
(* P_ex (above; it divides by the VARIABLES J and Q) is INSIDE the class: J := -1 *)
Example C01_P_ex_inside_F24 : program_reaches qr_anthem neg_divisor P_ex.
Proof.
  eexists; exists (fun _ => VNum (-1)%Z); split; [left; reflexivity|].
  left. left. right. right. split; [left; reflexivity|]. exists (-1)%Z, (-1)%Z. repeat split.
Qed.
(* a program with a division that is outside: p(X/2) :- q(X). *)
Definition P_out : program :=
  [mkrule (HBasic (mkatom "p" [TBin ADiv (v "X") (n 2)])) [BLit (mklit SNone (mkatom "q" [v "X"]))]].
Example C01_P_out_outside_F24 : ~ program_reaches qr_anthem neg_divisor P_out.
Proof.
  intros (r & sg & [<-|[]] & [Hh|Hb]).
  - inversion Hh as [? ? Ht|? ? Ht]; subst; [|inversion Ht].
    revert Ht. apply C01_positive_numeral_divisors_outside_F24. reflexivity.
  - inversion Hb as [? ? Ht|? ? Ht]; subst; [|inversion Ht].
    inversion Ht as [? ? Hx|? ? Hx]; subst; [exact Hx|inversion Hx].
Qed.
