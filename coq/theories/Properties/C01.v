(* C01 - the tau* theory has exactly the program's here-and-there and stable models.
   Statements only; proofs live in Proofs/TauStar*.v and Proofs/FreshNamesOk.v.

   Model: Model/TauStar.v (tau_star : program -> option theory, None = the usize overflow panic of
   choose_fresh_global_variables), Model/FreshNames.v.  Oracle: Sem/AspRef.v (vals, body_sat,
   head_sat, ref_rule_sat, stable), Sem/Sat.v (csat, hsat, hvalid, equilibrium).
   Division and modulo: floor quotient / non-negative remainder, defined for positive divisors only
   (the semantics tau_star.rs itself cites; see Sem/AspRef.v). *)
From Coq Require Import List String ZArith NArith.
Import ListNotations.
From Anthem Require Import Syntax.Fol Syntax.Asp Sem.Domain Sem.Sat Sem.AspRef
  Model.FreshNames Model.TauStar
  Proofs.FreshNamesOk Proofs.TauStarBase Proofs.TauStarVal Proofs.TauStarBody Proofs.TauStarRule
  Proofs.TauStarProgram Proofs.TauStarClosed Proofs.TauStarClassical Model.EvalAsp Proofs.EvalAspOk.
Open Scope string_scope.

(* (a) val_t(Z) holds exactly when the value of Z is one of the values of t, for EVERY term (all six
   operators, unary minus, nested), every interpretation and every assignment.  z_ok z: an
   integer-sorted z is not named Q<n> / R<n> (tau* only ever passes general-sorted Z<n>, V<n> or
   integer-sorted I<n>, J<n>). *)
Theorem C01_val :
  forall (FI : fint) (I : pint) (t : term) (z : var) (e : env), z_ok z ->
  (csat FI I e (val t z) <-> vals (eg e) t (getv e z)).
Proof. exact val_spec. Qed.
Print Assumptions C01_val.

Theorem C01_val_ht :
  forall (FI : fint) (H T : pint) (t : term) (z : var) (e : env), z_ok z ->
  (hsat FI H T e (val t z) <-> vals (eg e) t (getv e z)).
Proof. exact val_spec_ht. Qed.
Print Assumptions C01_val_ht.

(* the fresh-name search: as many names as asked for, pairwise distinct, none of them taken, all
   beginning with the requested variant; the loop never runs out of candidates *)
Theorem C01_fresh_names :
  forall (taken : list string) (variant : string) (arity : nat),
  let l := choose_fresh_variable_names taken variant arity in
  List.length l = arity /\ NoDup l /\ forall x, In x l -> ~ In x taken /\ has_prefix variant x.
Proof. exact choose_fresh_spec. Qed.
Print Assumptions C01_fresh_names.

(* (b) body literals, comparisons, bodies: in either world W of (W,T) *)
Theorem C01_body_item :
  forall (FI : fint) (W T : pint) (e : env) (b : bformula),
  hsat FI W T e (tau_b b) <-> bformula_sat W T (eg e) b.
Proof. exact tau_b_sat. Qed.
Print Assumptions C01_body_item.

Theorem C01_body :
  forall (FI : fint) (W T : pint) (e : env) (b : list bformula),
  hsat FI W T e (tau_body b) <-> body_sat W T (eg e) b.
Proof. exact tau_body_sat. Qed.
Print Assumptions C01_body.

(* rules: with usable global variables (enough, distinct, not in the rule) the formula of a rule is
   HT-valid iff every ground instance of the rule is HT-satisfied (no H subset-of T needed) *)
Theorem C01_rule :
  forall (FI : fint) (H T : pint) (r : rule) (globals : list string) (F : formula),
  tau_star_rule r globals = Some F -> fresh_globals r globals ->
  (hvalid FI H T F <-> ref_rule_sat H T r).
Proof. exact tau_star_rule_ok. Qed.
Print Assumptions C01_rule.

(* the globals chosen for a program are usable by each of its rules *)
Theorem C01_globals_fresh :
  forall (P : program) (globals : list string), choose_fresh_global_variables P = Some globals ->
  forall r, In r P -> fresh_globals r globals.
Proof. exact globals_fresh. Qed.
Print Assumptions C01_globals_fresh.

(* programs: all HT interpretations (H,T) - in particular all H subset-of T *)
Theorem C01_ht :
  forall (FI : fint) (P : program) (G : theory) (H T : pint), tau_star P = Some G ->
  (theory_hsat FI H T G <-> ref_sat H T P).
Proof. exact tau_star_ht. Qed.
Print Assumptions C01_ht.

(* (c) stable models with any set of extra facts = equilibrium models with the same facts *)
Theorem C01_stable :
  forall (FI : fint) (P : program) (G : theory) (T : pint) (Facts : pint), tau_star P = Some G ->
  (equilibrium FI T G Facts <-> stable T P Facts).
Proof. exact tau_star_stable. Qed.
Print Assumptions C01_stable.

(* tau_star is defined (the real code does not panic) whenever the global counter stays below 2^64 *)
Theorem C01_defined :
  forall P : program, no_global_overflow P -> exists G, tau_star P = Some G.
Proof. exact tau_star_defined. Qed.
Print Assumptions C01_defined.

(* (d) every formula of tau*(P) is a sentence *)
Theorem C01_closed :
  forall (P : program) (G : theory), tau_star P = Some G -> forall F, In F G -> free_variables F = [].
Proof. exact tau_star_closed. Qed.
Print Assumptions C01_closed.

(* tau*(P) mentions exactly the predicates (symbol/arity) of P *)
Theorem C01_predicates :
  forall (P : program) (G : theory) (p : pred), tau_star P = Some G ->
  (In p (theory_predicates G) <-> In p (program_preds P)).
Proof. exact tau_star_predicates. Qed.
Print Assumptions C01_predicates.

(* classical reading used by the completion (C04): the antecedent val_t(V) & tau^B(Body) of a rule
   with head p(t) is satisfiable with V := d exactly for the tuples d the rule derives *)
Theorem C01_fo_body_classical :
  forall (FI : fint) (T : pint) (r : rule) (a : atom) (globals : list string),
  head_atom (rhead r) = Some a -> fresh_globals r globals ->
  let fvars := firstn (List.length (aterms a)) globals in
  forall d,
    (exists e, map (getv e) (map gvar fvars) = d /\
               csat FI T e (FBin CAnd (valtz (aterms a) (map gvar fvars)) (tau_body (rbody r)))) <->
    (exists sg, tuple_vals sg (aterms a) d /\ body_sat T T sg (rbody r)).
Proof. exact fo_body_classical. Qed.
Print Assumptions C01_fo_body_classical.

(* the executable reference evaluator used by the semantic cross-check (driver op sem_tau_star)
   computes, with the trivial universe filter, exactly the value sets of the oracle *)
Theorem C01_ref_vals :
  forall (sg : fassign) (t : term) (v : gval),
  In v (ref_vals all_values sg t) <-> vals (alookup sg) t v.
Proof. exact ref_vals_spec. Qed.
Print Assumptions C01_ref_vals.

(* ---------- non-vacuity ---------- *)
(* a program using every operator, all signs, a choice head, a constraint, with variables named
   I, J, K, Z, Z1, V1, Q, R (all of which collide with names the translator picks) *)
Definition v (x : string) : term := TVar x.
Definition n (z : Z) : term := TPre (PNum z).
Definition P_ex : program :=
  [ mkrule (HBasic (mkatom "p" [TBin ADiv (v "I") (v "J"); TBin AMod (v "Z") (v "Q"); TUn AUNeg (v "K")]))
      [ BLit (mklit SNone (mkatom "q" [v "I"; v "J"; v "K"]));
        BLit (mklit SNone (mkatom "q" [v "Z"; v "Z1"; v "V1"]));
        BLit (mklit SDNeg (mkatom "q" [v "R"; v "Q"; v "Q"]));
        BCmp (mkcmp AEq (TBin AAdd (v "I") (v "J")) (TBin ASub (TBin AMul (v "K") (v "Z")) (v "Z1")));
        BCmp (mkcmp AEq (v "V1") (TBin AInterval (n 1) (n 3))) ];
    mkrule (HChoice (mkatom "p" [TBin AInterval (v "Z1") (v "V1"); v "Q"; v "R"]))
      [ BLit (mklit SNone (mkatom "q" [v "Z1"; v "V1"; v "Q"]));
        BCmp (mkcmp ALe (v "R") (TBin AMul (v "Q") (n 2))) ];
    mkrule HFalsity
      [ BLit (mklit SNone (mkatom "q" [v "I"; v "J"; v "K"]));
        BLit (mklit SNeg (mkatom "q" [v "I"; v "J"; v "K"]));
        BCmp (mkcmp ANe (v "I") (v "J")) ];
    mkrule (HBasic (mkatom "p" [TBin AInterval (n 1) (n 3); n 0; TPre (PSym "a")])) [] ].

Definition FI0 : fint := mkfint (fun _ => VNum 0%Z) (fun _ => 0%Z) (fun _ => "").

(* tau_star is defined on it (4 formulas); Fol.variables, used for the Q/R names, goes through an
   opaque equality test and does not compute inside Coq, so definedness comes from C01_defined *)
Lemma P_ex_defined : exists G, tau_star P_ex = Some G /\ List.length G = 4.
Proof.
  destruct (C01_defined P_ex) as [G HG].
  { right. vm_compute. reflexivity. }
  exists G. split; [exact HG|].
  unfold tau_star in HG. destruct (choose_fresh_global_variables P_ex); [|discriminate].
  apply map_opt_forall2 in HG. clear -HG.
  assert (L : forall (A B : Type) (R : A -> B -> Prop) l m, Forall2 R l m -> List.length m = List.length l)
    by (induction 1; cbn; congruence).
  apply L in HG. exact HG.
Qed.

(* both sides TRUE: T = every atom, H = every atom except those of the (unused) predicate s *)
Example C01_nonvacuous_true :
  let T : pint := fun _ _ => True in
  let H : pint := fun p _ => p <> "s" in
  sub H T /\ ~ (forall p a, T p a -> H p a) /\ ref_sat H T P_ex /\
  forall G, tau_star P_ex = Some G -> theory_hsat FI0 H T G.
Proof.
  cbv zeta.
  split; [intros p a _; exact I|]. split; [intros Hall; apply (Hall "s" [] I); reflexivity|].
  assert (Href : ref_sat (fun p _ => p <> "s") (fun _ _ => True) P_ex).
  { intros r [<-|[<-|[<-|[<-|[]]]]]; intros sg; cbn [rhead rbody head_sat apred]; split.
    - intros _ vs _. discriminate.
    - intros _ vs _. exact I.
    - intros _ vs _. left. discriminate.
    - intros _ vs _. left. exact I.
    - intros Hb. inversion Hb as [|? ? _ Hb']; subst. inversion Hb' as [|? ? Hn _]; subst.
      destruct Hn as [vs [_ Hn]]. apply Hn. exact I.
    - intros Hb. inversion Hb as [|? ? _ Hb']; subst. inversion Hb' as [|? ? Hn _]; subst.
      destruct Hn as [vs [_ Hn]]. apply Hn. exact I.
    - intros _ vs _. discriminate.
    - intros _ vs _. exact I. }
  split; [exact Href|]. intros G HG. apply (proj2 (C01_ht FI0 P_ex G _ _ HG)). exact Href.
Qed.

(* both sides FALSE: H = T = no atom at all; the fact p(1..3,0,a) is violated *)
Example C01_nonvacuous_false :
  let T : pint := fun _ _ => False in
  ~ ref_sat T T P_ex /\ forall G, tau_star P_ex = Some G -> ~ theory_hsat FI0 T T G.
Proof.
  cbv zeta.
  assert (Href : ~ ref_sat (fun _ _ => False) (fun _ _ => False) P_ex).
  { intros Hs.
    destruct (Hs (mkrule (HBasic (mkatom "p" [TBin AInterval (n 1) (n 3); n 0; TPre (PSym "a")])) [])
                 ltac:(cbn; tauto) (fun _ => VNum 0%Z)) as [Hh _].
    apply (Hh ltac:(constructor) [VNum 1%Z; VNum 0%Z; VSym "a"]).
    repeat constructor. cbn. exists 1%Z, 3%Z, 1%Z. repeat split; reflexivity || discriminate. }
  split; [exact Href|]. intros G HG Hg. apply Href.
  apply (proj1 (C01_ht FI0 P_ex G _ _ HG)). exact Hg.
Qed.

(* the overflow panic is real in the model: a head of arity 1 and a variable V18446744073709551615 *)
Example C01_overflow_panics :
  tau_star [mkrule (HBasic (mkatom "p" [v "V18446744073709551615"])) []] = None.
Proof. vm_compute. reflexivity. Qed.

(* val's fresh names on adversarial input: the literal mentions Z and Z1, the term I, J and K *)
Example C01_adversarial_names :
  tau_b (BLit (mklit SNeg (mkatom "p" [TBin AInterval (v "I") (TBin AAdd (v "J") (v "K")); v "Z"; v "Z1"]))) =
  FQ QExists [gvar "Z2"; gvar "Z3"; gvar "Z4"]
    (FBin CAnd
       (FBin CAnd
          (FBin CAnd
             (FQ QExists [ivar "I1"; ivar "J1"; ivar "K1"]
                (FBin CAnd
                   (FBin CAnd
                      (FBin CAnd
                         (eq_formula (GInt (IVar "I1")) (GVar "I"))
                         (FQ QExists [ivar "I"; ivar "J2"]
                            (FBin CAnd
                               (FBin CAnd (eq_formula (GInt (IVar "J1")) (GInt (IBin BAdd (IVar "I") (IVar "J2"))))
                                  (eq_formula (GInt (IVar "I")) (GVar "J")))
                               (eq_formula (GInt (IVar "J2")) (GVar "K")))))
                      (eq_formula (GVar "Z2") (GInt (IVar "K1"))))
                   (FAtomic (ACmp (GInt (IVar "I1")) [mkguard RLe (GInt (IVar "K1")); mkguard RLe (GInt (IVar "J1"))]))))
             (eq_formula (GVar "Z3") (GVar "Z")))
          (eq_formula (GVar "Z4") (GVar "Z1")))
       (FNot (FAtomic (AAtom "p" [GVar "Z2"; GVar "Z3"; GVar "Z4"])))).
Proof. vm_compute. reflexivity. Qed.
