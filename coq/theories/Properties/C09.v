(* C09 — every emitted problem is well-formed, well-typed, self-contained TFF.
   Statements only; proofs live in Proofs/ProblemWt.v.

   Reading guide:
   - Sem/TffWt.v          [wt_problem]: the type checker (specification, trusted by inspection);
   - Model/ProblemPrint.v [emit]: `Display for Problem` as a structured TFF problem (preamble,
                          declarations, symbol_order axioms, named formulas); [pipeline]: the
                          assembly add_annotated_formulas / rename_conflicting_symbols /
                          create_unique_formula_names / decompose; [ident_ok]: complement of
                          IdentClass, the identifier shapes that break the property on the
                          unchanged tree (known findings, witnesses below). *)
From Coq Require Import List String ZArith Bool.
Import ListNotations.
From Anthem Require Import Syntax.Fol Syntax.Tff Sem.TffWt Model.Problem Model.TptpPrint Model.ProblemPrint
  Proofs.PipelineOk Proofs.ProblemWt Proofs.ClosedOk.
Open Scope string_scope.

Definition IdentClass (pb : problem) : Prop := ident_ok pb = false.

(* Every problem the pipeline emits from closed formulas of the parser image, outside IdentClass,
   type-checks: each predicate (name/arity), symbolic constant and placeholder it uses is declared
   exactly once with the type it is used at, no identifier is declared twice, every variable is
   bound by a typed quantifier, all terms and atoms type-check against the declarations and the
   built-in $int signature, formula names are unique, there is exactly one conjecture. *)
Theorem C09 :
  forall (raw : problem) (d : decomposition) (pb : problem),
  (forall a, In a (pb_formulas raw) -> closed_formula (pf_formula a) = true) ->
  In pb (pipeline raw d) -> ~ IdentClass pb ->
  wt_problem (emit pb) = true.
Proof. exact pipeline_wt. Qed.
Print Assumptions C09.

(* the components that do not depend on identifiers hold for EVERY emitted problem, also inside
   IdentClass: exactly one conjecture, and formula names unique among themselves *)
Theorem C09_one_conjecture :
  forall (raw : problem) (d : decomposition) (pb : problem),
  In pb (pipeline raw d) -> wt_one_conjecture (emit pb) = true.
Proof. exact pipeline_one_conjecture. Qed.
Print Assumptions C09_one_conjecture.

Theorem C09_names_unique :
  forall (raw : problem) (d : decomposition) (pb : problem),
  In pb (pipeline raw d) -> NoDup (map pf_name (pb_formulas pb)).
Proof. exact pipeline_names_nodup. Qed.
Print Assumptions C09_names_unique.

(* the premise of C09 in terms of the implementation's own notion: a formula of the parser image
   (every quantifier binds a variable) whose free_variables() set is empty is closed *)
Theorem C09_closed :
  forall F : formula, binders_nonempty F = true -> free_variables F = [] -> closed_formula F = true.
Proof. exact closed_of_fv. Qed.
Print Assumptions C09_closed.

(* ---------- non-vacuity: a clean problem type-checks ---------- *)
Definition one (f : formula) : problem := mkproblem "w" [mkpf "c" PConjecture f].
Definition atom (p : string) (ts : list gterm) : formula := FAtomic (AAtom p ts).
Definition verdicts (raw : problem) : list (bool * bool) :=
  map (fun pb => (ident_ok pb, wt_problem (emit pb))) (pipeline raw DIndependent).

Example C09_ex_clean :
  verdicts (one (FQ QForall [mkvar "X" SGeneral; mkvar "N" SInteger]
                  (FBin CImp (atom "p" [GVar "X"; GSym (SSym "a")])
                             (FAtomic (ACmp (GInt (IVar "N")) [mkguard RLt (GInt (IFun "n")); mkguard RLe (GSym (SSym "b"))])))))
  = [(true, true)].
Proof. vm_compute. reflexivity. Qed.
(* a symbolic constant named like a 0-ary predicate is renamed p__s: no clash *)
Example C09_ex_renamed :
  verdicts (one (FBin CAnd (atom "p" []) (atom "q" [GSym (SSym "p")]))) = [(true, true)].
Proof. vm_compute. reflexivity. Qed.

(* ---------- the members of IdentClass: each really breaks the property ---------- *)
(* F8: leading underscore in a symbolic constant / predicate / variable (not TPTP words) *)
Example known_underscore_symbol : verdicts (one (atom "p" [GSym (SSym "_a")])) = [(false, false)].
Proof. vm_compute. reflexivity. Qed.
Example known_underscore_predicate : verdicts (one (atom "_r" [])) = [(false, false)].
Proof. vm_compute. reflexivity. Qed.
Example known_underscore_variable :
  verdicts (one (FQ QForall [mkvar "_X" SGeneral] (atom "p" [GVar "_X"]))) = [(false, false)].
Proof. vm_compute. reflexivity. Qed.
(* F13: one predicate name at two arities is declared twice, at two types *)
Example known_two_arities :
  verdicts (one (FBin CAnd (atom "p" [GInf]) (atom "p" [GInf; GSup]))) = [(false, false)].
Proof. vm_compute. reflexivity. Qed.
(* a symbolic constant named like an n-ary predicate, n > 0 (only n = 0 is renamed) *)
Example known_symbol_like_predicate : verdicts (one (atom "q" [GSym (SSym "q")])) = [(false, false)].
Proof. vm_compute. reflexivity. Qed.
(* symbolic constant n_i next to the integer placeholder n: both are the identifier n_i *)
Example known_symbol_like_placeholder :
  verdicts (one (atom "p" [GSym (SSym "n_i"); GInt (IFun "n")])) = [(false, false)].
Proof. vm_compute. reflexivity. Qed.
(* the renamed constant p__s meets an existing 0-ary predicate p__s *)
Example known_renamed_meets_predicate :
  verdicts (one (FBin CAnd (atom "p" []) (FBin CAnd (atom "p__s" []) (atom "q" [GSym (SSym "p")])))) = [(false, false)].
Proof. vm_compute. reflexivity. Qed.
(* identifiers of the preamble used as symbolic constants or predicates *)
Example known_reserved_symbol : verdicts (one (atom "p" [GSym (SSym "general")])) = [(false, false)].
Proof. vm_compute. reflexivity. Qed.
Example known_reserved_constant : verdicts (one (atom "p" [GSym (SSym "c__infimum__")])) = [(false, false)].
Proof. vm_compute. reflexivity. Qed.
Example known_reserved_predicate : verdicts (one (atom "p__less__" [GInf; GSup])) = [(false, false)].
Proof. vm_compute. reflexivity. Qed.
(* NOT a member: the renamed constant p__s meeting an existing CONSTANT p__s merges two constants
   (a change of meaning, finding F8b of C03) but the problem still type-checks *)
Example C09_ex_merge_is_well_typed :
  verdicts (one (FBin CAnd (atom "p" []) (atom "q" [GSym (SSym "p"); GSym (SSym "p__s")]))) = [(true, true)].
Proof. vm_compute. reflexivity. Qed.
