(* C09 — every emitted problem is well-formed, well-typed, self-contained TFF.
   Statements only; proofs live in Proofs/ProblemWt.v.

   Reading guide:
   - Sem/TffWt.v          [wt_problem]: the type checker (specification, trusted by inspection);
   - Model/ProblemPrint.v [emit]: `Display for Problem` as a structured TFF problem (preamble,
                          declarations, symbol_order axioms, named formulas); [pipeline]: the
                          assembly add_annotated_formulas / rename_conflicting_symbols /
                          create_unique_formula_names / decompose; [ident_ok]: complement of
                          IdentClass, the identifier shapes that break the property on the
                          unchanged tree (known findings, witnesses below);
   - Model/TffText.v      [read_problem]: the specification READER of the emitted bytes (lexer,
                          statements split at '.', `tff(name, type, ident: sig)` declarations,
                          `tff(name, role, formula)` with the formula read by [tff_read]);
                          [problem_display] (Model/ProblemPrint.v) is the model of the BYTES
                          `impl Display for Problem` writes, compared byte-for-byte with the real
                          output by the correspondence op `problem_display`.
   C09 itself is about the structured view [emit pb]; C09_display_reads_as_emit ties it to the
   bytes, C09_text is the statement about the emitted text. *)
From Coq Require Import List String ZArith Bool.
Import ListNotations.
From Anthem Require Import Syntax.Fol Syntax.Tff Sem.TffWt Model.Problem Model.TptpPrint Model.ProblemPrint Model.TffText
  Proofs.PipelineOk Proofs.ProblemWt Proofs.ClosedOk Proofs.ProblemCtx Proofs.ProblemText.
Open Scope string_scope.

Definition IdentClass (pb : problem) : Prop := ident_ok pb = false.

(* Every problem the pipeline emits from closed formulas of the parser image, outside IdentClass,
   type-checks: each predicate (name/arity), symbolic constant and placeholder it uses is declared
   exactly once with the type it is used at, no identifier is declared twice, every variable is
   bound by a typed quantifier, all terms and atoms type-check against the declarations and the
   built-in $int signature, formula names are unique, there is exactly one conjecture. *)
Theorem C09 :
  forall (raw : problem) (d : decomposition) (pb : problem),
  (forall a, In a (pb_formulas raw) -> closed_formula (pf_formula a) = true) ->
  In pb (pipeline raw d) -> ~ IdentClass pb ->
  wt_problem (emit pb) = true.
Proof. exact pipeline_wt. Qed.
Print Assumptions C09.

(* ---------- the EMITTED TEXT ----------
   The bytes the model of `impl Display for Problem` writes are read back, by the specification
   reader, as exactly the structured problem [emit pb] that C09 type-checks.  Premises: those of
   C09 plus the parser image (a comparison has at least one guard; the parsers cannot produce
   another formula, but the type [formula] can: see C09_ex_parser_image_needed). *)
Theorem C09_display_reads_as_emit :
  forall (raw : problem) (d : decomposition) (pb : problem) (txt : string),
  (forall a, In a (pb_formulas raw) -> closed_formula (pf_formula a) = true) ->
  (forall a, In a (pb_formulas raw) -> cmps_nonempty (pf_formula a) = true) ->
  In pb (pipeline raw d) -> ~ IdentClass pb ->
  problem_display pb = Some txt -> read_problem txt = Some (emit pb).
Proof. exact pipeline_display_reads_as_emit. Qed.
Print Assumptions C09_display_reads_as_emit.

(* C09 about the text: the emitted bytes exist (the formatter does not panic), they are a readable
   TFF problem, and that problem is well-formed, well-typed and self-contained *)
Theorem C09_text :
  forall (raw : problem) (d : decomposition) (pb : problem),
  (forall a, In a (pb_formulas raw) -> closed_formula (pf_formula a) = true) ->
  (forall a, In a (pb_formulas raw) -> cmps_nonempty (pf_formula a) = true) ->
  In pb (pipeline raw d) -> ~ IdentClass pb ->
  exists (txt : string) (tp : tff_problem),
    problem_display pb = Some txt /\ read_problem txt = Some tp /\ wt_problem tp = true.
Proof. exact pipeline_text_wt. Qed.
Print Assumptions C09_text.

(* the reading half also holds for formulas with free variables (external_equivalence.rs does not
   close specification formulas): any problem outside IdentClass whose formulas are lexically in
   the parser image ([wf_lex]: words of the right class, no empty comparison or binder) *)
Theorem C09_display_reads_as_emit_open :
  forall (pb : problem) (txt : string), ~ IdentClass pb ->
  (forall a, In a (pb_formulas pb) -> wf_lex (pf_formula a) = true) ->
  problem_display pb = Some txt -> read_problem txt = Some (emit pb).
Proof. exact display_reads_as_emit_open. Qed.
Print Assumptions C09_display_reads_as_emit_open.

(* the side conditions of the reading are implied by C09's premises: every formula of an emitted
   problem outside IdentClass that is closed and in the parser image is lexically fine *)
Theorem C09_premises_give_wf_lex :
  forall (pb : problem) (a : pformula), ~ IdentClass pb -> In a (pb_formulas pb) ->
  closed_formula (pf_formula a) = true -> cmps_nonempty (pf_formula a) = true ->
  wf_lex (pf_formula a) = true.
Proof. exact premises_give_wf_lex. Qed.
Print Assumptions C09_premises_give_wf_lex.

Theorem C09_display_total : forall pb : problem, exists txt, problem_display pb = Some txt.
Proof. exact problem_display_total. Qed.
Print Assumptions C09_display_total.

(* the components that do not depend on identifiers hold for EVERY emitted problem, also inside
   IdentClass: exactly one conjecture, and formula names unique among themselves *)
Theorem C09_one_conjecture :
  forall (raw : problem) (d : decomposition) (pb : problem),
  In pb (pipeline raw d) -> wt_one_conjecture (emit pb) = true.
Proof. exact pipeline_one_conjecture. Qed.
Print Assumptions C09_one_conjecture.

Theorem C09_names_unique :
  forall (raw : problem) (d : decomposition) (pb : problem),
  In pb (pipeline raw d) -> NoDup (map pf_name (pb_formulas pb)).
Proof. exact pipeline_names_nodup. Qed.
Print Assumptions C09_names_unique.

(* the premise of C09 in terms of the implementation's own notion: a formula of the parser image
   (every quantifier binds a variable) whose free_variables() set is empty is closed *)
Theorem C09_closed :
  forall F : formula, binders_nonempty F = true -> free_variables F = [] -> closed_formula F = true.
Proof. exact closed_of_fv. Qed.
Print Assumptions C09_closed.

(* ---------- non-vacuity: a clean problem type-checks ---------- *)
Definition one (f : formula) : problem := mkproblem "w" [mkpf "c" PConjecture f].
Definition atom (p : string) (ts : list gterm) : formula := FAtomic (AAtom p ts).
Definition verdicts (raw : problem) : list (bool * bool) :=
  map (fun pb => (ident_ok pb, wt_problem (emit pb))) (pipeline raw DIndependent).

Example C09_ex_clean :
  verdicts (one (FQ QForall [mkvar "X" SGeneral; mkvar "N" SInteger]
                  (FBin CImp (atom "p" [GVar "X"; GSym (SSym "a")])
                             (FAtomic (ACmp (GInt (IVar "N")) [mkguard RLt (GInt (IFun "n")); mkguard RLe (GSym (SSym "b"))])))))
  = [(true, true)].
Proof. vm_compute. reflexivity. Qed.
(* a symbolic constant named like a 0-ary predicate is renamed p__s: no clash *)
Example C09_ex_renamed :
  verdicts (one (FBin CAnd (atom "p" []) (atom "q" [GSym (SSym "p")]))) = [(true, true)].
Proof. vm_compute. reflexivity. Qed.

(* what the reader makes of the emitted bytes: Some true = readable and well-typed *)
Definition text_verdicts (raw : problem) : list (option bool) :=
  map (fun pb => match problem_display pb with
                 | Some txt => option_map wt_problem (read_problem txt)
                 | None => None
                 end) (pipeline raw DIndependent).
Example C09_ex_clean_text :
  text_verdicts (one (FQ QForall [mkvar "X" SGeneral; mkvar "N" SInteger]
                  (FBin CImp (atom "p" [GVar "X"; GSym (SSym "a")])
                             (FAtomic (ACmp (GInt (IVar "N")) [mkguard RLt (GInt (IFun "n")); mkguard RLe (GSym (SSym "b"))])))))
  = [Some true].
Proof. vm_compute. reflexivity. Qed.
(* symbolic constants that end in a sort suffix, and the renamed constant p__s, are inside the
   property (audit A6/A7: `p(a_s)` satisfied C09's premises but not C06_reading's): the text
   declares `a_s: symbol` and reads back as [emit] *)
Example C09_ex_suffix_symbol :
  verdicts (one (atom "p" [GSym (SSym "a_s"); GSym (SSym "n_i")])) = [(true, true)] /\
  text_verdicts (one (atom "p" [GSym (SSym "a_s"); GSym (SSym "n_i")])) = [Some true] /\
  text_verdicts (one (FBin CAnd (atom "p" []) (atom "q" [GSym (SSym "p")]))) = [Some true].
Proof. repeat split; vm_compute; reflexivity. Qed.
(* why the parser-image premise: the value `ACmp t []` (not producible by the parsers) passes
   C09's premises, is printed as the empty string, and `tff(.., conjecture, ).` is unreadable *)
Example C09_ex_parser_image_needed :
  verdicts (one (FAtomic (ACmp GInf []))) = [(true, true)] /\
  text_verdicts (one (FAtomic (ACmp GInf []))) = [None].
Proof. split; vm_compute; reflexivity. Qed.

(* ---------- the members of IdentClass: each really breaks the property ---------- *)
(* a quantifier block that binds one variable twice: `forall X X (..)` is accepted by anthem's
   parser and printed `![X_g: general, X_g: general]: ..`; the text is readable but the strict
   checker rejects the block (TffWt.v) *)
Example known_duplicate_binder :
  verdicts (one (FQ QForall [mkvar "X" SGeneral; mkvar "X" SGeneral] (atom "p" [GVar "X"]))) = [(false, false)] /\
  text_verdicts (one (FQ QForall [mkvar "X" SGeneral; mkvar "X" SGeneral] (atom "p" [GVar "X"]))) = [Some false].
Proof. split; vm_compute; reflexivity. Qed.
(* F8: leading underscore in a symbolic constant / predicate / variable (not TPTP words) *)
Example known_underscore_symbol : verdicts (one (atom "p" [GSym (SSym "_a")])) = [(false, false)].
Proof. vm_compute. reflexivity. Qed.
Example known_underscore_predicate : verdicts (one (atom "_r" [])) = [(false, false)].
Proof. vm_compute. reflexivity. Qed.
Example known_underscore_variable :
  verdicts (one (FQ QForall [mkvar "_X" SGeneral] (atom "p" [GVar "_X"]))) = [(false, false)].
Proof. vm_compute. reflexivity. Qed.
(* F13: one predicate name at two arities is declared twice, at two types *)
Example known_two_arities :
  verdicts (one (FBin CAnd (atom "p" [GInf]) (atom "p" [GInf; GSup]))) = [(false, false)].
Proof. vm_compute. reflexivity. Qed.
(* a symbolic constant named like an n-ary predicate, n > 0 (only n = 0 is renamed) *)
Example known_symbol_like_predicate : verdicts (one (atom "q" [GSym (SSym "q")])) = [(false, false)].
Proof. vm_compute. reflexivity. Qed.
(* symbolic constant n_i next to the integer placeholder n: both are the identifier n_i *)
Example known_symbol_like_placeholder :
  verdicts (one (atom "p" [GSym (SSym "n_i"); GInt (IFun "n")])) = [(false, false)].
Proof. vm_compute. reflexivity. Qed.
(* the renamed constant p__s meets an existing 0-ary predicate p__s *)
Example known_renamed_meets_predicate :
  verdicts (one (FBin CAnd (atom "p" []) (FBin CAnd (atom "p__s" []) (atom "q" [GSym (SSym "p")])))) = [(false, false)].
Proof. vm_compute. reflexivity. Qed.
(* identifiers of the preamble used as symbolic constants or predicates *)
Example known_reserved_symbol : verdicts (one (atom "p" [GSym (SSym "general")])) = [(false, false)].
Proof. vm_compute. reflexivity. Qed.
Example known_reserved_constant : verdicts (one (atom "p" [GSym (SSym "c__infimum__")])) = [(false, false)].
Proof. vm_compute. reflexivity. Qed.
Example known_reserved_predicate : verdicts (one (atom "p__less__" [GInf; GSup])) = [(false, false)].
Proof. vm_compute. reflexivity. Qed.
(* NOT a member: the renamed constant p__s meeting an existing CONSTANT p__s merges two constants
   (a change of meaning, finding F8b of C03) but the problem still type-checks *)
Example C09_ex_merge_is_well_typed :
  verdicts (one (FBin CAnd (atom "p" []) (atom "q" [GSym (SSym "p"); GSym (SSym "p__s")]))) = [(true, true)].
Proof. vm_compute. reflexivity. Qed.
