(* C02, composed with the real components (C01 tau*, C04 completion + Fages, C07 simplification, C11
   tightness / private recursion): external-equivalence obligations are refuted exactly by
   differences in external behaviour.  Statements only; proofs in Proofs/C02Full.v,
   Proofs/PlaceholderOk.v, Proofs/FagesTauStar.v (and the assembly layer Proofs/C02Ok.v).

   Model: Model/ExternalFull.v - ExternalEquivalenceTask::decompose with Tightness.is_tight,
   PrivRec.has_private_recursion, TauStar.tau_star, Outline.rp_theory (replace_placeholders),
   Completion.completion and the INTUITIONISTIC ++ HT ++ CLASSIC fixpoint (explicit fuel) in
   place of the Section parameters of Model/External.v; outcome XOk / XErr / XPanic /
   XNonterminating.  Oracle: Sem/AspRef.stable, Sem/Sat.csat. *)
From Coq Require Import List String ZArith Bool.
Import ListNotations.
From Anthem Require Import Base.ISet Syntax.Fol Syntax.Asp Sem.Domain Sem.Sat Sem.AspRef
  Model.Problem Model.Outline Model.Strong Model.External Model.Tightness Model.PrivRec Model.TauStar
  Model.Completion Model.StrategyCls Model.ExternalFull
  Proofs.SemBase Proofs.DecomposeOk Proofs.StrongOk Proofs.ExternalOk Proofs.AssemblyOk Proofs.RenameOk
  Proofs.C19Ext Proofs.C02Ok Proofs.FagesBridge Proofs.PlaceholderOk Proofs.C02Full Proofs.TightnessOk Proofs.PrivateUnique
  Proofs.CompletionOk Proofs.HeadPred Proofs.HeadPredPipeline Proofs.C02Priv Proofs.C02Behaviour Proofs.C02Complete Proofs.C02Witness
  Proofs.MissingOutputs Proofs.C02Unused.
Open Scope string_scope.
Open Scope list_scope.

(* ---- vocabulary (definitions live in the Proofs files) ----
   ph_program FI m P       P with every symbol that names a placeholder of m replaced by the value FI
                           gives that placeholder (a numeral, symbol, #inf or #sup)
   rpv FI m F              the same replacement in a formula
   restrict S M            the interpretation M cut down to the predicates (symbol/arity) of S
   ext_voc t P             predicates of P, the input predicates of the user guide, and the output
                           predicates of the user guide THAT OCCUR IN THE TASK (in the specification
                           side or in the program: External.task_occurring_predicates, the set
                           `occurring_predicates` of the code since /repo 18b2e85)
   ext_voc_public t P      predicates of P and ALL public (input and output) predicates of the user guide
   ext_stable_full t FI M P  :=  stable (restrict (ext_voc t P) M)
                                        (ph_program FI (task_placeholders t) P)
                                        (input_facts (restrict (ext_voc t P) M) (task_inputs t))
        "on the vocabulary of the task M is a stable model of P plus M's input facts, placeholders
         read by FI" - in particular an output predicate that does not occur in P but occurs on the
         other side is empty in M (finding F17; audit A4).  An output predicate that occurs on
         NEITHER side is outside the vocabulary: no emitted formula mentions it, so an
         interpretation refutes a problem whatever extent it gives to it, and it is judged on the
         rest.  ext_stable_public is the same with ext_voc_public; section "unused output
         predicates" below: the two readings coincide on the interpretations that are empty on
         the unused output predicates, and the existential theorems hold verbatim in both.
   outputs_occur t         every output predicate declared in the user guide occurs in the specification
                           program and in the program (decidable: outputs_occurb) - NO LONGER a premise
   reindex m M             M read through the renaming of private predicates (p |-> p_p)

   WHAT IS PROVED, AND WHAT IS NOT (audit A1, A3, A4).  The task-level theorems below are for
   program-vs-program tasks without proof outline, both programs tight, under two class
   exclusions: (i) the task's own validated task has no symbol equal to a 0-ary predicate
   (otherwise rename_conflicting_symbols acts and the symbol_order chain is false for the
   constants: finding F8c, Properties/C12.v); (ii) the private renaming enters as `reindex`
   (faithful under no_rename_clash; F9).
   Finding F17 (audit A4) is REPAIRED in /repo (70e6ace, refined by 18b2e85): a declared output
   predicate that does not occur in a program but occurs on the other side now receives the empty
   completed definition `forall X (p(X) <-> #false)` on that side (Model/External.v:
   missing_output_definitions), which says exactly what external stability over the vocabulary of
   the task says about it (C02_missing_output_empty, C02_empty_definition_meaning).  The former premise `outputs_occur t` of the theorems below is
   gone; the layer-(c) theorems take `c_io_disjoint t = true` instead (input and output declarations
   are disjoint - an applicability condition anthem enforces: InputOutputPredicatesOverlap), which
   the task-level theorems derive from acceptance.  C02_missing_output_regression keeps the witness.
   The direction proved without hypothesis on the interpretation is COUNTERMODEL SOUNDNESS
   (C02_countermodel_sound: refutes => behavioural difference).  The converse over the public part
   only is C02_countermodel_complete (see there for what it assumes). *)

(* (b) replace_placeholders commutes with satisfaction when the symbol is read as the
   placeholder's value ... *)
Theorem C02_replace_placeholders_sem :
  forall (FI : fint) (m : placeholders) (I : pint) (f : formula) (e : env),
    csat FI I e (rp_formula m f) <-> csat FI I e (rpv FI m f).
Proof. exact rp_rpv_csat. Qed.
Print Assumptions C02_replace_placeholders_sem.

(* ... and with tau*: the value reading of tau*(P) is tau* of the value reading of P *)
Theorem C02_replace_placeholders_tau_star :
  forall (FI : fint) (m : placeholders) (P : program),
    tau_star (ph_program FI m P) = option_map (map (rpv FI m)) (tau_star P).
Proof. exact rpv_tau_star. Qed.
Print Assumptions C02_replace_placeholders_tau_star.

(* simplification inside the pipeline never changes the classical meaning (whatever the fuel) *)
Theorem C02_simplify_sound :
  forall (fuel : nat) (F : formula) (FI : fint) (I : pint) (e : env),
    csat FI I e (simp_classic_total fuel F) <-> csat FI I e F.
Proof. exact simp_classic_total_sound. Qed.
Print Assumptions C02_simplify_sound.

(* (c) completion semantics, for the real pipeline: the theory `theory_translate` produces for a
   tight program without input predicates in heads (tau*, placeholders replaced, completed w.r.t.
   the input predicates, optionally simplified) is true in M exactly when M is an external stable
   model of the program.  Discharges the hypothesis `translate_meaning` of C02_partial. *)
Theorem C02_translate_meaning :
  forall (fuel : nat) (t : ext_task) (P : program) (G th : theory),
    is_tight P = true ->
    (forall r h, In r P -> head_pred (rhead r) = Some h -> ~ In h (task_inputs t)) ->
    c_io_disjoint t = true ->
    tau_star P = Some G ->
    theory_translate tau_star_total completion (simp_classic_total fuel) t (task_placeholders t) P = Some th ->
    forall (FI : fint) (M : pint), tvalid FI M th <-> ext_stable_full t FI M P.
Proof. exact translate_meaning_full. Qed.
Print Assumptions C02_translate_meaning.

(* an accepted task without --bypass-tightness has two tight programs *)
Theorem C02_accepted_tight :
  forall (fuel : nat) (t : ext_task) w pbs (L : program),
    external_decompose_full fuel t = XOk w pbs ->
    et_bypass_tightness t = false -> et_specification t = inl L ->
    is_tight L = true /\ is_tight (et_program t) = true.
Proof. exact accepted_tight. Qed.
Print Assumptions C02_accepted_tight.

(* C02 with every component real, program-vs-program tasks without proof outline: when the full
   model accepts the task (XOk: all applicability checks passed, no translation panicked, every
   fixpoint returned within the fuel) and both programs are tight, an interpretation M of input,
   output and private predicates that satisfies the user-guide assumptions and the completed
   definitions of the private predicates of both sides refutes an emitted problem iff, for an
   enabled direction, it is an external stable model of one program and - read through the renaming
   of the private predicates - not of the other.
   REMAINING HYPOTHESES (hence the name): (d) uniqueness of the private extension is not used - the
   statement speaks about the private extents M itself carries (hypotheses `assumptions_of`), not
   yet about "the other program cannot produce this public part"; `validated_no_clash` (no symbol
   equal to a 0-ary predicate: rename_conflicting_symbols is the identity); the private renaming
   enters through `reindex` (it is a faithful re-reading exactly when no_rename_clash holds, C02_rename_surjective; F9 otherwise). *)
Theorem C02_modulo_private_uniqueness :
  forall (fuel : nat) (t : ext_task) (L : program) w pbs lft rgt,
    et_specification t = inl L -> et_proof_outline t = [] ->
    external_decompose_full fuel t = XOk w pbs ->
    is_tight L = true -> is_tight (et_program t) = true ->
    task_left tau_star_total completion (simp_classic_total fuel) t L = Some lft ->
    task_right tau_star_total completion (simp_classic_total fuel) t = Some rgt ->
    (forall vt, task_validated tau_star_total completion (simp_classic_total fuel) t = Some vt -> validated_no_clash vt) ->
    forall (FI : fint) (M : pint),
      tvalid FI M (map (fun a => rp_formula (task_placeholders t) (an_formula a)) (filter is_assumption (ug_formulas (et_user_guide t)))) ->
      tvalid FI M (assumptions_of lft) -> tvalid FI M (assumptions_of rgt) ->
      (refutes_some FI M pbs <->
       (dir_forward (et_direction t) = true /\
        ext_stable_full t FI M L /\ ~ ext_stable_full t FI (reindex (task_mapping t) M) (et_program t)) \/
       (dir_backward (et_direction t) = true /\
        ext_stable_full t FI (reindex (task_mapping t) M) (et_program t) /\ ~ ext_stable_full t FI M L)).
Proof. exact C02_full_proof. Qed.
Print Assumptions C02_modulo_private_uniqueness.

(* (d) uniqueness of the private extension, at the level of programs.
   priv_supported M P priv := every private predicate holds in M exactly on the tuples derived by
   one of its rules from M (the reading C04_clark gives to the completed definitions of the private
   predicates; no choice heads, since there is no private choice).
   For a program without private recursion, two interpretations that agree on the non-private
   predicates of the program and are both supported on the private ones agree on the private ones. *)
Theorem C02_private_extension_unique :
  forall (P : program) (priv : list pred) (M1 M2 : pint),
    has_private_recursion P priv = false ->
    (forall q, In q (program_preds P) -> ~ In q priv -> agree_on M1 M2 q) ->
    priv_supported M1 P priv -> priv_supported M2 P priv ->
    forall p, In p priv -> agree_on M1 M2 p.
Proof. exact private_extension_unique. Qed.
Print Assumptions C02_private_extension_unique.

(* ... and such a private extension exists for every interpretation of the non-private predicates:
   together, the private predicates of a program without private recursion are DEFINED by the
   non-private ones (exactly one supported extension). *)
Theorem C02_private_extension_exists :
  forall (P : program) (priv : list pred) (N : pint),
    has_private_recursion P priv = false ->
    exists M : pint,
      (forall p d, ~ In (mkpred p (List.length d)) priv -> (M p d <-> N p d)) /\
      priv_supported M P priv.
Proof. exact private_extension_exists. Qed.
Print Assumptions C02_private_extension_exists.

(* every model of completion(tau*(P)) is supported on the private predicates ... *)
Theorem C02_completion_priv_supported :
  forall (FI : fint) (P : program) (G D : theory) (ins priv : list pred) (M : pint),
    represents FI G P -> completion G ins = Some D ->
    ~ private_choice P priv ->
    (forall p, In p priv -> In p (program_preds P) /\ ~ In p ins) ->
    (forall f, In f D -> cvalid FI M f) ->
    priv_supported M P priv.
Proof. exact completion_priv_supported. Qed.
Print Assumptions C02_completion_priv_supported.

(* ... hence, behaviourally: for a tight program without private recursion, two external stable
   models (same input predicates) that agree on the non-private predicates are equal - the public
   part of an external stable model determines its private part. *)
Theorem C02_external_model_determined_by_public_part :
  forall (P : program) (G : theory) (ins priv : list pred) (FI : fint) (T1 T2 : pint),
    is_tight P = true ->
    (forall r h, In r P -> head_pred (rhead r) = Some h -> ~ In h ins) ->
    tau_star P = Some G ->
    has_private_recursion P priv = false ->
    (forall p, In p priv -> In p (program_preds P) /\ ~ In p ins) ->
    over_vocabulary T1 P ins -> over_vocabulary T2 P ins ->
    stable T1 P (input_facts T1 ins) -> stable T2 P (input_facts T2 ins) ->
    (forall p d, ~ In (mkpred p (List.length d)) priv -> (T1 p d <-> T2 p d)) ->
    forall p d, T1 p d <-> T2 p d.
Proof. exact stable_private_determined. Qed.
Print Assumptions C02_external_model_determined_by_public_part.

(* ---------------- hypothesis 1 of docs/C02full.md: what the Assumption formulas are ---------------- *)
(* role stability (Proofs/HeadPred.v, Properties/C19ext.v): with simplification on, the formulas
   control_translate labels Assumption are the simplified private definitions of the unsimplified
   theory - no private definition is lost to the conjectures, no constraint gained *)
Theorem C02_assumptions_simplified :
  forall (fuel : nat) (public : list pred) (th : theory),
    (forall f, In f th -> classified f) ->
    assumptions_of (control_translate public (map (simp_classic_total fuel) th))
    = map (simp_classic_total fuel) (assumptions_of (control_translate public th)).
Proof. exact assumptions_simplified. Qed.
Print Assumptions C02_assumptions_simplified.

(* ... which are exactly the completed definitions of the non-input, non-public predicates *)
Theorem C02_assumptions_are_private_definitions :
  forall (G : theory) (ins : list pred) (D : theory) (public : list pred),
    completion G ins = Some D -> (forall f, In f G -> rule_like f) ->
    exists defs cs, components G = Some (defs, cs) /\ has_head_mismatches (all_definitions G defs) = false /\
      assumptions_of (control_translate public D)
      = map complete_definition (filter (private_entry public) (filter (non_input ins) (all_definitions G defs))).
Proof. exact assumptions_completion. Qed.
Print Assumptions C02_assumptions_are_private_definitions.

(* ... and hold in M iff every private predicate is supported (the premise of layer (d)) *)
Theorem C02_private_definitions_supported :
  forall (FI : fint) (P : program) (G D : theory) (ins public priv : list pred) (M : pint),
    represents FI G P -> completion G ins = Some D -> (forall f, In f G -> rule_like f) ->
    ~ private_choice P priv ->
    (forall p, In p priv <-> In p (program_preds P) /\ ~ In p public) ->
    incl ins public ->
    (tvalid FI M (assumptions_of (control_translate public D)) <-> priv_supported M P priv).
Proof. exact private_definitions_supported. Qed.
Print Assumptions C02_private_definitions_supported.

(* for an accepted program-vs-program task (simplification on or off): the two premises
   `tvalid FI M (assumptions_of lft)`, `tvalid FI M (assumptions_of rgt)` of
   C02_modulo_private_uniqueness are equivalent to: the private predicates of the specification
   program are supported in M, those of the program are supported in M read through the renaming *)
Theorem C02_assumptions_iff_private_supported :
  forall (fuel : nat) (t : ext_task) (L : program) w pbs lft rgt,
    et_specification t = inl L ->
    external_decompose_full fuel t = XOk w pbs ->
    task_left tau_star_total completion (simp_classic_total fuel) t L = Some lft ->
    task_right tau_star_total completion (simp_classic_total fuel) t = Some rgt ->
    forall (FI : fint) (M : pint),
      (tvalid FI M (assumptions_of lft) <->
       priv_supported M (ph_program FI (task_placeholders t) L) (task_spec_private t)) /\
      (tvalid FI M (assumptions_of rgt) <->
       priv_supported (reindex (task_mapping t) M) (ph_program FI (task_placeholders t) (et_program t)) (task_prog_private t)).
Proof. exact accepted_assumptions_supported. Qed.
Print Assumptions C02_assumptions_iff_private_supported.

(* ---------------- layer (d) applied: quantification over the public part ---------------- *)
(* pub_agree t N M := N and M agree on every public (input or output) predicate of the user guide.
   One side: if M satisfies the Assumption formulas of a program's translated theory (= is supported
   on its private predicates), then "SOME interpretation with M's public part is an external stable
   model of the program" already means that M itself is one: the public part of an external stable
   model determines the private part. *)
Theorem C02_external_stable_public_part :
  forall (fuel : nat) (t : ext_task) (P : program) (G th : theory) (FI : fint) (M : pint),
    is_tight P = true ->
    (forall r h, In r P -> head_pred (rhead r) = Some h -> ~ In h (task_inputs t)) ->
    c_io_disjoint t = true ->
    TauStar.tau_star P = Some G ->
    theory_translate tau_star_total completion (simp_classic_total fuel) t (task_placeholders t) P = Some th ->
    has_private_recursion P (private_predicates (ug_public_predicates (et_user_guide t)) (program_preds P)) = false ->
    tvalid FI M (assumptions_of (control_translate (ug_public_predicates (et_user_guide t)) th)) ->
    ((exists N, pub_agree t N M /\ ext_stable_full t FI N P) <-> ext_stable_full t FI M P).
Proof. exact ext_stable_public_part. Qed.
Print Assumptions C02_external_stable_public_part.

(* C02_modulo_private_uniqueness with "the other program cannot produce this public part":
   same hypotheses; the right-hand sides now say that NO interpretation with M's public part is an
   external stable model of the other program *)
Theorem C02_behaviour :
  forall (fuel : nat) (t : ext_task) (L : program) w pbs lft rgt,
    et_specification t = inl L -> et_proof_outline t = [] ->
    external_decompose_full fuel t = XOk w pbs ->
    is_tight L = true -> is_tight (et_program t) = true ->
    task_left tau_star_total completion (simp_classic_total fuel) t L = Some lft ->
    task_right tau_star_total completion (simp_classic_total fuel) t = Some rgt ->
    (forall vt, task_validated tau_star_total completion (simp_classic_total fuel) t = Some vt -> validated_no_clash vt) ->
    forall (FI : fint) (M : pint),
      tvalid FI M (map (fun a => rp_formula (task_placeholders t) (an_formula a)) (filter is_assumption (ug_formulas (et_user_guide t)))) ->
      tvalid FI M (assumptions_of lft) -> tvalid FI M (assumptions_of rgt) ->
      (refutes_some FI M pbs <->
       (dir_forward (et_direction t) = true /\
        ext_stable_full t FI M L /\
        ~ exists N, pub_agree t N (reindex (task_mapping t) M) /\ ext_stable_full t FI N (et_program t)) \/
       (dir_backward (et_direction t) = true /\
        ext_stable_full t FI (reindex (task_mapping t) M) (et_program t) /\
        ~ exists N, pub_agree t N M /\ ext_stable_full t FI N L)).
Proof. exact C02_behaviour_proof. Qed.
Print Assumptions C02_behaviour.

(* soundness of countermodels, NO hypothesis on the interpretation: whatever refutes an emitted
   problem of an accepted task is an external stable model of one program whose public part no
   external stable model of the other program has - no spurious countermodels *)
Theorem C02_countermodel_sound :
  forall (fuel : nat) (t : ext_task) (L : program) w pbs lft rgt,
    et_specification t = inl L -> et_proof_outline t = [] ->
    external_decompose_full fuel t = XOk w pbs ->
    is_tight L = true -> is_tight (et_program t) = true ->
    task_left tau_star_total completion (simp_classic_total fuel) t L = Some lft ->
    task_right tau_star_total completion (simp_classic_total fuel) t = Some rgt ->
    (forall vt, task_validated tau_star_total completion (simp_classic_total fuel) t = Some vt -> validated_no_clash vt) ->
    forall (FI : fint) (M : pint),
      refutes_some FI M pbs ->
      (dir_forward (et_direction t) = true /\
       ext_stable_full t FI M L /\
       ~ exists N, pub_agree t N (reindex (task_mapping t) M) /\ ext_stable_full t FI N (et_program t)) \/
      (dir_backward (et_direction t) = true /\
       ext_stable_full t FI (reindex (task_mapping t) M) (et_program t) /\
       ~ exists N, pub_agree t N M /\ ext_stable_full t FI N L).
Proof. exact C02_countermodel_proof. Qed.
Print Assumptions C02_countermodel_sound.

(* ---------------- the converse: completeness of countermodels (audit A3) ----------------
   behavioural_difference t L FI T :=  T satisfies the user-guide assumptions and, for an enabled
     direction, T is an external stable model of one program while NO interpretation with T's public
     part is an external stable model of the other          (stated over the public part only)
   rename_faithful t L :=  the names under which the private predicates of the program occur in the
     problems (p_p when both sides have a private p, else p) are pairwise distinct and none of them
     is a predicate of the specification program or public   (decidable: rename_faithfulb; its
     failure is the class of finding F9 and its cross-side variant, C02_rename_unfaithful_witness)
   ug_over_inputs t    :=  the assumptions of the user guide mention input predicates only
                           (decidable: ug_over_inputsb)
   From a behavioural difference ONE interpretation M with T's public part is constructed that
   refutes an emitted problem: T on the specification side's vocabulary, the supported private
   extension of the other side (C02_private_extension_exists) under the renamed names. *)
Theorem C02_countermodel_complete :
  forall (fuel : nat) (t : ext_task) (L : program) w pbs lft rgt,
    et_specification t = inl L -> et_proof_outline t = [] ->
    external_decompose_full fuel t = XOk w pbs ->
    is_tight L = true -> is_tight (et_program t) = true ->
    task_left tau_star_total completion (simp_classic_total fuel) t L = Some lft ->
    task_right tau_star_total completion (simp_classic_total fuel) t = Some rgt ->
    (forall vt, task_validated tau_star_total completion (simp_classic_total fuel) t = Some vt -> validated_no_clash vt) ->
    rename_faithful t L -> ug_over_inputs t ->
    forall (FI : fint) (T : pint),
      behavioural_difference t L FI T -> exists M, pub_agree t M T /\ refutes_some FI M pbs.
Proof. exact countermodel_complete. Qed.
Print Assumptions C02_countermodel_complete.

(* C02, both directions, for program-vs-program tasks without proof outline, both tight, inside the
   four decidable classes: some interpretation refutes an emitted problem iff the programs differ in
   external behaviour.  Hence: every emitted problem is irrefutable in standard structures iff the
   claimed relation holds.  (Irrefutable = valid over the standard domain; the preamble and the
   symbol_order chain are outside `refutes_some`, they are C12's; "provable by the prover" implies
   irrefutable only through C06 + C12 at the TFF level.) *)
Theorem C02_external_equivalence :
  forall (fuel : nat) (t : ext_task) (L : program) w pbs lft rgt,
    et_specification t = inl L -> et_proof_outline t = [] ->
    external_decompose_full fuel t = XOk w pbs ->
    is_tight L = true -> is_tight (et_program t) = true ->
    task_left tau_star_total completion (simp_classic_total fuel) t L = Some lft ->
    task_right tau_star_total completion (simp_classic_total fuel) t = Some rgt ->
    (forall vt, task_validated tau_star_total completion (simp_classic_total fuel) t = Some vt -> validated_no_clash vt) ->
    rename_faithful t L -> ug_over_inputs t ->
    forall FI : fint,
      (exists M, refutes_some FI M pbs) <-> (exists T, behavioural_difference t L FI T).
Proof. exact external_equivalence_iff. Qed.
Print Assumptions C02_external_equivalence.

Theorem C02_rename_faithful_decidable :
  forall (t : ext_task) (L : program), rename_faithfulb t L = true -> rename_faithful t L.
Proof. exact rename_faithfulb_ok. Qed.
Print Assumptions C02_rename_faithful_decidable.

(* outside rename_faithful: finding F9 (the program has a private q and a private q_p, the
   specification program a private q) *)
Example C02_rename_unfaithful_witness : ~ rename_faithful t9 L8.
Proof. exact t9_not_faithful. Qed.

(* non-vacuity of C02_countermodel_complete / C02_external_equivalence: every premise discharged on
   t8 =  specification  q :- in.  out :- q.     program  q :- not in.  out :- q.
   input: in/0.  output: out/0.   (both sides have a private q/0: the program's is renamed q_p).
   Both sides of the equivalence are inhabited: M8 = {in, q, out} refutes forward_problem_0, and the
   behavioural difference obtained from it yields, through C02_countermodel_complete, a refuting
   interpretation with the same public part. *)
Example C02_external_equivalence_nonvacuous : forall FI : fint,
  et_specification t8 = inl L8 /\ et_proof_outline t8 = [] /\
  (external_decompose_full full_fuel t8 = XOk [] pbs8 /\ task_mapping t8 = [(mkpred "q" 0, "p")]) /\
  (is_tight L8 = true /\ is_tight (et_program t8) = true) /\
  task_left tau_star_total completion (simp_classic_total full_fuel) t8 L8 = Some lft8 /\
  task_right tau_star_total completion (simp_classic_total full_fuel) t8 = Some rgt8 /\
  (forall vt, task_validated tau_star_total completion (simp_classic_total full_fuel) t8 = Some vt -> validated_no_clash vt) /\
  rename_faithful t8 L8 /\ ug_over_inputs t8 /\
  refutes_some FI M8 pbs8 /\
  (exists T M, behavioural_difference t8 L8 FI T /\ pub_agree t8 M T /\ refutes_some FI M pbs8).
Proof.
  intros FI.
  split; [reflexivity|]. split; [reflexivity|]. split; [exact t8_accepted|]. split; [exact t8_tight|].
  split; [exact t8_left|]. split; [exact t8_right|]. split; [exact t8_no_clash|].
  split; [exact t8_rename_faithful|]. split; [exact t8_ug_over_inputs|].
  split; [exact (t8_refuted FI)|exact (t8_complete FI)].
Qed.

(* ---------------- declared output predicates missing from a program (audit A4, finding F17: repaired) ---------------- *)
(* an external stable model is empty on every public predicate that is neither an input nor the head
   of a rule - in particular on an output predicate that does not occur in the program *)
Theorem C02_missing_output_empty :
  forall (t : ext_task) (FI : fint) (N : pint) (P : program) (q : pred),
    ext_stable_full t FI N P ->
    (forall r, In r P -> head_pred (rhead r) <> Some q) -> ~ In q (task_inputs t) ->
    In q (ext_voc t P) ->
    forall d, List.length d = parity q -> ~ N (psym q) d.
Proof. exact ext_stable_nonhead_empty. Qed.
Print Assumptions C02_missing_output_empty.

Theorem C02_outputs_occur_decidable : forall t, outputs_occurb t = true <-> outputs_occur t.
Proof. exact outputs_occurb_spec. Qed.
Print Assumptions C02_outputs_occur_decidable.

(* the added formulas say exactly that: the empty completed definition of q is valid in M iff M is
   empty on q ... *)
Theorem C02_empty_definition_meaning :
  forall (FI : fint) (M : pint) (q : pred),
    cvalid FI M (empty_definition q) <-> forall d, List.length d = parity q -> ~ M (psym q) d.
Proof. exact empty_definition_valid. Qed.
Print Assumptions C02_empty_definition_meaning.

(* ... and they are added for exactly the declared output predicates that do not occur in the
   program (the code tests the completed theory; for an accepted task that is the same) and occur
   in the task (C02_missing_outputs_occur) *)
Theorem C02_missing_outputs_are_the_program's :
  forall (t : ext_task) (P : program) (G D : theory) (q : pred),
    c_io_disjoint t = true -> tau_star P = Some G ->
    completion (rp_theory (task_placeholders t) G) (task_inputs t) = Some D ->
    In q (ug_output_predicates (et_user_guide t)) ->
    (In q (theory_predicates D) <-> In q (program_preds P)).
Proof. exact output_in_completion_validated. Qed.
Print Assumptions C02_missing_outputs_are_the_program's.

Theorem C02_missing_outputs_occur :
  forall (outs occ : list pred) (D : theory) (f : formula),
    In f (missing_output_definitions outs occ D) ->
    exists q, f = empty_definition q /\ In q outs /\ In q occ /\ ~ In q (theory_predicates D).
Proof. exact missing_outputs_only_occurring. Qed.
Print Assumptions C02_missing_outputs_occur.

(* Regression for finding F17.  t17 =  specification  out :- in.  out2 :- in.   program  out :- in.
   input: in/0.  output: out/0.  output: out2/0.   --direction forward.
   The task is outside the former class (~ outputs_occur t17); M17 = {in, out, out2} is an external
   stable model of the specification program and NO interpretation with its public part is one of
   the program (the program never produces out2) - a forward behavioural difference.  Before
   /repo 70e6ace the single emitted problem was irrefutable (the theorem then called
   C02_missing_output_refuted showed `forall FI' M', ~ refutes_some FI' M' pbs17`): anthem reported
   the false forward claim as proved.  Now the program side carries `out2 <-> #false`, a second
   problem has it as conjecture, M17 refutes it, and - no class premise left - the behavioural
   difference follows from the refutation THROUGH C02_countermodel_sound. *)
Example C02_missing_output_regression : forall FI : fint,
  et_specification t17 = inl L17 /\ et_proof_outline t17 = [] /\
  (external_decompose_full full_fuel t17 = XOk [] pbs17 /\ List.length pbs17 = 2) /\
  (is_tight L17 = true /\ is_tight (et_program t17) = true) /\
  task_left tau_star_total completion (simp_classic_total full_fuel) t17 L17 = Some lft17 /\
  task_right tau_star_total completion (simp_classic_total full_fuel) t17 = Some rgt17 /\
  (forall vt, task_validated tau_star_total completion (simp_classic_total full_fuel) t17 = Some vt -> validated_no_clash vt) /\
  ~ outputs_occur t17 /\
  In (FBin CIff (FAtomic (AAtom "out2" [])) (FAtomic AFalse)) (map an_formula rgt17) /\
  dir_forward (et_direction t17) = true /\
  ext_stable_full t17 FI M17 L17 /\
  (~ exists N, pub_agree t17 N (reindex (task_mapping t17) M17) /\ ext_stable_full t17 FI N (et_program t17)) /\
  refutes_some FI M17 pbs17 /\
  ((dir_forward (et_direction t17) = true /\
    ext_stable_full t17 FI M17 L17 /\
    ~ exists N, pub_agree t17 N (reindex (task_mapping t17) M17) /\ ext_stable_full t17 FI N (et_program t17)) \/
   (dir_backward (et_direction t17) = true /\
    ext_stable_full t17 FI (reindex (task_mapping t17) M17) (et_program t17) /\
    ~ exists N, pub_agree t17 N M17 /\ ext_stable_full t17 FI N L17)).
Proof.
  intros FI.
  split; [reflexivity|]. split; [reflexivity|]. split; [exact t17_accepted|]. split; [exact t17_tight|].
  split; [exact t17_left|]. split; [exact t17_right|]. split; [exact t17_no_clash|].
  split; [exact t17_outputs_missing|]. split; [exact t17_right_has_empty_definition|].
  split; [reflexivity|]. split; [exact (t17_left_stable FI)|].
  split; [exact (t17_right_cannot FI)|]. split; [exact (t17_refuted FI)|exact (t17_behaviour_rhs FI)].
Qed.

(* ---------------- unused output predicates (/repo 18b2e85) ----------------
   unused_outputs_empty t M := M is empty on every declared output predicate that occurs on neither
                               side of the task
   ext_stable_public        := ext_stable_full with ext_voc_public (ALL public predicates in the
                               vocabulary: the definition of ext_stable_full before 18b2e85)
   behavioural_difference_public := behavioural_difference with ext_stable_public
   The theorems above hold for every interpretation M because ext_voc leaves the unused output
   predicates out.  With ext_voc_public they would be false for an M that is not empty on one of them
   (C02_unused_output_example: such an M refutes a problem and is a stable model of nothing in the
   public reading).  Nothing else distinguishes the two readings: *)
Theorem C02_vocabularies_coincide :
  forall (t : ext_task) (FI : fint) (M : pint) (P : program),
    unused_outputs_empty t M -> (ext_stable_public t FI M P <-> ext_stable_full t FI M P).
Proof. exact ext_stable_public_iff. Qed.
Print Assumptions C02_vocabularies_coincide.

(* an external stable model in the public reading is empty on the unused output predicates, hence
   one in the reading of ext_voc *)
Theorem C02_public_stable_unused_empty :
  forall (t : ext_task) (FI : fint) (M : pint) (P : program),
    c_io_disjoint t = true -> incl (program_preds P) (task_occurring_predicates t) ->
    ext_stable_public t FI M P -> unused_outputs_empty t M /\ ext_stable_full t FI M P.
Proof.
  intros t FI M P Hio HP Hst.
  exact (conj (ext_stable_public_unused t FI M P Hio HP Hst) (ext_stable_public_full t FI M P Hio HP Hst)).
Qed.
Print Assumptions C02_public_stable_unused_empty.

(* C02_countermodel_sound in the public reading: the one hypothesis on the interpretation *)
Theorem C02_countermodel_sound_public_vocabulary :
  forall (fuel : nat) (t : ext_task) (L : program) w pbs lft rgt,
    et_specification t = inl L -> et_proof_outline t = [] ->
    external_decompose_full fuel t = XOk w pbs ->
    is_tight L = true -> is_tight (et_program t) = true ->
    task_left tau_star_total completion (simp_classic_total fuel) t L = Some lft ->
    task_right tau_star_total completion (simp_classic_total fuel) t = Some rgt ->
    (forall vt, task_validated tau_star_total completion (simp_classic_total fuel) t = Some vt -> validated_no_clash vt) ->
    forall (FI : fint) (M : pint),
      unused_outputs_empty t M ->
      refutes_some FI M pbs ->
      (dir_forward (et_direction t) = true /\
       ext_stable_public t FI M L /\
       ~ exists N, pub_agree t N (reindex (task_mapping t) M) /\ ext_stable_public t FI N (et_program t)) \/
      (dir_backward (et_direction t) = true /\
       ext_stable_public t FI (reindex (task_mapping t) M) (et_program t) /\
       ~ exists N, pub_agree t N M /\ ext_stable_public t FI N L).
Proof. exact countermodel_sound_public. Qed.
Print Assumptions C02_countermodel_sound_public_vocabulary.

(* C02_countermodel_complete and C02_external_equivalence hold VERBATIM in the public reading *)
Theorem C02_countermodel_complete_public_vocabulary :
  forall (fuel : nat) (t : ext_task) (L : program) w pbs lft rgt,
    et_specification t = inl L -> et_proof_outline t = [] ->
    external_decompose_full fuel t = XOk w pbs ->
    is_tight L = true -> is_tight (et_program t) = true ->
    task_left tau_star_total completion (simp_classic_total fuel) t L = Some lft ->
    task_right tau_star_total completion (simp_classic_total fuel) t = Some rgt ->
    (forall vt, task_validated tau_star_total completion (simp_classic_total fuel) t = Some vt -> validated_no_clash vt) ->
    rename_faithful t L -> ug_over_inputs t ->
    forall (FI : fint) (T : pint),
      behavioural_difference_public t L FI T -> exists M, pub_agree t M T /\ refutes_some FI M pbs.
Proof. exact countermodel_complete_public. Qed.
Print Assumptions C02_countermodel_complete_public_vocabulary.

Theorem C02_external_equivalence_public_vocabulary :
  forall (fuel : nat) (t : ext_task) (L : program) w pbs lft rgt,
    et_specification t = inl L -> et_proof_outline t = [] ->
    external_decompose_full fuel t = XOk w pbs ->
    is_tight L = true -> is_tight (et_program t) = true ->
    task_left tau_star_total completion (simp_classic_total fuel) t L = Some lft ->
    task_right tau_star_total completion (simp_classic_total fuel) t = Some rgt ->
    (forall vt, task_validated tau_star_total completion (simp_classic_total fuel) t = Some vt -> validated_no_clash vt) ->
    rename_faithful t L -> ug_over_inputs t ->
    forall FI : fint,
      (exists M, refutes_some FI M pbs) <-> (exists T, behavioural_difference_public t L FI T).
Proof. exact external_equivalence_public. Qed.
Print Assumptions C02_external_equivalence_public_vocabulary.

(* t18 = t6 with the additional declaration  output: unused/2.  (occurs on neither side).
   anthem emits exactly the problems of t6 - no formula mentions unused/2 - and
   M18 = {in, q, out} + every atom unused(_,_) refutes forward_problem_0.  Every premise of
   C02_countermodel_sound is discharged; THROUGH it M18 is an external stable model of the
   specification program that the program cannot match.  In the public reading M18 is an external
   stable model of neither program: C02_countermodel_sound with ext_voc_public would be false. *)
Example C02_unused_output_example : forall FI : fint,
  et_specification t18 = inl L6 /\ et_proof_outline t18 = [] /\
  external_decompose_full full_fuel t18 = XOk [] pbs18 /\
  (pbs18 = pbs6 /\ lft18 = lft6 /\ rgt18 = rgt6) /\
  (is_tight L6 = true /\ is_tight (et_program t18) = true) /\
  task_left tau_star_total completion (simp_classic_total full_fuel) t18 L6 = Some lft18 /\
  task_right tau_star_total completion (simp_classic_total full_fuel) t18 = Some rgt18 /\
  (forall vt, task_validated tau_star_total completion (simp_classic_total full_fuel) t18 = Some vt -> validated_no_clash vt) /\
  (In (mkpred "unused" 2) (ug_output_predicates (et_user_guide t18)) /\
   ~ In (mkpred "unused" 2) (task_occurring_predicates t18) /\
   ~ In (mkpred "unused" 2) (ext_voc t18 L6) /\ ~ In (mkpred "unused" 2) (ext_voc t18 R6) /\
   In (mkpred "unused" 2) (ext_voc_public t18 L6)) /\
  ~ unused_outputs_empty t18 M18 /\
  refutes_some FI M18 pbs18 /\
  ((dir_forward (et_direction t18) = true /\
    ext_stable_full t18 FI M18 L6 /\
    ~ exists N, pub_agree t18 N (reindex (task_mapping t18) M18) /\ ext_stable_full t18 FI N (et_program t18)) \/
   (dir_backward (et_direction t18) = true /\
    ext_stable_full t18 FI (reindex (task_mapping t18) M18) (et_program t18) /\
    ~ exists N, pub_agree t18 N M18 /\ ext_stable_full t18 FI N L6)) /\
  ~ ext_stable_public t18 FI M18 L6 /\ ~ ext_stable_public t18 FI M18 (et_program t18).
Proof.
  intros FI.
  split; [reflexivity|]. split; [reflexivity|]. split; [exact t18_accepted|]. split; [exact t18_same_problems|].
  split; [exact t6_tight|]. split; [exact t18_left|]. split; [exact t18_right|]. split; [exact t18_no_clash|].
  split; [exact t18_unused|]. split; [exact t18_not_empty|]. split; [exact (t18_refuted FI)|].
  split; [exact (t18_behaviour_rhs FI)|].
  split; apply t18_public_not_stable.
  - exact (spec_program_occurring t18 L6 eq_refl).
  - exact (program_occurring t18).
Qed.

(* ---------------- non-vacuity of the headline theorems (audit A1) ----------------
   Every premise of C02_modulo_private_uniqueness / C02_behaviour / C02_countermodel_sound is
   discharged on one accepted task, computed in the model (Proofs/C02Witness.v):
   t6 =  specification  q :- in.  out :- q.     program  out :- not in.
   input: in/0.  output: out/0.  (q/0 private to the specification; universal direction; simplify on)
   M6 = {in, q, out}.  The left-hand side holds (M6 refutes forward_problem_0) and the right-hand
   side is obtained THROUGH the theorem. *)
Example C02_modulo_private_uniqueness_nonvacuous : forall FI : fint,
  et_specification t6 = inl L6 /\ et_proof_outline t6 = [] /\
  external_decompose_full full_fuel t6 = XOk [] pbs6 /\
  (is_tight L6 = true /\ is_tight (et_program t6) = true) /\
  task_left tau_star_total completion (simp_classic_total full_fuel) t6 L6 = Some lft6 /\
  task_right tau_star_total completion (simp_classic_total full_fuel) t6 = Some rgt6 /\
  (forall vt, task_validated tau_star_total completion (simp_classic_total full_fuel) t6 = Some vt -> validated_no_clash vt) /\
  tvalid FI M6 (map (fun a => rp_formula (task_placeholders t6) (an_formula a)) (filter is_assumption (ug_formulas (et_user_guide t6)))) /\
  tvalid FI M6 (assumptions_of lft6) /\ tvalid FI M6 (assumptions_of rgt6) /\
  refutes_some FI M6 pbs6 /\
  ((dir_forward (et_direction t6) = true /\
    ext_stable_full t6 FI M6 L6 /\ ~ ext_stable_full t6 FI (reindex (task_mapping t6) M6) (et_program t6)) \/
   (dir_backward (et_direction t6) = true /\
    ext_stable_full t6 FI (reindex (task_mapping t6) M6) (et_program t6) /\ ~ ext_stable_full t6 FI M6 L6)).
Proof.
  intros FI.
  split; [reflexivity|]. split; [reflexivity|]. split; [exact t6_accepted|]. split; [exact t6_tight|].
  split; [exact t6_left|]. split; [exact t6_right|]. split; [exact t6_no_clash|].
  split; [exact (t6_ug FI M6)|]. split; [exact (t6_assumptions_left FI)|]. split; [exact (t6_assumptions_right FI M6)|].
  split; [exact (t6_refuted FI)|exact (t6_full_rhs FI)].
Qed.

Example C02_behaviour_nonvacuous : forall FI : fint,
  et_specification t6 = inl L6 /\ et_proof_outline t6 = [] /\
  external_decompose_full full_fuel t6 = XOk [] pbs6 /\
  (is_tight L6 = true /\ is_tight (et_program t6) = true) /\
  task_left tau_star_total completion (simp_classic_total full_fuel) t6 L6 = Some lft6 /\
  task_right tau_star_total completion (simp_classic_total full_fuel) t6 = Some rgt6 /\
  (forall vt, task_validated tau_star_total completion (simp_classic_total full_fuel) t6 = Some vt -> validated_no_clash vt) /\
  tvalid FI M6 (map (fun a => rp_formula (task_placeholders t6) (an_formula a)) (filter is_assumption (ug_formulas (et_user_guide t6)))) /\
  tvalid FI M6 (assumptions_of lft6) /\ tvalid FI M6 (assumptions_of rgt6) /\
  refutes_some FI M6 pbs6 /\
  ((dir_forward (et_direction t6) = true /\
    ext_stable_full t6 FI M6 L6 /\
    ~ exists N, pub_agree t6 N (reindex (task_mapping t6) M6) /\ ext_stable_full t6 FI N (et_program t6)) \/
   (dir_backward (et_direction t6) = true /\
    ext_stable_full t6 FI (reindex (task_mapping t6) M6) (et_program t6) /\
    ~ exists N, pub_agree t6 N M6 /\ ext_stable_full t6 FI N L6)).
Proof.
  intros FI.
  split; [reflexivity|]. split; [reflexivity|]. split; [exact t6_accepted|]. split; [exact t6_tight|].
  split; [exact t6_left|]. split; [exact t6_right|]. split; [exact t6_no_clash|].
  split; [exact (t6_ug FI M6)|]. split; [exact (t6_assumptions_left FI)|]. split; [exact (t6_assumptions_right FI M6)|].
  split; [exact (t6_refuted FI)|exact (t6_behaviour_rhs FI)].
Qed.

(* C02_countermodel_sound has no hypothesis on the interpretation: premises and a refuting M6 *)
Example C02_countermodel_sound_nonvacuous : forall FI : fint,
  et_specification t6 = inl L6 /\ et_proof_outline t6 = [] /\
  external_decompose_full full_fuel t6 = XOk [] pbs6 /\
  (is_tight L6 = true /\ is_tight (et_program t6) = true) /\
  task_left tau_star_total completion (simp_classic_total full_fuel) t6 L6 = Some lft6 /\
  task_right tau_star_total completion (simp_classic_total full_fuel) t6 = Some rgt6 /\
  (forall vt, task_validated tau_star_total completion (simp_classic_total full_fuel) t6 = Some vt -> validated_no_clash vt) /\
  refutes_some FI M6 pbs6.
Proof.
  intros FI.
  split; [reflexivity|]. split; [reflexivity|]. split; [exact t6_accepted|]. split; [exact t6_tight|].
  split; [exact t6_left|]. split; [exact t6_right|]. split; [exact t6_no_clash|].
  exact (t6_refuted FI).
Qed.

(* ---------------- non-vacuity: an accepted task, computed entirely in the model ---------------- *)
Definition av (x : string) : term := TVar x.
Definition pl (p x : string) : bformula := BLit (mklit SNone (mkatom p [av x])).
(* specification  q(X) :- in(X).  out(X) :- q(X).      program  out(X) :- in(X).
   input: in/1.  output: out/1.  (q/1 is private to the specification) *)
Definition L5 : program :=
  [ mkrule (HBasic (mkatom "q" [av "X"])) [pl "in" "X"]; mkrule (HBasic (mkatom "out" [av "X"])) [pl "q" "X"] ].
Definition R5 : program := [ mkrule (HBasic (mkatom "out" [av "X"])) [pl "in" "X"] ].
Definition t5 : ext_task :=
  mkext (inl L5) R5 [UGInput (mkpred "in" 1); UGOutput (mkpred "out" 1)] [] DIndependent DUniversal ReprTauStar false true false.

Example C02_full_instance :
  exists pbs lft rgt,
    external_decompose_full full_fuel t5 = XOk [] pbs /\ List.length pbs = 2 /\
    task_left tau_star_total completion (simp_classic_total full_fuel) t5 L5 = Some lft /\
    task_right tau_star_total completion (simp_classic_total full_fuel) t5 = Some rgt /\
    List.length (assumptions_of lft) = 1 /\ assumptions_of rgt = [] /\
    is_tight L5 = true /\ is_tight R5 = true.
Proof.
  eexists _, _, _. split; [vm_compute; reflexivity|]. split; [reflexivity|].
  split; [vm_compute; reflexivity|]. split; [vm_compute; reflexivity|].
  split; [reflexivity|]. split; [reflexivity|]. split; vm_compute; reflexivity.
Qed.

(* the clash premise holds for t5 as well (the premise the audit showed to be unsatisfiable in its
   earlier `forall uga` form); t5 is inside the former class outputs_occur *)
Example C02_t5_premises :
  (forall vt, task_validated tau_star_total completion (simp_classic_total full_fuel) t5 = Some vt -> validated_no_clash vt) /\
  outputs_occur t5.
Proof.
  split; [apply NoClashDec.task_no_clashb_spec; vm_compute; reflexivity|apply outputs_occurb_spec; vm_compute; reflexivity].
Qed.

(* the overflow panic of tau* (F11) is an outcome of the full model, not an accepted task *)
Example C02_full_panic :
  external_decompose_full full_fuel
    (mkext (inl L5) [ mkrule (HBasic (mkatom "out" [av "V18446744073709551615"])) [pl "in" "V18446744073709551615"] ]
           [UGInput (mkpred "in" 1); UGOutput (mkpred "out" 1)] [] DIndependent DUniversal ReprTauStar false true false)
  = XPanic.
Proof. vm_compute. reflexivity. Qed.
