(* C07, classic half — every rewrite of the classic simplification portfolio
   (/repo/src/simplifying/fol/sigma_0/classic.rs: CLASSIC) returns a formula with the same truth
   value as its input in every classical interpretation, placeholder interpretation and variable
   assignment over the infinite standard domain, and has no free variable its input did not have;
   the same holds for the list under the three strategies (shallow / recursive / fixpoint).
   Statements only; proofs live in Proofs/SimplClassicOk.v, StrategyClsOk.v, SimplClassicTotal.v.

   The rules substitute_defined_variables, restrict_quantifier_domain and
   simplify_transitive_equality call Formula::substitute.  Their proofs (Proofs/SimplClassicOk.v)
   are parametric in three facts about it (semantics, free variables, totality); the theorems
   named [..._modulo_subst] state them with these facts as explicit premises, and the theorems
   without the suffix are the same statements with the premises discharged by the C17 theorems
   substitute_sem / substitute_fv / substitute_total (Proofs/SubstOk.v, Proofs/SimplClassicClosed.v). *)
From Coq Require Import List String ZArith.
Import ListNotations.
From Anthem Require Import Syntax.Fol Sem.Domain Sem.Sat Model.Apply Model.Subst
  Model.SimplClassic Model.StrategyCls
  Proofs.SimplClassicOk Proofs.StrategyClsOk Proofs.SimplClassicTotal Proofs.SimplClassicClosed.
Open Scope string_scope.

(* ---- the three facts about Formula::substitute (C17) ---- *)
Definition subst_sem_stmt : Prop :=
  forall F x t G, sort_ok x t = true -> substitute F x t = Some G ->
  forall FI I e, csat FI I e G <-> csat FI I (upd e x (ev_g FI e t)) F.
Definition subst_fv_stmt : Prop :=
  forall F x t G w, sort_ok x t = true -> substitute F x t = Some G ->
  In w (free_variables G) -> (In w (free_variables F) /\ w <> x) \/ In w (gterm_vars t).
Definition subst_total_stmt : Prop :=
  forall F x t, sort_ok x t = true -> exists G, substitute F x t = Some G.

(* ---- the property of one rewrite ---- *)
Definition preserves (r : formula -> formula) : Prop :=
  forall F : formula,
    (forall (FI : fint) (I : pint) (e : env), csat FI I e (r F) <-> csat FI I e F)
    /\ incl (free_variables (r F)) (free_variables F).

(* ---- rules that do not substitute: closed (up to excluded middle) ---- *)
Theorem C07_cls_remove_double_negation : preserves remove_double_negation.
Proof. exact remove_double_negation_ok. Qed.
Print Assumptions C07_cls_remove_double_negation.

Theorem C07_cls_extend_quantifier_scope : preserves extend_quantifier_scope.
Proof. exact extend_quantifier_scope_ok. Qed.
Print Assumptions C07_cls_extend_quantifier_scope.

(* ---- rules that substitute: closed ---- *)
Theorem C07_cls_substitute_defined_variables : preserves substitute_defined_variables.
Proof. exact substitute_defined_variables_closed. Qed.
Print Assumptions C07_cls_substitute_defined_variables.

Theorem C07_cls_restrict_quantifier_domain : preserves restrict_quantifier_domain.
Proof. exact restrict_quantifier_domain_closed. Qed.
Print Assumptions C07_cls_restrict_quantifier_domain.

Theorem C07_cls_simplify_transitive_equality : preserves simplify_transitive_equality.
Proof. exact simplify_transitive_equality_closed. Qed.
Print Assumptions C07_cls_simplify_transitive_equality.

(* ---- the list, and the list under a strategy: closed ---- *)
Theorem C07_cls : forall r, In r CLASSIC -> preserves r.
Proof. exact CLASSIC_closed. Qed.
Print Assumptions C07_cls.

Theorem C07_cls_strategies :
  forall (fuel : nat) (s : strategy) (F G : formula),
    run_strategy fuel CLASSIC s F = Some G ->
    (forall (FI : fint) (I : pint) (e : env), csat FI I e G <-> csat FI I e F)
    /\ incl (free_variables G) (free_variables F).
Proof. exact run_classic_closed. Qed.
Print Assumptions C07_cls_strategies.

(* ---- the same with the facts about Formula::substitute as premises ---- *)
Theorem C07_cls_substitute_defined_variables_modulo_subst :
  subst_sem_stmt -> subst_fv_stmt -> preserves substitute_defined_variables.
Proof. exact substitute_defined_variables_ok. Qed.
Print Assumptions C07_cls_substitute_defined_variables_modulo_subst.

Theorem C07_cls_restrict_quantifier_domain_modulo_subst :
  subst_sem_stmt -> subst_fv_stmt -> preserves restrict_quantifier_domain.
Proof. exact restrict_quantifier_domain_ok. Qed.
Print Assumptions C07_cls_restrict_quantifier_domain_modulo_subst.

Theorem C07_cls_simplify_transitive_equality_modulo_subst :
  subst_sem_stmt -> subst_fv_stmt -> preserves simplify_transitive_equality.
Proof. exact simplify_transitive_equality_ok. Qed.
Print Assumptions C07_cls_simplify_transitive_equality_modulo_subst.

(* ---- the list, and the list under a strategy ---- *)
Theorem C07_cls_modulo_subst :
  subst_sem_stmt -> subst_fv_stmt -> forall r, In r CLASSIC -> preserves r.
Proof. exact CLASSIC_ok. Qed.
Print Assumptions C07_cls_modulo_subst.

Theorem C07_cls_strategies_modulo_subst :
  subst_sem_stmt -> subst_fv_stmt ->
  forall (fuel : nat) (s : strategy) (F G : formula),
    run_strategy fuel CLASSIC s F = Some G ->
    (forall (FI : fint) (I : pint) (e : env), csat FI I e G <-> csat FI I e F)
    /\ incl (free_variables G) (free_variables F).
Proof.
  exact (fun hs hf fuel s F G => run_strategy_ok fuel CLASSIC s F G (CLASSIC_ok hs hf)).
Qed.
Print Assumptions C07_cls_strategies_modulo_subst.

(* the generic part: any list of meaning-preserving rewrites under any strategy *)
Theorem C07_cls_strategy_generic :
  forall (fuel : nat) (portfolio : list (formula -> formula)) (s : strategy) (F G : formula),
    (forall r, In r portfolio -> preserves r) ->
    run_strategy fuel portfolio s F = Some G ->
    (forall (FI : fint) (I : pint) (e : env), csat FI I e G <-> csat FI I e F)
    /\ incl (free_variables G) (free_variables F).
Proof. exact run_strategy_ok. Qed.
Print Assumptions C07_cls_strategy_generic.

(* ---- panics.  The correspondence check runs the panic-aware functions ([_opt], [None] = panic;
   [run_strategy_opt]); whenever they return a formula it is the value of the total functions the
   theorems above are about ... ---- *)
Theorem C07_cls_runner_refines :
  forall (fuel : nat) (s : strategy) (F G : formula),
    run_strategy_opt fuel CLASSIC_opt s F = RDone G -> run_strategy fuel CLASSIC s F = Some G.
Proof. exact run_classic_opt_refines. Qed.
Print Assumptions C07_cls_runner_refines.

(* ... and they never panic on trees the parser can produce: every comparison has a guard, every
   bound variable has a non-empty name *)
Theorem C07_cls_no_panic_substitute_defined_variables_modulo_subst :
  subst_total_stmt -> forall F, exists G, substitute_defined_variables_opt F = Some G.
Proof. exact substitute_defined_variables_total. Qed.
Print Assumptions C07_cls_no_panic_substitute_defined_variables_modulo_subst.

Theorem C07_cls_no_panic_restrict_quantifier_domain_modulo_subst :
  subst_total_stmt -> forall F, guards_ok F -> names_ok F ->
  exists G, restrict_quantifier_domain_opt F = Some G.
Proof. exact restrict_quantifier_domain_total. Qed.
Print Assumptions C07_cls_no_panic_restrict_quantifier_domain_modulo_subst.

Theorem C07_cls_no_panic_simplify_transitive_equality_modulo_subst :
  subst_total_stmt -> forall F, guards_ok F -> exists G, simplify_transitive_equality_opt F = Some G.
Proof. exact simplify_transitive_equality_total. Qed.
Print Assumptions C07_cls_no_panic_simplify_transitive_equality_modulo_subst.

(* closed forms *)
Theorem C07_cls_no_panic_substitute_defined_variables :
  forall F, exists G, substitute_defined_variables_opt F = Some G.
Proof. exact substitute_defined_variables_no_panic. Qed.
Print Assumptions C07_cls_no_panic_substitute_defined_variables.
Theorem C07_cls_no_panic_restrict_quantifier_domain :
  forall F, guards_ok F -> names_ok F -> exists G, restrict_quantifier_domain_opt F = Some G.
Proof. exact restrict_quantifier_domain_no_panic. Qed.
Print Assumptions C07_cls_no_panic_restrict_quantifier_domain.
Theorem C07_cls_no_panic_simplify_transitive_equality :
  forall F, guards_ok F -> exists G, simplify_transitive_equality_opt F = Some G.
Proof. exact simplify_transitive_equality_no_panic. Qed.
Print Assumptions C07_cls_no_panic_simplify_transitive_equality.

(* ---- non-vacuity: each rule fires on a concrete formula (vm_compute of the model) ---- *)
Definition gv (x : string) : gterm := GVar x.
Definition iv (x : string) : gterm := GInt (IVar x).
Definition num (z : Z) : gterm := GInt (INum z).
Definition atom (p : string) (ts : list gterm) : formula := FAtomic (AAtom p ts).
Definition eqn (l r : gterm) : formula := FAtomic (ACmp l [mkguard REq r]).
Definition G_ (x : string) := mkvar x SGeneral.
Definition I_ (x : string) := mkvar x SInteger.

(* not not p  =>  p *)
Example C07_cls_fires_remove_double_negation :
  remove_double_negation (FNot (FNot (atom "p" []))) = atom "p" [].
Proof. vm_compute. reflexivity. Qed.

(* exists X$i (X$i = 1 and p(X$i))  =>  exists X$i (1 = 1 and p(1)) *)
Example C07_cls_fires_substitute_defined_variables :
  substitute_defined_variables (FQ QExists [I_ "X"] (FBin CAnd (eqn (iv "X") (num 1)) (atom "p" [iv "X"])))
  = FQ QExists [I_ "X"] (FBin CAnd (eqn (num 1) (num 1)) (atom "p" [num 1])).
Proof. vm_compute. reflexivity. Qed.

(* exists Z (exists I$i (I$i = Z and q(I$i)) and p(Z))
   =>  exists I1$i (exists I$i (I$i = I1$i and q(I$i)) and p(I1$i)) *)
Example C07_cls_fires_restrict_quantifier_domain_exists :
  restrict_quantifier_domain
    (FQ QExists [G_ "Z"]
       (FBin CAnd (FQ QExists [I_ "I"] (FBin CAnd (eqn (iv "I") (gv "Z")) (atom "q" [iv "I"])))
                  (atom "p" [gv "Z"])))
  = FQ QExists [I_ "I1"]
       (FBin CAnd (FQ QExists [I_ "I"] (FBin CAnd (eqn (iv "I") (iv "I1")) (atom "q" [iv "I"])))
                  (atom "p" [iv "I1"])).
Proof. vm_compute. reflexivity. Qed.

(* forall X Y (exists Z I$i (p(X) and p(Z) and Y = I$i) -> q(X))
   =>  forall X I1$i (exists Z I$i (p(X) and p(Z) and I1$i = I$i) -> q(X))      (unit test of /repo) *)
Example C07_cls_fires_restrict_quantifier_domain_forall :
  restrict_quantifier_domain
    (FQ QForall [G_ "X"; G_ "Y"]
       (FBin CImp (FQ QExists [G_ "Z"; I_ "I"]
                     (FBin CAnd (FBin CAnd (atom "p" [gv "X"]) (atom "p" [gv "Z"])) (eqn (gv "Y") (iv "I"))))
                  (atom "q" [gv "X"])))
  = FQ QForall [G_ "X"; I_ "I1"]
       (FBin CImp (FQ QExists [G_ "Z"; I_ "I"]
                     (FBin CAnd (FBin CAnd (atom "p" [gv "X"]) (atom "p" [gv "Z"])) (eqn (iv "I1") (iv "I"))))
                  (atom "q" [gv "X"])).
Proof. vm_compute. reflexivity. Qed.

(* exists X (q(X)) and p(Z)  =>  exists X (q(X) and p(Z)) *)
Example C07_cls_fires_extend_quantifier_scope :
  extend_quantifier_scope (FBin CAnd (FQ QExists [G_ "X"] (atom "q" [gv "X"])) (atom "p" [gv "Z"]))
  = FQ QExists [G_ "X"] (FBin CAnd (atom "q" [gv "X"]) (atom "p" [gv "Z"])).
Proof. vm_compute. reflexivity. Qed.

(* exists X Y (X = 5 and Y = 5 and p(X,Y))  =>  exists X Y (X = 5 and p(X,X)) *)
Example C07_cls_fires_simplify_transitive_equality :
  simplify_transitive_equality
    (FQ QExists [G_ "X"; G_ "Y"]
       (FBin CAnd (FBin CAnd (eqn (gv "X") (num 5)) (eqn (gv "Y") (num 5))) (atom "p" [gv "X"; gv "Y"])))
  = FQ QExists [G_ "X"; G_ "Y"] (FBin CAnd (eqn (gv "X") (num 5)) (atom "p" [gv "X"; gv "X"])).
Proof. vm_compute. reflexivity. Qed.

(* the two repaired findings: the rules no longer fire on the old witnesses (regression) *)
(* F4: exists Z (exists I$i Z (I$i = Z and q(Z)) and p(Z)) *)
Example C07_cls_F4_fixed :
  let F := FQ QExists [G_ "Z"]
             (FBin CAnd (FQ QExists [I_ "I"; G_ "Z"] (FBin CAnd (eqn (iv "I") (gv "Z")) (atom "q" [gv "Z"])))
                        (atom "p" [gv "Z"])) in
  restrict_quantifier_domain F = F.
Proof. vm_compute. reflexivity. Qed.
(* F5: exists X$i ((X$i = X$i + 1 and p(X$i)) and X$i = X$i + 1) *)
Example C07_cls_F5_fixed :
  let e := eqn (iv "X") (GInt (IBin BAdd (IVar "X") (INum 1))) in
  let F := FQ QExists [I_ "X"] (FBin CAnd (FBin CAnd e (atom "p" [iv "X"])) e) in
  simplify_transitive_equality F = F.
Proof. vm_compute. reflexivity. Qed.
