(* C04 - Completion of a tight program's theory has exactly its stable models.
   Statements only; proofs live in Proofs/CompletionShape.v, CompletionOk.v, Fages.v, FagesBridge.v.
   Model: Model/Completion.v (completion.rs), Model/Tightness.v (tightness.rs). *)
From Coq Require Import List String ZArith.
Import ListNotations.
From Anthem Require Import Syntax.Fol Syntax.Asp Sem.Domain Sem.Sat Sem.AspRef
  Model.Completion Model.Tightness
  Proofs.EnvFacts Proofs.CompletionShape Proofs.CompletionOk Proofs.FagesBridge Proofs.FagesExample.
Open Scope string_scope.
Open Scope list_scope.

(* ---- vocabulary of the statements (definitions live in the Proofs files) ----
   strip f               = f without one leading universal block
   implication m F H     = m is  F -> H  or  H <- F
   definition_of f F p V = f closed, strip f is the implication of body F and head p(V), V distinct variables
   constraint_formula f  = f closed, strip f is an implication with head #false
   completable G         = every formula of G is a constraint formula or a definition, and any two
                           definitions of the same predicate (symbol, arity) have the same head variables
   defines G p F V       = some formula of G is a definition of p with body F and head variables V
   in_sorts V d          = the tuple d has the length of V and d_k belongs to the sort of V_k *)

(* Refusal is exact: completion succeeds (for whatever input set) exactly on completable theories. *)
Theorem C04_shape :
  forall (G : theory) (ins : list pred), (exists D, completion G ins = Some D) <-> completable G.
Proof. exact C04_shape_proof. Qed.
Print Assumptions C04_shape.

(* A theory that is not completable is refused (None), never silently mis-built. *)
Corollary C04_refusal :
  forall (G : theory) (ins : list pred), ~ completable G -> completion G ins = None.
Proof.
  intros G ins H. destruct (completion G ins) as [D|] eqn:E; auto.
  exfalso. apply H. apply (C04_shape G ins). eauto.
Qed.
Print Assumptions C04_refusal.

(* Every non-input predicate of the theory - including those never defined - receives exactly one
   completed definition; the rest of the output is the universal closure of the constraints. *)
Theorem C04_total_defs :
  forall (G : theory) (ins : list pred) (D : theory), completion G ins = Some D ->
  exists defs : list (hatom * list formula),
    D = map universal_closure (flat_map split_constraints G) ++ map complete_definition defs /\
    NoDup (map (fun e => hatom_pred (fst e)) defs) /\
    forall p, In p (map (fun e => hatom_pred (fst e)) defs) <-> In p (theory_predicates G) /\ ~ In p ins.
Proof. exact C04_total_defs_proof. Qed.
Print Assumptions C04_total_defs.

(* Clark's characterisation: an interpretation (standard domain, any placeholder interpretation)
   satisfies the completion iff it satisfies the constraints of the theory and, for every
   non-input predicate p of the theory and every argument tuple d (of the sorts of p's head
   variables; no condition when p has no definition), p(d) holds iff some definition
   F -> p(V) of the theory has a true body under an assignment with V := d. *)
Theorem C04_clark :
  forall (G : theory) (ins : list pred) (D : theory), completion G ins = Some D ->
  forall (FI : fint) (I : pint),
  (forall f, In f D -> cvalid FI I f) <->
  ((forall f, In f G -> constraint_formula f -> cvalid FI I f) /\
   forall p, In p (theory_predicates G) -> ~ In p ins ->
   forall d, List.length d = parity p -> (forall F V, defines G p F V -> in_sorts V d) ->
     (I (psym p) d <-> exists F V, defines G p F V /\ exists e, map (getv e) V = d /\ csat FI I e F)).
Proof. exact C04_clark_proof. Qed.
Print Assumptions C04_clark.

(* The full statement of the property, parameterised by the translation (tau* is modelled by
   another part of the development):  for every program the code reports tight, every input set
   disjoint from the head predicates, and every interpretation T over the vocabulary,
   T satisfies completion(tau*(P)) with the inputs left open  iff  T is a stable model
   (reference semantics Sem/AspRef.v) of P extended with T's own input facts. *)
Definition C04_fages_statement (tau_star : program -> theory) : Prop :=
  forall (P : program) (ins : list pred) (D : theory) (FI : fint) (T : pint),
    is_tight P = true ->
    (forall r h, In r P -> head_pred (rhead r) = Some h -> ~ In h ins) ->
    completion (tau_star P) ins = Some D ->
    (forall p d, T p d -> In (mkpred p (List.length d)) (program_preds P) \/ In (mkpred p (List.length d)) ins) ->
    ((forall f, In f D -> cvalid FI T f) <-> stable T P (input_facts T ins)).

(* The statement over ANY theory G that represents P rule by rule ([represents]: each formula is
   the constraint / definition of the corresponding rule, its body true at V := d exactly when a
   ground instance of the rule supports p(d); same vocabulary).  The bridge
   "tau_star P = Some G -> represents FI G P" about the tau* model is PROVED
   (Properties/C04full.v: C04_tau_star_represents), which closes C04_fages there; the name
   _partial is historical. *)
Theorem C04_fages_partial :
  forall (P : program) (G : theory) (ins : list pred) (D : theory) (FI : fint) (T : pint),
  represents FI G P ->
  is_tight P = true ->
  (forall r h, In r P -> head_pred (rhead r) = Some h -> ~ In h ins) ->
  completion G ins = Some D ->
  (forall p d, T p d -> In (mkpred p (List.length d)) (program_preds P) \/ In (mkpred p (List.length d)) ins) ->
  ((forall f, In f D -> cvalid FI T f) <-> stable T P (input_facts T ins)).
Proof. exact C04_fages_partial_proof. Qed.
Print Assumptions C04_fages_partial.

Theorem C04_fages_from_bridge :
  forall tau_star : program -> theory,
  (forall FI P, represents FI (tau_star P) P) -> C04_fages_statement tau_star.
Proof.
  intros ts Hb P ins D FI T Ht Hi Hc Hv. exact (C04_fages_partial P (ts P) ins D FI T (Hb FI P) Ht Hi Hc Hv).
Qed.
Print Assumptions C04_fages_from_bridge.

(* The hypothesis [represents] is satisfiable by a genuine tau*-theory: G2 is what the implementation
   prints for  P2 =  p(X) :- q(X).  :- p(1).  (Proofs/FagesExample.v), D2 its completion with input
   q/1; so for this program the full statement holds outright. *)
Theorem C04_represents_nonvacuous : forall FI : fint, represents FI G2 P2.
Proof. exact represents_G2. Qed.
Print Assumptions C04_represents_nonvacuous.
Theorem C04_fages_instance :
  forall (FI : fint) (T : pint),
  completion G2 [mkpred "q" 1] = Some D2 /\
  ((forall p d, T p d -> (p = "p" \/ p = "q") /\ List.length d = 1) ->
   ((forall f, In f D2 -> cvalid FI T f) <-> stable T P2 (input_facts T [mkpred "q" 1]))).
Proof. exact (fun FI T => conj completion_G2 (fages_instance FI T)). Qed.
Print Assumptions C04_fages_instance.

(* ---------------- non-vacuity ---------------- *)
Definition gv (x : string) : gterm := GVar x.
Definition eqc (a b : gterm) : formula := FAtomic (ACmp a [mkguard REq b]).
Definition at1 (p : string) (t : gterm) : formula := FAtomic (AAtom p [t]).
Definition vg (x : string) : var := mkvar x SGeneral.

(* tau* (as printed by `anthem translate --with tau-star`) of the program
     p(X) :- q(X), not r(X).    r(1).    :- p(2).                                              *)
Definition G3 : theory :=
  [ FQ QForall [vg "V1"; vg "X"]
      (FBin CImp
         (FBin CAnd (eqc (gv "V1") (gv "X"))
            (FBin CAnd (FQ QExists [vg "Z"] (FBin CAnd (eqc (gv "Z") (gv "X")) (at1 "q" (gv "Z"))))
                       (FQ QExists [vg "Z"] (FBin CAnd (eqc (gv "Z") (gv "X")) (FNot (at1 "r" (gv "Z")))))))
         (at1 "p" (gv "V1")));
    FQ QForall [vg "V1"]
      (FBin CImp (FBin CAnd (eqc (gv "V1") (GInt (INum 1))) (FAtomic ATrue)) (at1 "r" (gv "V1")));
    FBin CImp (FQ QExists [vg "Z"] (FBin CAnd (eqc (gv "Z") (GInt (INum 2))) (at1 "p" (gv "Z")))) (FAtomic AFalse) ].

(* with q/1 as input: the constraint, then  forall V1 (p(V1) <-> exists X (..))  and
   forall V1 (r(V1) <-> V1 = 1 and #true);  q is left open *)
Example C04_example_inputs :
  completion G3 [mkpred "q" 1] = Some
    [ FBin CImp (FQ QExists [vg "Z"] (FBin CAnd (eqc (gv "Z") (GInt (INum 2))) (at1 "p" (gv "Z")))) (FAtomic AFalse);
      FQ QForall [vg "V1"]
        (FBin CIff (at1 "p" (gv "V1"))
           (FQ QExists [vg "X"]
              (FBin CAnd (eqc (gv "V1") (gv "X"))
                 (FBin CAnd (FQ QExists [vg "Z"] (FBin CAnd (eqc (gv "Z") (gv "X")) (at1 "q" (gv "Z"))))
                            (FQ QExists [vg "Z"] (FBin CAnd (eqc (gv "Z") (gv "X")) (FNot (at1 "r" (gv "Z")))))))));
      FQ QForall [vg "V1"]
        (FBin CIff (at1 "r" (gv "V1")) (FBin CAnd (eqc (gv "V1") (GInt (INum 1))) (FAtomic ATrue))) ].
Proof. vm_compute. reflexivity. Qed.

(* without inputs the never-defined predicate q gets the empty definition  forall V1 (q(V1) <-> #false) *)
Example C04_example_empty_definition :
  exists D, completion G3 [] = Some D /\
            In (FQ QForall [vg "V1"] (FBin CIff (at1 "q" (gv "V1")) (FAtomic AFalse))) D /\ List.length D = 4.
Proof. eexists. split; [vm_compute; reflexivity|]. split; [cbn; auto 10|reflexivity]. Qed.

(* refused: repeated head argument; non-variable head argument; mismatched heads; free variable *)
Example C04_example_refusals :
  completion [FQ QForall [vg "X"] (FBin CImp (FAtomic ATrue) (FAtomic (AAtom "p" [gv "X"; gv "X"])))] [] = None /\
  completion [FBin CImp (FAtomic ATrue) (at1 "p" (GInt (INum 1)))] [] = None /\
  completion [FQ QForall [vg "X"] (FBin CImp (FAtomic ATrue) (at1 "p" (gv "X")));
              FQ QForall [vg "Y"] (FBin CImp (FAtomic ATrue) (at1 "p" (gv "Y")))] [] = None /\
  completion [FBin CImp (at1 "q" (gv "Y")) (FAtomic AFalse)] [] = None.
Proof. vm_compute. auto. Qed.
(* accepted although unusual: a head variable of sort integer (the completed definition then
   constrains p on integers only - the side condition [in_sorts] of C04_clark) *)
Example C04_example_sorted_head :
  completion [FQ QForall [mkvar "N" SInteger] (FBin CImp (FAtomic ATrue) (at1 "p" (GInt (IVar "N"))))] [] =
  Some [FQ QForall [mkvar "N" SInteger] (FBin CIff (at1 "p" (GInt (IVar "N"))) (FAtomic ATrue))].
Proof. vm_compute. reflexivity. Qed.
