(* C17 — substitution of a term for a variable never captures variables.
   Statements only; proofs live in Proofs/SubstOk.v (formulas), Proofs/SubstTerm.v (terms, atoms,
   fresh-name choice), Proofs/Coincidence.v (coincidence lemma, quantifier blocks).
   [substitute F x t : option formula] is the Gallina model of Formula::substitute
   (Model/Subst.v); None is the panic of GeneralTerm::substitute on a sort-incompatible term. *)
From Coq Require Import List String ZArith NArith Bool.
Import ListNotations.
From Anthem Require Import Base.Fresh Syntax.Fol Sem.Domain Sem.Sat Model.Subst
  Proofs.Coincidence Proofs.SubstTerm Proofs.SubstOk Proofs.SubstCompute.
Open Scope string_scope.

(* Coincidence: the truth value of a formula depends only on the values of its free variables
   (classical and here-and-there). *)
Theorem C17_coincidence :
  forall (FI : fint) (I : pint) (F : formula) (e1 e2 : env),
  (forall v, In v (free_variables F) -> getv e1 v = getv e2 v) ->
  (csat FI I e1 F <-> csat FI I e2 F).
Proof. exact coincidence. Qed.
Print Assumptions C17_coincidence.
Theorem C17_coincidence_ht :
  forall (FI : fint) (H T : pint) (F : formula) (e1 e2 : env),
  (forall v, In v (free_variables F) -> getv e1 v = getv e2 v) ->
  (hsat FI H T e1 F <-> hsat FI H T e2 F).
Proof. exact coincidence_ht. Qed.
Print Assumptions C17_coincidence_ht.

(* The fresh binder chosen by Variable::sequence(v).find(..): v's sort, outside the avoided set,
   and the first candidate  name1, name2, ...  with that property. *)
Theorem C17_pick_fresh : forall (v : var) (avoid : list var),
  ~ In (pick v avoid) avoid /\ vsort (pick v avoid) = vsort v /\
  exists k, (1 <= k)%N /\ pick v avoid = mkvar (vname v ++ nat_str k) (vsort v) /\
            forall j, (1 <= j < k)%N -> In (mkvar (vname v ++ nat_str j) (vsort v)) avoid.
Proof. intros v avoid. split; [apply pick_out|split; [apply pick_sort|apply pick_least]]. Qed.
Print Assumptions C17_pick_fresh.

(* No panic on sort-compatible terms; a panic implies a sort-incompatible term. *)
Theorem C17_total : forall (F : formula) (x : var) (t : gterm),
  sort_ok x t = true -> exists G, substitute F x t = Some G.
Proof. exact substitute_total. Qed.
Print Assumptions C17_total.
Theorem C17_panic_only_on_sort_mismatch : forall (F : formula) (x : var) (t : gterm),
  substitute F x t = None -> sort_ok x t = false.
Proof. exact substitute_panics_only_on_sort_mismatch. Qed.
Print Assumptions C17_panic_only_on_sort_mismatch.

(* Free variables of the result: those of F minus x, plus those of t when x was free in F
   (both inclusions). *)
Theorem C17_fv : forall (F : formula) (x : var) (t : gterm) (G : formula),
  sort_ok x t = true -> substitute F x t = Some G ->
  forall w, In w (free_variables G) <->
            (In w (free_variables F) /\ w <> x) \/ (In x (free_variables F) /\ In w (gterm_vars t)).
Proof. exact substitute_fv. Qed.
Print Assumptions C17_fv.

(* The substitution lemma, classical: in every interpretation of placeholders and predicates and
   every assignment over the infinite three-sorted standard domain, the result is true iff the
   original is true when x is assigned the value of t.  All formulas, including quantifier
   blocks that repeat a variable. *)
Theorem C17_sem : forall (F : formula) (x : var) (t : gterm) (G : formula),
  sort_ok x t = true -> substitute F x t = Some G ->
  forall (FI : fint) (I : pint) (e : env),
  csat FI I e G <-> csat FI I (upd e x (ev_g FI e t)) F.
Proof. exact substitute_sem. Qed.
Print Assumptions C17_sem.

(* The same in the here world of every HT interpretation (H,T) (no H subset-of T needed). *)
Theorem C17_sem_ht : forall (F : formula) (x : var) (t : gterm) (G : formula),
  sort_ok x t = true -> substitute F x t = Some G ->
  forall (FI : fint) (H T : pint) (e : env),
  hsat FI H T e G <-> hsat FI H T (upd e x (ev_g FI e t)) F.
Proof. exact substitute_sem_ht. Qed.
Print Assumptions C17_sem_ht.

(* x bound by the outermost block: the formula is returned unchanged (for every term). *)
Theorem C17_bound : forall (q : quant) (vs : list var) (f : formula) (x : var) (t : gterm),
  In x vs -> substitute (FQ q vs f) x t = Some (FQ q vs f).
Proof. exact substitute_bound. Qed.
Print Assumptions C17_bound.

(* Same name, other sort = another variable: a term / an atomic formula in which x itself does
   not occur is returned unchanged, whatever other-sorted variables of x's name it contains ... *)
Theorem C17_sort_term : forall (g : gterm) (x : var) (t : gterm) (g' : gterm),
  ~ In x (gterm_vars g) -> gsubst g x t = Some g' -> g' = g.
Proof. exact gsubst_id. Qed.
Print Assumptions C17_sort_term.
Theorem C17_sort_atomic : forall (a : aformula) (x : var) (t : gterm) (G : formula),
  ~ In x (aformula_vars a) -> substitute (FAtomic a) x t = Some G -> G = FAtomic a.
Proof. exact substitute_atomic_absent. Qed.
Print Assumptions C17_sort_atomic.
(* ... and in every formula such a variable y keeps its free occurrences and (in C17_sem) its value *)
Theorem C17_sort : forall (F : formula) (x : var) (t : gterm) (G : formula) (y : var),
  sort_ok x t = true -> substitute F x t = Some G ->
  vname y = vname x -> vsort y <> vsort x ->
  (In y (free_variables G) <->
   In y (free_variables F) \/ (In x (free_variables F) /\ In y (gterm_vars t))) /\
  (forall e d, getv (upd e x d) y = getv e y).
Proof. exact substitute_other_sort. Qed.
Print Assumptions C17_sort.

(* A later binding of the same variable wins (what makes `forall X X F` harmless). *)
Theorem C17_shadowed_binder : forall (FI : fint) (I : pint) (q : quant) (v : var) (vs : list var)
  (f : formula) (e : env), In v vs ->
  (csat FI I e (FQ q (v :: vs) f) <-> csat FI I e (FQ q vs f)).
Proof.
  intros FI I q v vs f e Hin.
  exact (qsat_shadowed q v vs (fun e' => csat FI I e' f) (csat_ext FI I f) Hin e).
Qed.
Print Assumptions C17_shadowed_binder.

(* ---------------- non-vacuity: what substitute returns ----------------
   [substitute] itself does not reduce inside Coq (var_dec rests on Qed-opaque stdlib lemmas);
   Proofs/SubstCompute.v proves it equal to a boolean mirror that does (substitute_b_eq). *)
Ltac eval_substitute := rewrite <- !substitute_b_eq; vm_compute.
Definition vg (n : string) := mkvar n SGeneral.
Definition vi (n : string) := mkvar n SInteger.
Definition atom (p : string) (ts : list gterm) := FAtomic (AAtom p ts).
Definition iv (n : string) := GInt (IVar n).

(* a binder reuses the substituted name: the bound occurrence is untouched *)
Example C17_ex_shadow :
  substitute (FBin CAnd (atom "p" [GVar "X"]) (FQ QForall [vg "X"] (atom "q" [GVar "X"])))
             (vg "X") (GVar "Y")
  = Some (FBin CAnd (atom "p" [GVar "Y"]) (FQ QForall [vg "X"] (atom "q" [GVar "X"]))).
Proof. eval_substitute. reflexivity. Qed.

(* a binder names a variable of the term: it is renamed, nothing is captured *)
Example C17_ex_rename :
  substitute (FQ QExists [vg "Y"] (atom "p" [GVar "X"; GVar "Y"])) (vg "X") (GVar "Y")
  = Some (FQ QExists [vg "Y1"] (atom "p" [GVar "Y"; GVar "Y1"])).
Proof. eval_substitute. reflexivity. Qed.

(* F6: two binders of one block must be renamed and the first candidates Y1..Y10 are taken by the
   term; the second binder may not reuse the first binder's fresh name Y11 *)
Definition big_term : gterm :=
  GInt (fold_left (fun acc n => IBin BAdd acc (IVar n))
          ["Y1"; "Y2"; "Y3"; "Y4"; "Y5"; "Y6"; "Y7"; "Y8"; "Y9"; "Y10"] (IVar "Y")).
Example C17_ex_two_binders :
  substitute (FQ QForall [vi "Y1"; vi "Y"] (atom "p" [iv "X"; iv "Y1"; iv "Y"])) (vi "X") big_term
  = Some (FQ QForall [vi "Y11"; vi "Y12"] (atom "p" [big_term; iv "Y11"; iv "Y12"])).
Proof. eval_substitute. reflexivity. Qed.

(* F6b: the first fresh candidate is the substituted variable itself (not free in the body) *)
Example C17_ex_candidate_is_var :
  substitute (FQ QForall [vg "Y"] (atom "p" [GVar "Y"])) (vg "Y1") (GVar "Y")
  = Some (FQ QForall [vg "Y2"] (atom "p" [GVar "Y2"])).
Proof. eval_substitute. reflexivity. Qed.

(* a block that repeats a variable: both copies are renamed apart, the body follows the first *)
Example C17_ex_repeated_binder :
  substitute (FQ QForall [vg "X"; vg "X"] (atom "p" [GVar "X"; GVar "Y"])) (vg "Y") (GVar "X")
  = Some (FQ QForall [vg "X1"; vg "X2"] (atom "p" [GVar "X1"; GVar "X"])).
Proof. eval_substitute. reflexivity. Qed.

(* same name, other sort: X$i is substituted, X (general) and X$s stay *)
Example C17_ex_sorts :
  substitute (atom "p" [GVar "X"; iv "X"; GSym (SVar "X")]) (vi "X") (GInt (INum 5))
  = Some (atom "p" [GVar "X"; GInt (INum 5); GSym (SVar "X")]).
Proof. eval_substitute. reflexivity. Qed.

(* the panic: a general term for an integer variable that occurs *)
Example C17_ex_panic :
  substitute (atom "p" [iv "X"]) (vi "X") (GVar "Y") = None /\ sort_ok (vi "X") (GVar "Y") = false.
Proof. eval_substitute. auto. Qed.

(* the hypotheses of C17_sem are satisfiable and the equivalence is not trivially true/false:
   with p = {(1,2)}, Y := 1:  (exists Y p(X,Y))[X := Y] holds although a capturing substitution
   (exists Y p(Y,Y)) would not *)
Example C17_sem_nonvacuous :
  let F := FQ QExists [vg "Y"] (atom "p" [GVar "X"; GVar "Y"]) in
  let I : pint := fun p a => p = "p" /\ a = [VNum 1; VNum 2] in
  let FI := mkfint (fun _ => VInf) (fun _ => 0%Z) (fun _ => "") in
  let e := mkenv (fun _ => VNum 1) (fun _ => 0%Z) (fun _ => "") in
  exists G, substitute F (vg "X") (GVar "Y") = Some G /\ csat FI I e G /\
            ~ csat FI I e (FQ QExists [vg "Y"] (atom "p" [GVar "Y"; GVar "Y"])).
Proof.
  cbv zeta. eexists. split; [eval_substitute; reflexivity|]. split.
  - exists (VNum 2). split; [exact I|]. cbn. auto.
  - intros [d [_ Hd]]. cbn in Hd. destruct Hd as [_ Hd]. inversion Hd; subst. discriminate.
Qed.
