(* `anthem verify` at the command line (audit finding B6): what `--save-problems` leaves on disk is
   the Display of the problems of the VERIFIED decompose functions on the task the flags describe.
   Statements only; proofs in Proofs/CliVerifyOk.v; the model is Model/CliVerify.v (a transcription
   of procedures.rs:174-255 and of the clap definition of the sub-command), tied to the real binary
   by the op `cli_verify` (props/CLIverify.py).

   Vocabulary (Proofs/CliVerifyOk.v):
     read : string -> option string            the text of the file at a path
     reads_as read parse path a                the role [path] is there, readable, and parses to [a]
     strong_task_described read c t            Files::sort returns Ok on the path arguments (Model/Files.v:
                                               no dangling link, no link to a containing directory) and
                                               t = StrongEquivalenceTask { left, right = the first /
                                               second program file in Files::sort order, parsed;
                                               decomposition, formula_representation, direction as
                                               given; simplify = not --no-simplify;
                                               break_equivalences = not --no-eq-break }
     external_task_described read c t          the same for ExternalEquivalenceTask (specification =
                                               the first .spec file, else the first program; program =
                                               the first resp. second program; first .ug; first .po or
                                               the empty outline; bypass_tightness as given)
     decomposes_to read fuel c w problems      the described task exists and the model of its
                                               decompose() ([strong_decompose_full_fuel] /
                                               [external_decompose_full]) returns [problems], warnings [w]
     saved_as dir problems writes              writes = [(<dir>/<name>.p, problem_display p) | p <- problems]
     flags_only c c'                           same equivalence, direction, representation,
                                               bypass-tightness and files: c and c' differ at most in
                                               --no-simplify, --no-eq-break, --decomposition *)
From Coq Require Import List Ascii String Bool.
From Anthem Require Import Syntax.Fol Syntax.Asp Sem.Domain Sem.Sat Model.Problem Model.Strong Model.External
  Model.StrongFull Model.ExternalFull Model.ProblemPrint Model.CliVerify
  Model.Tightness Model.PrivRec Model.Completion
  Proofs.DecomposeOk Proofs.StrongOk Proofs.StrongFullOk Proofs.ExternalOk Proofs.C19Ext Proofs.C19ExtFull
  Proofs.CliVerifyOk Gen.Preamble.
From Anthem Require Model.Files Model.Cli.
Import ListNotations.
Open Scope list_scope.
Open Scope string_scope.

(* ---------------- 1. the files on disk ---------------- *)
(* `anthem verify ..` exits with status 0 having written [writes] (and printed the warnings [w])
   EXACTLY when the task described by the flags and files exists (every role file present and
   accepted by its parser), its decompose() returns problems, and the files are, problem by problem
   and in this order, `<dir>/<problem name>.p` containing the Display of the problem.  Hence every
   theorem about [strong_decompose_full_fuel] (C03, C19_strong) and [external_decompose_full]
   (C02, C11, C13, C19_external) is a theorem about the files a user finds in <dir>. *)
Theorem CliVerify_saved_files :
  forall (read : string -> option string) (fuel : nat) (c : verify_command)
         (w : list ext_warning) (writes : list (string * string)),
    run_verify_fuel read fuel c = VExit0 w writes <->
    exists problems : list problem,
      decomposes_to read fuel c w problems /\ saved_as (v_save_problems c) problems writes.
Proof. exact run_verify_exit0_iff. Qed.
Print Assumptions CliVerify_saved_files.

(* [decomposes_to] spelled out *)
Theorem CliVerify_decomposes_to_meaning :
  forall read fuel c w problems,
    decomposes_to read fuel c w problems <->
    match v_equivalence c with
    | Strong => w = [] /\ exists t, strong_task_described read c t /\ strong_decompose_full_fuel fuel t = SOk problems
    | External => exists t, external_task_described read c t /\ external_decompose_full fuel t = XOk w problems
    end.
Proof. exact decomposes_to_meaning. Qed.
Print Assumptions CliVerify_decomposes_to_meaning.

(* the flag mapping, as it appears in the described task (definitional; the tie to the binary is the
   op cli_verify): the task built for a command line has simplify = not --no-simplify etc. *)
Theorem CliVerify_strong_task_flags :
  forall read c t, strong_task_described read c t ->
    st_simplify t = negb (v_no_simplify c) /\ st_break t = negb (v_no_eq_break c) /\
    st_decomposition t = v_decomposition c /\ st_direction t = v_direction c /\
    st_repr t = v_formula_representation c.
Proof. exact strong_task_flags. Qed.
Print Assumptions CliVerify_strong_task_flags.

Theorem CliVerify_external_task_flags :
  forall read c t, external_task_described read c t ->
    et_simplify t = negb (v_no_simplify c) /\ et_break t = negb (v_no_eq_break c) /\
    et_decomposition t = v_decomposition c /\ et_direction t = v_direction c /\
    et_repr t = v_formula_representation c /\ et_bypass_tightness t = v_bypass_tightness c.
Proof. exact external_task_flags. Qed.
Print Assumptions CliVerify_external_task_flags.

(* `Files::sort(files).context(..)?`: when the walk of the path arguments meets a dangling link or a
   link to a directory that contains it (symbolic links are followed since /repo 8bcb21d), the command
   ends with exit status 1 - nothing is read, nothing is written - whatever the other files are; and
   a described task exists only when the walk succeeds *)
Theorem CliVerify_sort_error :
  forall read fuel c e, Files.sort (v_files c) = Files.WErr e -> run_verify_fuel read fuel c = VError.
Proof. exact run_verify_sort_error. Qed.
Print Assumptions CliVerify_sort_error.
Theorem CliVerify_strong_task_sorted :
  forall read c t, strong_task_described read c t -> exists files, Files.sort (v_files c) = Files.WOk files.
Proof. exact strong_task_described_sorted. Qed.
Print Assumptions CliVerify_strong_task_sorted.
Theorem CliVerify_external_task_sorted :
  forall read c t, external_task_described read c t -> exists files, Files.sort (v_files c) = Files.WOk files.
Proof. exact external_task_described_sorted. Qed.
Print Assumptions CliVerify_external_task_sorted.

(* the described task is unique: file roles and parsing are deterministic *)
Theorem CliVerify_strong_task_unique :
  forall read c t t', strong_task_described read c t -> strong_task_described read c t' -> t = t'.
Proof. exact strong_task_described_fun. Qed.
Print Assumptions CliVerify_strong_task_unique.
Theorem CliVerify_external_task_unique :
  forall read c t t', external_task_described read c t -> external_task_described read c t' -> t = t'.
Proof. exact external_task_described_fun. Qed.
Print Assumptions CliVerify_external_task_unique.

(* options that may be absent: `#[default]` of the three value enums *)
Theorem CliVerify_defaults :
  forall a : verify_argv,
    v_decomposition (clap_parse a) = match a_decomposition a with Some d => d | None => DSequential end /\
    v_direction (clap_parse a) = match a_direction a with Some d => d | None => DUniversal end /\
    v_formula_representation (clap_parse a) = match a_formula_representation a with Some r => r | None => ReprTauStar end.
Proof. exact clap_parse_defaults. Qed.
Print Assumptions CliVerify_defaults.

(* writing the files never panics (Display of a problem is total, C09_display_total): a panic of
   `verify --no-proof-search` is a panic of a parser (F3a) or of decompose() (F11) *)
Theorem CliVerify_panic_not_from_saving :
  forall read fuel c, run_verify_fuel read fuel c = VPanic -> problems_of read fuel c = VStop VPanic.
Proof. exact run_verify_panic_inv. Qed.
Print Assumptions CliVerify_panic_not_from_saving.

(* the files do not depend on --no-proof-search *)
Theorem CliVerify_no_proof_search_irrelevant :
  forall read fuel c b,
    run_verify_fuel read fuel
      (mkverify (v_equivalence c) (v_decomposition c) (v_direction c) (v_formula_representation c)
                (v_bypass_tightness c) (v_no_simplify c) (v_no_eq_break c) b (v_save_problems c) (v_files c))
    = run_verify_fuel read fuel c.
Proof. exact run_verify_no_proof_search. Qed.
Print Assumptions CliVerify_no_proof_search_irrelevant.

(* the fuel of the classic fixpoint loops: [run_verify] is the instance at 64; an answer other than
   VOutOfFuel is the answer of every larger fuel *)
Theorem CliVerify_executable_instance :
  forall read c, run_verify read c = run_verify_fuel read 64 c.
Proof. exact run_verify_executable. Qed.
Print Assumptions CliVerify_executable_instance.
Theorem CliVerify_fuel_monotone :
  forall read n c r, run_verify_fuel read n c = r -> r <> VOutOfFuel ->
    forall m, n <= m -> run_verify_fuel read m c = r.
Proof. exact run_verify_fuel_mono. Qed.
Print Assumptions CliVerify_fuel_monotone.

(* ---------------- 2. C19 at the command line ---------------- *)
(* Two command lines over the same files that differ at most in --no-simplify, --no-eq-break and
   --decomposition, both accepted: the two families of files are the Display of two families of
   problems that are refuted by exactly the same interpretations (FI: placeholder values, M: predicate
   extents, infinite standard domain).  Premises as in C19_strong: no symbol of an emitted formula
   equals a 0-ary predicate of its problem (finding F8b outside). *)
Theorem CliVerify_C19_strong :
  forall (read : string -> option string) (fuel : nat) (c c' : verify_command) w writes w' writes',
    v_equivalence c = Strong -> flags_only c c' ->
    run_verify_fuel read fuel c = VExit0 w writes -> run_verify_fuel read fuel c' = VExit0 w' writes' ->
    (forall t, strong_task_described read c t -> no_symbol_pred_clash_full_fuel fuel t) ->
    (forall t, strong_task_described read c' t -> no_symbol_pred_clash_full_fuel fuel t) ->
    exists problems problems',
      saved_as (v_save_problems c) problems writes /\ saved_as (v_save_problems c') problems' writes' /\
      forall (FI : fint) (M : pint), refutes_some FI M problems <-> refutes_some FI M problems'.
Proof. exact cli_c19_strong. Qed.
Print Assumptions CliVerify_C19_strong.

(* external equivalence; premise as in C19_external ([validated_no_clash]) *)
Theorem CliVerify_C19_external :
  forall (read : string -> option string) (fuel : nat) (c c' : verify_command) w writes w' writes',
    v_equivalence c = External -> flags_only c c' ->
    run_verify_fuel read fuel c = VExit0 w writes -> run_verify_fuel read fuel c' = VExit0 w' writes' ->
    (forall t vt, external_task_described read c t ->
       task_validated tau_star_total completion (simp_classic_total fuel) t = Some vt -> validated_no_clash vt) ->
    (forall t vt, external_task_described read c' t ->
       task_validated tau_star_total completion (simp_classic_total fuel) t = Some vt -> validated_no_clash vt) ->
    exists problems problems',
      saved_as (v_save_problems c) problems writes /\ saved_as (v_save_problems c') problems' writes' /\
      forall (FI : fint) (M : pint), refutes_some FI M problems <-> refutes_some FI M problems'.
Proof. exact cli_c19_external. Qed.
Print Assumptions CliVerify_C19_external.

(* ---------------- 3. examples (vm_compute, exact bytes; the same cases are in corpus/cli_verify.txt,
   where the real binary must give the same files) ---------------- *)
Definition lf (s : string) : string := s ++ nl.
(* b.lp = `p :- not not q.`, a.lp = `p :- q.`: inside the directory `d` (walked in name order: a.lp is the
   left program) or as the two arguments `b.lp a.lp` (argument order: b.lp is the left program) *)
Definition ex_args (directory : bool) : list cnode :=
  let b := CFile "b.lp" (lf "p :- not not q.") in
  let a := CFile "a.lp" (lf "p :- q.") in
  if directory then [CDir "d" [b; a; CFile "notes.txt" "x"]] else [b; a].
(* anthem verify --equivalence strong --direction forward [--no-simplify] --no-proof-search --save-problems out .. *)
Definition ex_argv (no_simplify : bool) : verify_argv :=
  mkargv Strong None (Some DForward) None false no_simplify false true (Some "out") [].
Definition ex_head : string :=
  preamble_text ++ lf "tff(predicate_0, type, hp: $o)." ++ lf "tff(predicate_1, type, tp: $o)."
  ++ lf "tff(predicate_2, type, hq: $o)." ++ lf "tff(predicate_3, type, tq: $o)."
  ++ lf "tff(formula_0_transition_axiom_0, axiom, hp => tp)." ++ lf "tff(formula_1_transition_axiom_1, axiom, hq => tq).".

(* the default decomposition is sequential (one conjecture: `forward_0`), the files of the directory
   take their roles in name order, the formulas are simplified *)
Example CliVerify_example_directory :
  run_verify_tree (ex_argv false) (ex_args true) =
  VExit0 [] [("out/forward_0.p", ex_head ++ lf "tff(formula_2_left_0, axiom, (hq => hp) & (tq => tp))."
                                          ++ lf "tff(formula_3_right_0, conjecture, (tq => hp) & (tq => tp)).")].
Proof. vm_compute. reflexivity. Qed.
(* --no-simplify: the double negation stays *)
Example CliVerify_example_no_simplify :
  run_verify_tree (ex_argv true) (ex_args true) =
  VExit0 [] [("out/forward_0.p", ex_head ++ lf "tff(formula_2_left_0, axiom, (hq => hp) & (tq => tp))."
                                          ++ lf "tff(formula_3_right_0, conjecture, ((~(~tq)) => hp) & ((~(~tq)) => tp)).")].
Proof. vm_compute. reflexivity. Qed.
(* explicit files: the order of the ARGUMENTS decides *)
Example CliVerify_example_argument_order :
  run_verify_tree (ex_argv false) (ex_args false) =
  VExit0 [] [("out/forward_0.p", ex_head ++ lf "tff(formula_2_left_0, axiom, (tq => hp) & (tq => tp))."
                                          ++ lf "tff(formula_3_right_0, conjecture, (hq => hp) & (tq => tp)).")].
Proof. vm_compute. reflexivity. Qed.
(* no right program: `main` returns Err *)
Example CliVerify_example_missing_program :
  run_verify_tree (ex_argv false) [CFile "a.lp" (lf "p :- q.")] = VError.
Proof. vm_compute. reflexivity. Qed.
(* symbolic links (F23, /repo 8bcb21d): a link to a regular file plays the role its OWN name gives it
   and is read through; here `a.lp` is a link (to the text `p :- q.`), so it is the left program, as in
   CliVerify_example_directory *)
Example CliVerify_example_link_followed :
  run_verify_tree (ex_argv false)
    [CDir "d" [CFile "b.lp" (lf "p :- not not q."); CLink "a.lp" (CTFile (lf "p :- q.")); CLink "0.lp" CTSpecial]] =
  run_verify_tree (ex_argv false) (ex_args true).
Proof. vm_compute. reflexivity. Qed.
(* a dangling link among the arguments or below them: exit status 1, although both programs are there *)
Example CliVerify_example_dangling_link :
  run_verify_tree (ex_argv false) (ex_args false ++ [CLink "z.txt" CTDangling]) = VError /\
  run_verify_tree (ex_argv false) [CDir "d" [CFile "b.lp" (lf "p :- not not q."); CFile "a.lp" (lf "p :- q."); CLink "z" CTLoop]] = VError.
Proof. split; vm_compute; reflexivity. Qed.
(* --bypass-tightness reaches the task: a non-tight program is an error without it, a warning with it *)
Definition nt_args : list cnode :=
  [CFile "a.lp" (lf "p :- p."); CFile "b.lp" (lf "p."); CFile "u.ug" (lf "output: p/0.")].
Definition nt_argv (bypass : bool) : verify_argv := mkargv External None None None bypass false false true None [].
Example CliVerify_example_bypass_tightness :
  run_verify_tree (nt_argv false) nt_args = VError /\
  (* the warning carries the program that is not tight (the specification program `p :- p.` of a.lp) *)
  exists P, run_verify_tree (nt_argv true) nt_args = VExit0 [WNonTightProgram P] [] /\ List.length P = 1.
Proof. split; [vm_compute; reflexivity|]. eexists. split; vm_compute; reflexivity. Qed.

(* non-vacuity of CliVerify_C19_strong: the two command lines above that differ in --no-simplify are both
   accepted, write DIFFERENT files, satisfy the clash premise, and the two files are the Display of
   problem families refuted by the same interpretations *)
Example CliVerify_C19_strong_nonvacuous :
  exists problems problems' writes writes',
    run_verify_tree (ex_argv false) (ex_args true) = VExit0 [] writes /\
    run_verify_tree (ex_argv true) (ex_args true) = VExit0 [] writes' /\ writes <> writes' /\
    saved_as (Some "out") problems writes /\ saved_as (Some "out") problems' writes' /\
    forall (FI : fint) (M : pint), refutes_some FI M problems <-> refutes_some FI M problems'.
Proof.
  pose (read := lookup (file_system (ex_args true))).
  pose (c := clap_parse (with_files (ex_argv false) (ex_args true))).
  pose (c' := clap_parse (with_files (ex_argv true) (ex_args true))).
  assert (Hclash : forall c0, c0 = c \/ c0 = c' ->
            forall t, strong_task_described read c0 t -> no_symbol_pred_clash_full_fuel 64 t).
  { intros c0 Hc t Ht. apply strong_task_from_files_got in Ht.
    destruct Hc as [-> | ->]; vm_compute in Ht; injection Ht as <-;
      apply no_symbol_pred_clash_fullb_fuel_ok; vm_compute; reflexivity. }
  destruct (CliVerify_C19_strong read 64 c c' _ _ _ _ eq_refl ltac:(repeat split)
              CliVerify_example_directory CliVerify_example_no_simplify
              (Hclash c (or_introl eq_refl)) (Hclash c' (or_intror eq_refl))) as [pbs [pbs' [Hs [Hs' Hr]]]].
  do 4 eexists. split; [exact CliVerify_example_directory|]. split; [exact CliVerify_example_no_simplify|].
  split; [|split; [exact Hs|split; [exact Hs'|exact Hr]]].
  vm_compute. intros H. discriminate H.
Qed.
