(* C16 — any input text leads to a result or a reported error, never a crash (PARTIAL).
   Statements only.  This file collects the panic-freedom statements that exist about the model so
   far, and pins each KNOWN crash of the implementation to a decidable class of inputs:
     F3a  a numeral / arity token whose value does not fit isize / usize     (parse time)
     F11  a variable V<n> of the program with n + i > usize::MAX             (tau-star, debug build)
   (F3b, the numeral isize::MIN rendered to TPTP in a debug build, is repaired in /repo: the
   rendering of numerals is now total, C16_tptp_numeral_total.)
   Outside the model (exercised only by the malformed-input stream of props/C16.py): the pest
   engine and grammar, clap, I/O, stack depth, termination.
   After the merge with branch `subst`: C17_total and C17_panic_only_on_sort_mismatch (Proofs/
   SubstOk.v) are the statements "substitute never panics on sort-compatible input"; they are not
   restated here because Proofs/SubstOk.v is not on this branch (see docs/C16.md). *)
From Coq Require Import List Ascii String ZArith NArith.
From Anthem Require Import Base.Fresh Model.Limits Proofs.LimitsOk Model.Prover Proofs.ProverOk.
Open Scope string_scope.

(* fresh-name searches (`while taken.contains(..)`, `find(..).unwrap()`) never run out: with fuel
   |taken| the search returns a name *)
Theorem C16_fresh_total : forall (variant : string) (taken : list string) (m : N),
  exists c, find_fresh (List.length taken) variant taken m = Some c.
Proof. exact find_fresh_total. Qed.
Print Assumptions C16_fresh_total.

(* reading the prover's output is total: one of the three answers for every byte string *)
Theorem C16_status_total : forall s : string,
  (exists st, status_of_stdout s = SOk st) \/ status_of_stdout s = SMissing \/
  (exists w, status_of_stdout s = SUnknown w).
Proof. exact status_of_stdout_total. Qed.
Print Assumptions C16_status_total.

(* F3a *)
Theorem C16_numeral_panics_iff_out_of_range_nonneg : forall (ds : string) (n : N),
  unsigned_shape ds = true -> digits ds = Some n -> (forall r, ds <> String "-"%char r) ->
  (parse_isize ds = Panic <-> (isize_max < Z.of_N n)%Z).
Proof. exact parse_isize_panic_iff_nonneg. Qed.
Print Assumptions C16_numeral_panics_iff_out_of_range_nonneg.
Theorem C16_numeral_panics_iff_out_of_range_neg : forall (ds : string) (n : N),
  nonzero_led ds = true -> digits ds = Some n -> (parse_isize (String "-"%char ds) = Panic <-> (- Z.of_N n < isize_min)%Z).
Proof. exact parse_isize_panic_iff_neg. Qed.
Print Assumptions C16_numeral_panics_iff_out_of_range_neg.
Theorem C16_arity_panics_iff_out_of_range : forall (ds : string) (n : N),
  unsigned_shape ds = true -> digits ds = Some n -> (parse_usize ds = Panic <-> (usize_max < n)%N).
Proof. exact parse_usize_panic_iff. Qed.
Print Assumptions C16_arity_panics_iff_out_of_range.

(* F3b (repaired): the TPTP rendering of a numeral never panics; it is the decimal magnitude,
   wrapped in $uminus(..) for negative numerals *)
Theorem C16_tptp_numeral_total : forall n : Z,
  tptp_numeral n = Value (if (n <? 0)%Z then "$uminus(" ++ nat_str (Z.abs_N n) ++ ")" else nat_str (Z.abs_N n)).
Proof. exact tptp_numeral_total. Qed.
Print Assumptions C16_tptp_numeral_total.
Theorem C16_tptp_numeral_never_panics : forall n : Z, tptp_numeral n <> Panic.
Proof. exact tptp_numeral_never_panics. Qed.
Print Assumptions C16_tptp_numeral_never_panics.

(* F11 *)
Theorem C16_fresh_global_panics_iff_overflow : forall m i : N,
  fresh_global m i = Panic <-> (usize_max < m + i)%N.
Proof. exact fresh_global_panic_iff. Qed.
Print Assumptions C16_fresh_global_panics_iff_overflow.

(* witnesses of the known classes (replayed on the real binary by bin/check C16), the regression case
   of the repaired F3b, and boundary cases *)
Example C16_known_witnesses :
  parse_isize "99999999999999999999" = Panic /\
  parse_isize "9223372036854775808" = Panic /\ parse_isize "9223372036854775807" = Value isize_max /\
  parse_isize "-9223372036854775808" = Value isize_min /\ parse_isize "-9223372036854775809" = Panic /\
  parse_usize "18446744073709551616" = Panic /\ parse_usize "18446744073709551615" = Value usize_max /\
  tptp_numeral isize_min = Value "$uminus(9223372036854775808)" /\ (* F3b regression: was Panic *)
  tptp_numeral (isize_min + 1) = Value "$uminus(9223372036854775807)" /\
  parse_isize "-0" = NotAToken /\ parse_isize "007" = NotAToken /\
  fresh_global 18446744073709551615 1 = Panic /\ fresh_global 18446744073709551614 1 = Value "V18446744073709551615".
Proof. repeat split; vm_compute; reflexivity. Qed.
