(* C16 — any input text leads to a result or a reported error, never a crash.
   WHAT THIS FILE IS (audit A10): NOT a proof of the property.  Crash-freedom of the binary is
   explored by sampling (the malformed-input stream of props/C16.py; pest, clap, I/O, recursion
   depth and running time are outside every model), and the property is known to be FALSE on the
   recorded classes F3a and F11.  The Coq part proves
     (1) EXACT PANIC CONDITIONS of the numeric conversions: each known crash of the implementation
         is pinned to a decidable class of inputs
           F3a  a numeral / arity token whose value does not fit isize / usize     (parse time)
           F11  a variable V<n> of the program with n + i > usize::MAX             (tau-star, debug build)
         (F3b, the numeral isize::MIN rendered to TPTP in a debug build, is repaired in /repo; the
         model of that line is now the numeral case of the TPTP printer: C16_tptp_numeral_is_printer);
     (2) TOTALITY OF NAMED SEARCHES AND PARTIAL OPERATIONS the pipeline unwraps: the fresh-name
         search, Formula::substitute (panics exactly on a sort mismatch), completion of a tau*
         theory (the `expect("tau_star did not create a completable theory")`), and the CLASSIC
         rewrites on parser-image trees (C16_classic_portfolio_no_panic, from Proofs/ParserImage.v).
     (3) about the recorded stack overflow F20, DEPTH ONLY: the tau* formula of a term nests 2 to 5 nodes per operator
         of the term (C16_val_depth_linear and three exact chain depths; Proofs/TauDepth.v) - nothing about the Rust stack.
   The property is also known to be false on F20 (abort on deep nesting) and slower than any watchdog on F15, F21, F22
   (known_findings.jsonl, docs/C16.md); none of that is provable here.
   Statements that only restated the shape of a result type (C16_status_total,
   C16_tptp_numeral_total, C16_tptp_numeral_never_panics) were removed; the exact classification of
   the prover's output is C10_status_ok / C10_status_missing / C10_status_unknown (Properties/C10.v). *)
From Coq Require Import List Ascii String ZArith NArith.
From Anthem Require Import Base.Fresh Syntax.Fol Syntax.Asp Syntax.Tff Model.Limits Proofs.LimitsOk Model.Subst Proofs.SubstOk
  Model.TptpPrint Model.TauStar Model.Completion Proofs.FagesTauStar
  Model.StrategyCls Model.ClsTerm Proofs.SimplClassicTotal Proofs.ParserImage Proofs.TauDepth.
Open Scope string_scope.

(* fresh-name searches (`while taken.contains(..)`, `find(..).unwrap()`) never run out: with fuel
   |taken| the search returns a name *)
Theorem C16_fresh_total : forall (variant : string) (taken : list string) (m : N),
  exists c, find_fresh (List.length taken) variant taken m = Some c.
Proof. exact find_fresh_total. Qed.
Print Assumptions C16_fresh_total.

(* F3a *)
Theorem C16_numeral_panics_iff_out_of_range_nonneg : forall (ds : string) (n : N),
  unsigned_shape ds = true -> digits ds = Some n -> (forall r, ds <> String "-"%char r) ->
  (parse_isize ds = Panic <-> (isize_max < Z.of_N n)%Z).
Proof. exact parse_isize_panic_iff_nonneg. Qed.
Print Assumptions C16_numeral_panics_iff_out_of_range_nonneg.
Theorem C16_numeral_panics_iff_out_of_range_neg : forall (ds : string) (n : N),
  nonzero_led ds = true -> digits ds = Some n -> (parse_isize (String "-"%char ds) = Panic <-> (- Z.of_N n < isize_min)%Z).
Proof. exact parse_isize_panic_iff_neg. Qed.
Print Assumptions C16_numeral_panics_iff_out_of_range_neg.
Theorem C16_arity_panics_iff_out_of_range : forall (ds : string) (n : N),
  unsigned_shape ds = true -> digits ds = Some n -> (parse_usize ds = Panic <-> (usize_max < n)%N).
Proof. exact parse_usize_panic_iff. Qed.
Print Assumptions C16_arity_panics_iff_out_of_range.

(* F3b (repaired).  Model/Limits.tptp_numeral (the model the boundary correspondence op
   `tptp_numeral` runs) and the numeral case of the TPTP printer Model/TptpPrint.print_iterm (the
   model C06/C09 are about) are two transcriptions of the same Rust line
   (`let m = n.unsigned_abs()` in Format<IntegerTerm>): they agree, for isize::MIN in particular *)
Theorem C16_tptp_numeral_is_printer : forall n : Z,
  tptp_numeral n = Value (render (print_iterm (INum n))).
Proof.
  intros n. unfold tptp_numeral. cbn [print_iterm]. destruct (n <? 0)%Z; reflexivity.
Qed.
Print Assumptions C16_tptp_numeral_is_printer.

(* F11 *)
Theorem C16_fresh_global_panics_iff_overflow : forall m i : N,
  fresh_global m i = Panic <-> (usize_max < m + i)%N.
Proof. exact fresh_global_panic_iff. Qed.
Print Assumptions C16_fresh_global_panics_iff_overflow.

(* Formula::substitute (the two `panic!`s of GeneralTerm::substitute): a value on every
   sort-compatible argument, and a panic ONLY on a sort mismatch (C17) *)
Theorem C16_substitute_total : forall F x t, sort_ok x t = true -> exists G, substitute F x t = Some G.
Proof. exact substitute_total. Qed.
Print Assumptions C16_substitute_total.
Theorem C16_substitute_panics_only_on_sort_mismatch : forall F x t,
  substitute F x t = None -> sort_ok x t = false.
Proof. exact substitute_panics_only_on_sort_mismatch. Qed.
Print Assumptions C16_substitute_panics_only_on_sort_mismatch.

(* `.completion(inputs).expect("tau_star did not create a completable theory")`: never None on a
   tau* theory, whatever the input set (C04_tau_star_completable) *)
Theorem C16_completion_expect_unreachable : forall (P : program) (G : theory) (ins : list pred),
  tau_star P = Some G -> exists D, completion G ins = Some D.
Proof. exact C04_tau_star_completable_proof. Qed.
Print Assumptions C16_completion_expect_unreachable.

(* the panics of classic.rs (`guards[0]`, `chars().next().unwrap()`, the replacement-helper
   `panic!`): never on a parser-image tree - every comparison has a guard, every bound variable a
   non-empty name - under any strategy and any fuel; the invariant is preserved by all fifteen
   rewrites (Properties/C07full.v) *)
Theorem C16_classic_portfolio_no_panic :
  forall (fuel : nat) (s : strategy) (F : formula), parser_image F ->
    run_strategy_opt fuel portfolio_classic_opt s F <> RPanic.
Proof. exact classic_no_panic. Qed.
Print Assumptions C16_classic_portfolio_no_panic.

(* F20 (stack overflow on deeply nested input): what the model says about DEPTH - and no more.  `val` (tau_star.rs:410)
   recurses once per operator of the term, and the formula it returns nests between 2 and 5 connective / quantifier nodes
   per operator: the nesting depth of what tau* hands to the later stages (simplification, gamma, the TPTP printer - all
   recursive traversals) is proportional to the nesting depth of the input, with no bound.  tdepth counts the operator nodes
   on the longest path of a term, fdepth the nodes on the longest path of a formula (Proofs/TauDepth.v).  These theorems do
   not mention a stack: frame sizes, the pest parser and the Rust recursion itself are outside the model; the aborting
   depths are measured on the binary (docs/C16.md) - `verify --no-simplify` aborts at 2333 x `-`, 1556 x `1+`, 1166 x `1..`,
   i.e. by the three exact theorems at formula depth 4668, 4669, 4665. *)
Theorem C16_val_depth_linear : forall (t : term) (z : var),
  2 * tdepth t + 1 <= fdepth (val t z) /\ fdepth (val t z) <= 5 * tdepth t + 1.
Proof. exact val_depth_linear. Qed.
Print Assumptions C16_val_depth_linear.
(* `p(` + (n+1) x `-` + `1).` *)
Theorem C16_val_neg_chain_depth : forall (n : nat) (t : term) (z : var), leaf t ->
  fdepth (val (neg_chain (S n) t) z) = 2 * S n + 2.
Proof. exact val_neg_chain_depth. Qed.
Print Assumptions C16_val_neg_chain_depth.
(* `p(1+1+..+1).` with n operators + - * (anthem parses the chain left-nested) *)
Theorem C16_val_left_chain_total_depth : forall (o : abinop) (n : nat) (t : term) (z : var), leaf t ->
  match o with AAdd | ASub | AMul => True | _ => False end ->
  fdepth (val (left_chain o n t) z) = 3 * n + 1.
Proof. exact val_left_chain_total_depth. Qed.
Print Assumptions C16_val_left_chain_total_depth.
(* `p(1..1.. ..1).` with n intervals *)
Theorem C16_val_left_chain_interval_depth : forall (n : nat) (t : term) (z : var), leaf t ->
  fdepth (val (left_chain AInterval n t) z) = 4 * n + 1.
Proof. exact val_left_chain_interval_depth. Qed.
Print Assumptions C16_val_left_chain_interval_depth.
(* non-vacuity: the functions compute, on the shapes of the recorded inputs *)
Example C16_val_depth_witnesses :
  let one := TPre (PNum 1) in let z := gvar "Z" in
  leaf one /\ tdepth (neg_chain 3 one) = 3 /\
  fdepth (val (neg_chain 3 one) z) = 8 /\ fdepth (val (left_chain AAdd 3 one) z) = 10 /\
  fdepth (val (left_chain AInterval 3 one) z) = 13 /\ fdepth (val (left_chain ADiv 3 one) z) = 16 /\
  fdepth (val (Asp.TBin AAdd one (Asp.TBin AAdd one (Asp.TBin AAdd one one))) z) = 8.
Proof. cbv zeta. repeat split; vm_compute; reflexivity. Qed.

(* witnesses of the known classes (replayed on the real binary by bin/check C16), the regression case
   of the repaired F3b, and boundary cases *)
Example C16_known_witnesses :
  parse_isize "99999999999999999999" = Panic /\
  parse_isize "9223372036854775808" = Panic /\ parse_isize "9223372036854775807" = Value isize_max /\
  parse_isize "-9223372036854775808" = Value isize_min /\ parse_isize "-9223372036854775809" = Panic /\
  parse_usize "18446744073709551616" = Panic /\ parse_usize "18446744073709551615" = Value usize_max /\
  tptp_numeral isize_min = Value "$uminus(9223372036854775808)" /\ (* F3b regression: was Panic *)
  tptp_numeral (isize_min + 1) = Value "$uminus(9223372036854775807)" /\
  parse_isize "-0" = NotAToken /\ parse_isize "007" = NotAToken /\
  fresh_global 18446744073709551615 1 = Panic /\ fresh_global 18446744073709551614 1 = Value "V18446744073709551615".
Proof. repeat split; vm_compute; reflexivity. Qed.
