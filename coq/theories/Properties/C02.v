(* C02 - External-equivalence obligations are refuted exactly by behavioural differences.
   Statements only; proofs live in Proofs/ExternalOk.v, AssemblyOk.v, RenameOk.v, C02Ok.v (with
   C19 for the flags and C13 for proof outlines).  Model: Model/External.v - the assembly of
   ExternalEquivalenceTask::decompose with the component analyses / translations as parameters. *)
From Coq Require Import List String ZArith Bool.
Import ListNotations.
From Anthem Require Import Base.ISet Syntax.Fol Syntax.Asp Sem.Domain Sem.Sat Model.Problem Model.Outline Model.Strong
  Model.External Model.Tightness Model.PrivRec Model.Completion Model.ExternalFull
  Proofs.SemBase Proofs.DecomposeOk Proofs.StrongOk Proofs.ExternalOk Proofs.AssemblyOk
  Proofs.RenameOk Proofs.C19Ext Proofs.C02Ok Proofs.C02Witness.
Open Scope string_scope.
Open Scope list_scope.

(* (a) assembly, validated task without proof outline: an interpretation refutes an emitted problem
   iff, for an enabled direction, it satisfies the stable premises (user-guide assumptions and the
   universal assumptions of both sides) and the premises of the direction and falsifies one of its
   conclusions - whatever the eq-break and decomposition flags *)
Theorem C02_assembly_validated :
  forall (vt : validated_task) w pbs,
    validated_decompose vt = Ok (w, pbs) -> vt_proof_outline vt = empty_outline -> validated_no_clash vt ->
    exists cl cr,
      contribs (left_contrib (vt_break vt)) (vt_left vt) = Some cl /\
      contribs (right_contrib (vt_break vt)) (vt_right vt) = Some cr /\
      forall FI M,
        let stable := map an_formula (vt_user_guide_assumptions vt) ++ forms_of (c_stable cl) ++ forms_of (c_stable cr) in
        (refutes_some FI M pbs <->
         (dir_forward (vt_direction vt) = true /\ tvalid FI M stable /\
          tvalid FI M (forms_of (c_fp cl ++ c_fp cr)) /\ ~ tvalid FI M (forms_of (c_fc cl ++ c_fc cr))) \/
         (dir_backward (vt_direction vt) = true /\ tvalid FI M stable /\
          tvalid FI M (forms_of (c_bp cl ++ c_bp cr)) /\ ~ tvalid FI M (forms_of (c_bc cl ++ c_bc cr)))).
Proof. exact validated_refutes_no_outline. Qed.
Print Assumptions C02_assembly_validated.

(* (a) assembly, from the task (program vs program, no proof outline): [lft] / [rgt] are the
   translated sides (control_translate of the simplified completion; the right one with the
   clashing private predicates renamed).  An interpretation that satisfies the user-guide
   assumptions and the completed definitions of the private predicates of both sides refutes an
   emitted problem iff, for an enabled direction, it satisfies the public part (completed
   definitions of public predicates, constraints) of the premise side and falsifies that of the
   conclusion side. *)
Theorem C02_assembly :
  forall (is_tight : program -> bool) (has_private_recursion : program -> list pred -> bool)
         (tau_star : program -> theory) (completion : theory -> list pred -> option theory)
         (simp_classic : formula -> formula) (t : ext_task) (L : program) w pbs lft rgt,
    et_specification t = inl L -> et_proof_outline t = [] ->
    external_decompose is_tight has_private_recursion tau_star completion simp_classic t = Ok (w, pbs) ->
    task_left tau_star completion simp_classic t L = Some lft ->
    task_right tau_star completion simp_classic t = Some rgt ->
    (forall vt, task_validated tau_star completion simp_classic t = Some vt -> validated_no_clash vt) ->
    forall FI M,
      tvalid FI M (map (fun a => rp_formula (task_placeholders t) (an_formula a)) (filter is_assumption (ug_formulas (et_user_guide t)))) ->
      tvalid FI M (assumptions_of lft) -> tvalid FI M (assumptions_of rgt) ->
      (refutes_some FI M pbs <->
       (dir_forward (et_direction t) = true /\ tvalid FI M (specs_of lft) /\ ~ tvalid FI M (specs_of rgt)) \/
       (dir_backward (et_direction t) = true /\ tvalid FI M (specs_of rgt) /\ ~ tvalid FI M (specs_of lft))).
Proof. exact C02_assembly_proof. Qed.
Print Assumptions C02_assembly.

(* (b) my part: renaming predicates is the re-indexing of the interpretation, and when the
   renaming is injective on a vocabulary (no_rename_clash) every interpretation of the vocabulary
   arises as a re-indexing; outside this class two predicates are merged (finding F9) *)
Theorem C02_rename_sem :
  forall (FI : fint) (m : list (pred * string)) (M : pint) (f : formula) (e : env),
    csat FI M e (rename_predicates m f) <-> csat FI (reindex m M) e f.
Proof. exact rename_sem. Qed.
Print Assumptions C02_rename_sem.

Theorem C02_rename_surjective :
  forall (m : list (pred * string)) (S : list pred), no_rename_clash m S ->
    forall N : pint, exists M : pint, pagree S N (reindex m M).
Proof. exact reindex_surjective. Qed.
Print Assumptions C02_rename_surjective.

(* C02_partial: composition with the meaning of the translated theories.  [ext_stable t FI M P]
   stands for "on P's vocabulary M is a stable model of P together with M's input facts, the
   placeholders read as FI's values"; the hypothesis (to be discharged by C04 with C01 and C07:
   the simplified completion of tau-star of a tight program has exactly these models) is layer (c).
   Then an interpretation of input, output and private predicates (satisfying the user-guide
   assumptions and the private definitions of both sides) refutes an emitted problem iff it is a
   stable model of one side and - read through the renaming - not of the other.
   NOT included (remaining hypotheses of the full property): (d) uniqueness of the private
   extension, which turns "not a stable model of the other side for these private extents" into
   "the other side cannot produce this public part"; specifications (spec-vs-program tasks) are
   covered by C02_assembly_validated only. *)
Theorem C02_partial :
  forall (is_tight : program -> bool) (has_private_recursion : program -> list pred -> bool)
         (tau_star : program -> theory) (completion : theory -> list pred -> option theory)
         (simp_classic : formula -> formula)
         (ext_stable : ext_task -> fint -> pint -> program -> Prop),
    (forall t P th FI M,
        theory_translate tau_star completion simp_classic t (task_placeholders t) P = Some th ->
        (tvalid FI M th <-> ext_stable t FI M P)) ->
    forall (t : ext_task) (L : program) w pbs lft rgt,
      et_specification t = inl L -> et_proof_outline t = [] ->
      external_decompose is_tight has_private_recursion tau_star completion simp_classic t = Ok (w, pbs) ->
      task_left tau_star completion simp_classic t L = Some lft ->
      task_right tau_star completion simp_classic t = Some rgt ->
      (forall vt, task_validated tau_star completion simp_classic t = Some vt -> validated_no_clash vt) ->
      forall FI M,
        tvalid FI M (map (fun a => rp_formula (task_placeholders t) (an_formula a)) (filter is_assumption (ug_formulas (et_user_guide t)))) ->
        tvalid FI M (assumptions_of lft) -> tvalid FI M (assumptions_of rgt) ->
        (refutes_some FI M pbs <->
         (dir_forward (et_direction t) = true /\
          ext_stable t FI M L /\ ~ ext_stable t FI (reindex (task_mapping t) M) (et_program t)) \/
         (dir_backward (et_direction t) = true /\
          ext_stable t FI (reindex (task_mapping t) M) (et_program t) /\ ~ ext_stable t FI M L)).
Proof. exact C02_partial_proof. Qed.
Print Assumptions C02_partial.

(* ---------------- non-vacuity of C02_assembly and C02_partial (audit A1) ----------------
   Every premise is discharged on one accepted task, computed in the model with the real components
   (Proofs/C02Witness.v):  t6 =  specification  q :- in.  out :- q.   program  out :- not in.
   input: in/0.  output: out/0.  (q/0 private; universal direction).  M6 = {in, q, out}.
   The left-hand side holds (the forward problem is refuted by M6) and the right-hand side is
   obtained through the theorem. *)
Example C02_assembly_nonvacuous : forall FI : fint,
  et_specification t6 = inl L6 /\ et_proof_outline t6 = [] /\
  external_decompose is_tight has_private_recursion tau_star_total completion (simp_classic_total full_fuel) t6 = Ok ([], pbs6) /\
  task_left tau_star_total completion (simp_classic_total full_fuel) t6 L6 = Some lft6 /\
  task_right tau_star_total completion (simp_classic_total full_fuel) t6 = Some rgt6 /\
  (forall vt, task_validated tau_star_total completion (simp_classic_total full_fuel) t6 = Some vt -> validated_no_clash vt) /\
  tvalid FI M6 (map (fun a => rp_formula (task_placeholders t6) (an_formula a)) (filter is_assumption (ug_formulas (et_user_guide t6)))) /\
  tvalid FI M6 (assumptions_of lft6) /\ tvalid FI M6 (assumptions_of rgt6) /\
  List.length pbs6 = 2 /\ List.length (assumptions_of lft6) = 1 /\
  refutes_some FI M6 pbs6 /\
  ((dir_forward (et_direction t6) = true /\ tvalid FI M6 (specs_of lft6) /\ ~ tvalid FI M6 (specs_of rgt6)) \/
   (dir_backward (et_direction t6) = true /\ tvalid FI M6 (specs_of rgt6) /\ ~ tvalid FI M6 (specs_of lft6))).
Proof.
  intros FI.
  split; [reflexivity|]. split; [reflexivity|]. split; [exact t6_total|]. split; [exact t6_left|].
  split; [exact t6_right|]. split; [exact t6_no_clash|]. split; [exact (t6_ug FI M6)|].
  split; [exact (t6_assumptions_left FI)|]. split; [exact (t6_assumptions_right FI M6)|].
  split; [vm_compute; reflexivity|]. split; [vm_compute; reflexivity|].
  split; [exact (t6_refuted FI)|exact (t6_assembly_rhs FI)].
Qed.

Example C02_partial_nonvacuous : forall FI : fint,
  (forall t P th FI M,
      theory_translate tau_star_total completion (simp_classic_total full_fuel) t (task_placeholders t) P = Some th ->
      (tvalid FI M th <-> es_full t FI M P)) /\
  et_specification t6 = inl L6 /\ et_proof_outline t6 = [] /\
  external_decompose is_tight has_private_recursion tau_star_total completion (simp_classic_total full_fuel) t6 = Ok ([], pbs6) /\
  task_left tau_star_total completion (simp_classic_total full_fuel) t6 L6 = Some lft6 /\
  task_right tau_star_total completion (simp_classic_total full_fuel) t6 = Some rgt6 /\
  (forall vt, task_validated tau_star_total completion (simp_classic_total full_fuel) t6 = Some vt -> validated_no_clash vt) /\
  tvalid FI M6 (map (fun a => rp_formula (task_placeholders t6) (an_formula a)) (filter is_assumption (ug_formulas (et_user_guide t6)))) /\
  tvalid FI M6 (assumptions_of lft6) /\ tvalid FI M6 (assumptions_of rgt6) /\
  refutes_some FI M6 pbs6 /\
  ((dir_forward (et_direction t6) = true /\
    es_full t6 FI M6 L6 /\ ~ es_full t6 FI (reindex (task_mapping t6) M6) (et_program t6)) \/
   (dir_backward (et_direction t6) = true /\
    es_full t6 FI (reindex (task_mapping t6) M6) (et_program t6) /\ ~ es_full t6 FI M6 L6)).
Proof.
  intros FI.
  split; [exact es_full_meaning|].
  split; [reflexivity|]. split; [reflexivity|]. split; [exact t6_total|]. split; [exact t6_left|].
  split; [exact t6_right|]. split; [exact t6_no_clash|]. split; [exact (t6_ug FI M6)|].
  split; [exact (t6_assumptions_left FI)|]. split; [exact (t6_assumptions_right FI M6)|].
  split; [exact (t6_refuted FI)|exact (t6_partial_rhs FI)].
Qed.

(* witness of the known class F9: renaming q/1 by the extension "p" in a vocabulary that already
   contains q_p/1 is not injective *)
Example F9_witness_class :
  ~ no_rename_clash [(mkpred "q" 1, "p")] [mkpred "q" 1; mkpred "q_p" 1].
Proof. exact F9_witness. Qed.

(* non-vacuity: head_predicate and the role split of control_translate on a concrete theory *)
Example C02_control_translate_nonvacuous :
  let X := mkvar "X" SGeneral in
  let def p := FQ QForall [X] (FBin CIff (FAtomic (AAtom p [GVar "X"])) (FAtomic (AAtom "in" [GVar "X"]))) in
  map an_name (control_translate [] [def "q"; FAtomic AFalse; FNot (def "q")])
  = ["completed_definition_of_q_1"; "constraint_0"; "constraint_1"].
Proof. reflexivity. Qed.
