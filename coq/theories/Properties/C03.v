(* C03 - Strong-equivalence obligations are refuted exactly by HT-distinguishing pairs.
   Statements only; proofs live in Proofs/StrongOk.v (using Proofs/GammaOk.v = C05, BreakOk.v,
   DecomposeOk.v).  Model: Model/Strong.v - the assembly of StrongEquivalenceTask::decompose, with
   the component translations (tau-star, mu, the two fixpoint simplifications) as parameters.
     H_of M p := M ("h"++p),  T_of M p := M ("t"++p),  Hc M := H_of M cut down to T_of M
   (Hc M = H_of M wherever the h-extents are included in the t-extents). *)
From Coq Require Import List String ZArith Bool.
Import ListNotations.
From Anthem Require Import Base.ISet Syntax.Fol Syntax.Asp Sem.Domain Sem.Sat Sem.AspRef Model.Gamma Model.Problem
  Model.Strong Proofs.SemBase Proofs.DecomposeOk Proofs.StrongOk.
Open Scope string_scope.

(* my part 1: the transition axioms hold iff the h-extent of every predicate of either program is
   included in its t-extent *)
Theorem C03_transition_axioms :
  forall (FI : fint) (M : pint) (L R : program),
    (forall f, In f (transition_axioms L R) -> cvalid FI M f) <->
    sub_on (strong_predicates L R) (H_of M) (T_of M).
Proof. exact transition_axioms_sub. Qed.
Print Assumptions C03_transition_axioms.

(* my part 2: gamma (C05) under inclusion on the formula's vocabulary only *)
Theorem C03_gamma_on_vocabulary :
  forall (FI : fint) (S : list pred) (M : pint) (f : formula),
    sub_on S (H_of M) (T_of M) -> (forall p, In p (predicates f) -> In p S) ->
    forall e, hsat FI (Hc M) (T_of M) e f <-> csat FI M e (gamma f).
Proof. exact gamma_ok_on. Qed.
Print Assumptions C03_gamma_on_vocabulary.

(* my part 3: without a symbol that equals a 0-ary predicate of the problem,
   rename_conflicting_symbols is the identity *)
Theorem C03_rename_identity :
  forall p : problem, no_clash_problem p -> rename_conflicting_symbols p = p.
Proof. exact rename_id. Qed.
Print Assumptions C03_rename_identity.

(* the full statement, as a proposition about the four component functions *)
Definition C03_statement (tau_star mu : program -> theory) (simp_ht simp_classic : formula -> formula) : Prop :=
  forall (FI : fint) (M : pint) (t : strong_task),
    no_symbol_pred_clash tau_star mu simp_ht simp_classic t ->
    (refutes_some FI M (strong_decompose tau_star mu simp_ht simp_classic t) <->
     sub_on (strong_predicates (st_left t) (st_right t)) (H_of M) (T_of M) /\
     ((dir_forward (st_direction t) = true /\
       ref_sat (Hc M) (T_of M) (st_left t) /\ ~ ref_sat (Hc M) (T_of M) (st_right t)) \/
      (dir_backward (st_direction t) = true /\
       ref_sat (Hc M) (T_of M) (st_right t) /\ ~ ref_sat (Hc M) (T_of M) (st_left t)))).

(* C03_partial: the statement holds for all component functions that satisfy the component facts
   (C07: the simplifications preserve meaning; C01/C08: tau-star and mu are HT-adequate w.r.t. the
   reference semantics Sem/AspRef.ref_sat; vocabulary: no new predicates) *)
Theorem C03_partial :
  forall (tau_star mu : program -> theory) (simp_ht simp_classic : formula -> formula),
    (forall FI H T f, sub H T -> (hvalid FI H T (simp_ht f) <-> hvalid FI H T f)) ->
    (forall FI M f, cvalid FI M (simp_classic f) <-> cvalid FI M f) ->
    (forall P f p, In f (tau_star P) -> In p (predicates f) -> In p (program_preds P)) ->
    (forall P f p, In f (mu P) -> In p (predicates f) -> In p (program_preds P)) ->
    (forall f p, In p (predicates (simp_ht f)) -> In p (predicates f)) ->
    (forall FI H T P, sub H T -> ((forall f, In f (tau_star P) -> hvalid FI H T f) <-> ref_sat H T P)) ->
    (forall FI H T P, sub H T -> ((forall f, In f (mu P) -> hvalid FI H T f) <-> ref_sat H T P)) ->
    C03_statement tau_star mu simp_ht simp_classic.
Proof.
  intros ts mu s1 s2 H1 H2 H3 H4 H5 H6 H7 FI M t.
  exact (C03_partial_proof ts mu s1 s2 H1 H2 H3 H4 H5 H6 H7 FI M t).
Qed.
Print Assumptions C03_partial.

(* "Hence all problems are theorems exactly when the programs have the same here-and-there models" *)
Theorem C03_strong_partial :
  forall (tau_star mu : program -> theory) (simp_ht simp_classic : formula -> formula),
    (forall FI H T f, sub H T -> (hvalid FI H T (simp_ht f) <-> hvalid FI H T f)) ->
    (forall FI M f, cvalid FI M (simp_classic f) <-> cvalid FI M f) ->
    (forall P f p, In f (tau_star P) -> In p (predicates f) -> In p (program_preds P)) ->
    (forall P f p, In f (mu P) -> In p (predicates f) -> In p (program_preds P)) ->
    (forall f p, In p (predicates (simp_ht f)) -> In p (predicates f)) ->
    (forall FI H T P, sub H T -> ((forall f, In f (tau_star P) -> hvalid FI H T f) <-> ref_sat H T P)) ->
    (forall FI H T P, sub H T -> ((forall f, In f (mu P) -> hvalid FI H T f) <-> ref_sat H T P)) ->
    forall t : strong_task,
      no_symbol_pred_clash tau_star mu simp_ht simp_classic t -> st_direction t = DUniversal ->
      ((forall FI M, ~ refutes_some FI M (strong_decompose tau_star mu simp_ht simp_classic t)) <->
       (forall H T, sub H T -> (ref_sat H T (st_left t) <-> ref_sat H T (st_right t)))).
Proof. exact C03_strong_partial_proof. Qed.
Print Assumptions C03_strong_partial.

(* the known class F8b: a symbol equal to the h- or t-copy of a 0-ary predicate is renamed s__s,
   which is not order-preserving: in the standard order hp < hpA, but hpA < hp__s *)
Example F8b_witness :
  rcs_formula [mkpred "hp" 0] (FAtomic (ACmp (GSym (SSym "hpA")) [mkguard RLt (GSym (SSym "hp"))]))
    = FAtomic (ACmp (GSym (SSym "hpA")) [mkguard RLt (GSym (SSym "hp__s"))]) /\
  rel_sat RLt (VSym "hpA") (VSym "hp") = false /\ rel_sat RLt (VSym "hpA") (VSym "hp__s") = true.
Proof.
  split; [|split; reflexivity]. vm_compute. reflexivity.
Qed.

(* non-vacuity: an interpretation with hp not included in tp falsifies the transition axiom of p/0 *)
Example C03_transition_nonvacuous :
  let FI := mkfint (fun _ => VInf) (fun _ => 0%Z) (fun _ => "") in
  let M : pint := fun p a => p = "hp" in
  ~ cvalid FI M (transition (mkpred "p" 0)).
Proof.
  cbv zeta. intros Hv. apply (proj1 (transition_valid _ _ _)) with (a := []) in Hv; [|reflexivity|reflexivity].
  unfold T_of in Hv. cbn in Hv. discriminate.
Qed.
