(* C08 (mu half, composed) - mu with the REAL tau* functions plugged in (Model/MuFull.v).
   Statements only; proofs live in Proofs/MuFullOk.v, which composes C08 (natural: Proofs/NaturalMain.v,
   Proofs/RegularOk.v) with C01 (tau-star: Proofs/TauStarRule.v, Proofs/TauStarProgram.v).

   Model/Mu.v's Section (mu parameterised by choose_fresh_global_variables and tau_star_rule) is
   instantiated by Model/TauStar.v; [mu_full : program -> option theory], None = panic.
   The oracle is the same Sem/AspRef.v to which tau* is tied by C01. *)
From Coq Require Import List String ZArith.
Import ListNotations.
From Anthem Require Import Syntax.Fol Syntax.Asp Sem.Domain Sem.Sat Sem.AspRef
  Model.Natural Model.Mu Model.TauStar Model.MuFull
  Proofs.RegularOk Proofs.TauStarRule Proofs.TauStarProgram Proofs.MuFullOk.
Open Scope string_scope.

(* mu_full is the instantiation of Model/Mu.v's Section (total wrappers for the two parameters)
   whenever it returns *)
Theorem C08_mu_instance :
  forall (P : program) (th : theory), mu_full P = Some th ->
  mu globals_or_nil tau_star_rule_or_true P = NOk th.
Proof. exact mu_full_inst. Qed.
Print Assumptions C08_mu_instance.

(* MAIN THEOREM for mu.  One formula per rule, and for every interpretation FI of placeholders and
   every HT interpretation H subset-of T the i-th formula is HT-valid iff the i-th rule is
   satisfied in the reference semantics. *)
Theorem C08_mu :
  forall (P : program) (th : theory), mu_full P = Some th ->
  List.length th = List.length P /\
  forall i r f, nth_error P i = Some r -> nth_error th i = Some f ->
  forall (FI : fint) (H T : pint), sub H T -> (hvalid FI H T f <-> ref_rule_sat H T r).
Proof. exact mu_full_nth. Qed.
Print Assumptions C08_mu.

(* which branch: natural's formula on regular rules, tau*'s formula with the program-wide fresh
   globals on the others (C08_mu_shape, instantiated) *)
Theorem C08_mu_branches :
  forall (P : program) (th : theory) (globals : list string),
  mu_full P = Some th -> choose_fresh_global_variables P = Some globals ->
  List.length th = List.length P /\
  forall i r, nth_error P i = Some r ->
    (regular_rule r -> exists f, natural_rule r = NOk f /\ nth_error th i = Some f) /\
    (~ regular_rule r -> exists f, tau_star_rule r globals = Some f /\ nth_error th i = Some f).
Proof. exact mu_full_shape. Qed.
Print Assumptions C08_mu_branches.

(* programs *)
Theorem C08_mu_theory :
  forall (P : program) (th : theory), mu_full P = Some th ->
  forall (FI : fint) (H T : pint), sub H T -> (theory_hsat FI H T th <-> ref_sat H T P).
Proof. exact mu_full_theory. Qed.
Print Assumptions C08_mu_theory.

(* the literal statement of C08: natural's formula of a rule is HT-equivalent to the tau* formula
   of the same rule (any usable globals: enough, distinct, not in the rule) *)
Theorem C08_nat_vs_tau_star :
  forall (r : rule) (F : formula) (globals : list string) (G : formula),
  natural_rule r = NOk F -> tau_star_rule r globals = Some G -> fresh_globals r globals ->
  forall (FI : fint) (H T : pint), sub H T -> (hvalid FI H T F <-> hvalid FI H T G).
Proof. exact natural_vs_tau_star. Qed.
Print Assumptions C08_nat_vs_tau_star.

(* ... and mu's theory is formula-by-formula HT-equivalent to the tau* theory of the same program *)
Theorem C08_mu_vs_tau_star :
  forall (P : program) (th G : theory), mu_full P = Some th -> tau_star P = Some G ->
  List.length th = List.length G /\
  forall (FI : fint) (H T : pint), sub H T ->
    Forall2 (fun f g => hvalid FI H T f <-> hvalid FI H T g) th G.
Proof. exact mu_full_vs_tau_star. Qed.
Print Assumptions C08_mu_vs_tau_star.

(* "mu never fails" holds exactly up to the overflow class of choose_fresh_global_variables
   (finding F11): mu panics iff tau_star panics iff the global counter would reach 2^64 *)
Theorem C08_mu_defined :
  forall P : program, (exists th, mu_full P = Some th) <-> no_global_overflow P.
Proof. exact mu_full_defined_iff. Qed.
Print Assumptions C08_mu_defined.

Theorem C08_tau_star_defined :
  forall P : program, (exists G, tau_star P = Some G) <-> no_global_overflow P.
Proof. exact tau_star_defined_iff. Qed.
Print Assumptions C08_tau_star_defined.

(* vocabulary: mu's formulas mention only predicates (symbol/arity) of the program *)
Theorem C08_mu_predicates :
  forall (P : program) (th : theory), mu_full P = Some th ->
  forall f p, In f th -> In p (predicates f) -> In p (program_preds P).
Proof. exact mu_full_predicates. Qed.
Print Assumptions C08_mu_predicates.

(* ---------- non-vacuity ---------- *)
(* a program with one regular rule and one irregular rule (division): the first formula is
   natural's, the second tau*'s with the global V1 *)
Definition P_mu : program :=
  [ mkrule (HBasic (mkatom "p" [TVar "X"])) [BLit (mklit SNone (mkatom "q" [TVar "X"]))];
    mkrule (HBasic (mkatom "q" [TBin ADiv (TPre (PNum 4)) (TPre (PNum 2))])) [] ].

Example C08_mu_example :
  exists f g, mu_full P_mu = Some [f; g] /\
    natural_rule (nth 0 P_mu (mkrule HFalsity [])) = NOk f /\
    natural_rule (nth 1 P_mu (mkrule HFalsity [])) = NRefused /\
    tau_star_rule (nth 1 P_mu (mkrule HFalsity [])) ["V1"] = Some g.
Proof. eexists. eexists. vm_compute. repeat split. Qed.

(* the overflow class is not empty: mu panics although the only rule is regular *)
Example C08_mu_overflow_panics :
  mu_full [mkrule (HBasic (mkatom "p" [TVar "V18446744073709551615"])) []] = None /\
  exists f, natural_rule (mkrule (HBasic (mkatom "p" [TVar "V18446744073709551615"])) []) = NOk f.
Proof. split; [vm_compute; reflexivity|eexists; vm_compute; reflexivity]. Qed.
