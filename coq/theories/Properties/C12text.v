(* C12, TFF level — the preamble anthem prepends to every problem, as TEXT.
   Statements only; proofs live in Proofs/ProblemText.v.

   Gen/Preamble.v is regenerated on every build from
   <ANTHEM_REPO>/src/verifying/problem/standard_interpretation.p by tools/preamble2coq.py:
   [preamble_lines]/[preamble_text]/[preamble_bytes] are the bytes of the file,
   [preamble_decls]/[preamble_formulas] its declarations and axioms as TFF syntax (the list
   [preamble_axioms] of Coq Props that Properties/C12.v proves true in the standard structure is
   printed from the same syntax trees).  Here the syntax trees are tied to the bytes INSIDE Coq,
   by the specification reader Model/TffText.v [read_problem] (an implementation independent of the
   translator's parser), and the bytes to what the model of `impl Display for Problem` prints. *)
From Coq Require Import List String.
Import ListNotations.
From Anthem Require Import Syntax.Fol Syntax.Tff Sem.Domain Sem.Sat Sem.TffSem Model.Problem Model.TptpPrint Model.ProblemPrint
  Model.TffText Gen.Preamble Proofs.TptpSem Proofs.ProblemCtx Proofs.ProblemText Proofs.PreambleTff.
Open Scope string_scope.

Definition preamble_tff_decls : list tff_decl :=
  map (fun d => mkdecl (fst (fst d)) (snd (fst d)) (snd d)) preamble_decls.
Definition preamble_tff_axioms : list tff_named :=
  map (fun a => mknamed (fst a) RoleAxiom (snd a)) preamble_formulas.

(* the bytes of the file, read by the specification reader, are exactly the declaration list and
   the axiom list the translator generated (names, roles, signatures, grouping of every formula) *)
Theorem C12_preamble_text :
  read_problem preamble_text = Some (mktp preamble_tff_decls preamble_tff_axioms).
Proof. exact preamble_reads. Qed.
Print Assumptions C12_preamble_text.

(* [preamble_text] (lines joined with newlines) is the file as one literal *)
Theorem C12_preamble_bytes : preamble_text = preamble_bytes.
Proof. exact preamble_text_bytes. Qed.
Print Assumptions C12_preamble_bytes.

(* every emitted problem starts with these bytes ... *)
Theorem C12_preamble_is_printed :
  forall (pb : problem) (txt : string), problem_display pb = Some txt ->
  exists rest : string, txt = preamble_text ++ rest.
Proof. exact display_starts_with_preamble. Qed.
Print Assumptions C12_preamble_is_printed.

(* ... and what the reader makes of an emitted problem (outside C09's IdentClass, formulas
   lexically in the parser image) starts with the preamble's declarations and axioms *)
Theorem C12_preamble_in_text :
  forall (pb : problem) (txt : string) (tp : tff_problem), ident_ok pb = true ->
  (forall a, In a (pb_formulas pb) -> wf_lex (pf_formula a) = true) ->
  problem_display pb = Some txt -> read_problem txt = Some tp ->
  exists ds fs, tp_decls tp = (preamble_tff_decls ++ ds)%list /\ tp_formulas tp = (preamble_tff_axioms ++ fs)%list.
Proof. exact text_contains_preamble. Qed.
Print Assumptions C12_preamble_in_text.

(* ---------- truth of the TFF syntax ----------
   Properties/C12.v (C12_preamble) is about Coq Props printed by the translator.  Here the SAME
   syntax trees that the bytes read as (C12_preamble_text) are evaluated by the TFF semantics of
   Sem/TffSem.v ([tff_sat]: $int = Z, f__integer__ = VNum, p__less_equal__ = gle, ...): each is true
   in every structure and under every assignment, in particular in the structures
   [tstruct_in K FI M] in which C06_in_problem / C06_text evaluate the problem's own formulas. *)
Theorem C12_preamble_tff_true :
  Forall (fun a => forall (S : tstruct) (te : tenv), tff_sat S te (snd a)) preamble_formulas.
Proof. exact preamble_tff_true. Qed.
Print Assumptions C12_preamble_tff_true.

(* the symbol_order axioms of a problem outside C09's IdentClass mean, under the signature the
   problem declares (symbolic constants denote themselves), what their source formulas
   `a < b` mean (whose truth is the subject of C12_chain_true in Properties/C12.v) *)
Theorem C12_chain_tff :
  forall (pb : problem) (ab : string * string) (FI : fint) (M : pint), ident_ok pb = true ->
  In ab (windows2 (sort_strings (problem_symbols pb))) ->
  forall (te : tenv) (e : env), (forall n, te n = tenv_of e n) ->
  (tff_sat (tstruct_in (csig_of_decls (tp_decls (emit pb))) FI M) te (tff_of_formula (symbol_order_formula ab))
   <-> csat FI M e (symbol_order_formula ab)).
Proof. exact order_meaning. Qed.
Print Assumptions C12_chain_tff.

(* non-vacuity (robust against edits of the file): there are declarations and axioms *)
Example C12text_ex_nonempty : preamble_tff_decls <> [] /\ preamble_tff_axioms <> [].
Proof. split; vm_compute; discriminate. Qed.
