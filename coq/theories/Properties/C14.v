(* C14 -- printing a parsed mini-gringo program and parsing it again yields the same program.
   Statements only; proofs live in Proofs/AspRoundTrip.v.  Models: Model/AspPrint.v (printer,
   token level + exact bytes), Model/AspParse.v (lexer, PEG phase, pest's Pratt algorithm,
   rule/program structure); operator tables: Gen/TablesAsp.v, regenerated from default.rs and
   pest.rs before every build. *)
From Coq Require Import List Ascii String ZArith.
Import ListNotations.
From Anthem Require Import Syntax.Asp Model.AspTableTypes Gen.TablesAsp Model.AspPrint Model.AspParse
  Model.AspNodes Proofs.AspRoundTrip Proofs.AspLex Proofs.AspImage Proofs.AspFuel.
Open Scope string_scope.

(* Terms: whatever follows the printed term (anything but an infix operator: in a program a term
   is followed by "," ")" a relation or "."), the parser reads exactly the printed tokens and
   returns the tree -- every operator at every nesting, unary minus, parenthesised operands. *)
Theorem C14_term :
  forall (t : term) (rest : list token), nobin rest ->
  parse_term (print_term t ++ rest) = POk (t, rest).
Proof. exact parse_print_term. Qed.
Print Assumptions C14_term.

(* The generalised Pratt claim behind it (pest's expr/nud/led loop as a big-step relation):
   the printed form of t, parsed at any rbp that lets t's top operator in, yields t and then
   continues the operator loop on what follows. *)
Theorem C14_pratt_claim :
  forall (t : term) (rbp : nat) (R : list item) (t' : term) (R' : list item),
  enter_ok rbp t -> follow_ok (rlvl t) R -> Loop rbp t R t' R' ->
  Expr rbp (print_items t ++ R) t' R'.
Proof. exact claim. Qed.
Print Assumptions C14_pratt_claim.

(* the executable, fuelled Pratt parser computes what the big-step relation says *)
Theorem C14_pratt_adequate :
  forall (rbp : nat) (items : list item) (t : term) (rest : list item), Expr rbp items t rest ->
  forall F, 2 * items_size items + 2 <= F -> pratt_expr F rbp items = POk (t, rest).
Proof. exact pratt_expr_adequate. Qed.
Print Assumptions C14_pratt_adequate.

(* The consistency of the two regenerated tables that the proof rests on: the printer's numbering
   of the binary operators is the parser's binding power reversed, both sides agree on
   associativity, unary minus binds tightest on both sides. *)
Theorem C14_tables_consistent :
  (forall o1 o2 : abinop, pb o1 < pb o2 <-> bp o2 < bp o1) /\
  (forall o : abinop, ab o = passoc o) /\
  (forall o : abinop, pu < pb o /\ bp o < bp_pre).
Proof. exact tables_consistent. Qed.
Print Assumptions C14_tables_consistent.

(* Programs, token level: for EVERY syntax tree (all three head kinds, empty bodies, constraints,
   all signs and relations), parsing the printed tokens gives the tree back.  No well-formedness
   side condition is needed at this level, so in particular it holds for every tree in the image of
   the parser.  [parse_program_from g]: whatever the `!"."` guard of the first rule saw. *)
Theorem C14 : forall p : program, parse_program (print_program p) = POk p.
Proof. exact parse_print_program. Qed.
Print Assumptions C14.

Theorem C14_any_guard : forall (g : bool) (p : program), parse_program_from g (print_program p) = POk p.
Proof. exact parse_print_program_from. Qed.
Print Assumptions C14_any_guard.

(* printing the re-parsed tree gives identical tokens, hence identical bytes *)
Theorem C14_print_idem :
  forall p q : program, parse_program (print_program p) = POk q ->
  print_program q = print_program p /\ display_program q = display_program p.
Proof. exact print_idem_bytes. Qed.
Print Assumptions C14_print_idem.

(* Text level with the lexical step as an explicit hypothesis (no condition on identifiers): if the
   lexer reads the printed bytes back as the printed tokens and every numeral fits isize, the
   text-level parser returns the tree.  C14_lex_render below discharges the hypothesis for
   well-formed identifiers outside the class F7. *)
Theorem C14_text_partial :
  forall p : program,
  lex (display_program p) = Some (print_program p) ->
  program_numerals_ok p = true ->
  parse_program_text (display_program p) = POk p.
Proof. exact text_roundtrip_given_lex. Qed.
Print Assumptions C14_text_partial.

(* ---- the known class F7: identifiers spelled like the keyword `not` in front of a token that is
   printed with a leading space (" :- ", " = ", " + ", ...); decidable: Model/AspPrint.keyword_ident *)
Definition KeywordIdent (p : program) : Prop := keyword_ident p = true.

(* Text level, for the MODEL lexer (which is tied to pest by correspondence only): outside the
   class, if the identifiers are in the lexical classes of the grammar ([wf_program]: symbols
   _?[a-z][A-Za-z0-9_]* , variables [A-Z][A-Za-z0-9]* ), the lexer reads the printed bytes back
   as exactly the printed tokens ... *)
Theorem C14_lex_render :
  forall p : program, wf_program p -> ~ KeywordIdent p ->
  lex (display_program p) = Some (print_program p).
Proof. exact lex_render_not_kw. Qed.
Print Assumptions C14_lex_render.

(* ... so the text-level parser returns the tree (numerals within isize, else the real parser panics) *)
Theorem C14_text :
  forall p : program, wf_program p -> program_numerals_ok p = true -> ~ KeywordIdent p ->
  parse_program_text (display_program p) = POk p.
Proof. exact text_roundtrip_not_kw. Qed.
Print Assumptions C14_text.

(* The image of the parser is inside that class ... *)
Theorem C14_image :
  forall (s : string) (p : program), parse_program_text s = POk p ->
  wf_program p /\ program_numerals_ok p = true.
Proof. exact parse_text_image. Qed.
Print Assumptions C14_image.

(* ... hence: every accepted text, printed, is accepted again and parses to the identical tree, and
   printing that tree again yields identical bytes -- unless the tree is in the class F7. *)
Theorem C14_accepted_text :
  forall (s : string) (p : program), parse_program_text s = POk p -> ~ KeywordIdent p ->
  parse_program_text (display_program p) = POk p /\
  forall q, parse_program_text (display_program p) = POk q -> display_program q = display_program p.
Proof. exact text_roundtrip_image_not_kw. Qed.
Print Assumptions C14_accepted_text.

(* witness: "not:-p." is accepted, its tree is in the class, and its printed form "not :- p." is
   rejected; the lexical hypothesis of C14_text_partial is exactly what fails *)
Example C14_F7_witness :
  let w : program := [mkrule (HBasic (mkatom "not" [])) [BLit (mklit SNone (mkatom "p" []))]] in
  parse_program_text "not:-p." = POk w /\
  KeywordIdent w /\
  display_program w = "not :- p." ++ nl /\
  parse_program_text (display_program w) = PFail /\
  lex (display_program w) <> Some (print_program w).
Proof. cbv zeta. repeat split; try (vm_compute; reflexivity). vm_compute. discriminate. Qed.

(* the class is about position, not about the name: `not` followed by "(" "," ")" "." survives *)
Example C14_F7_not_in_class :
  let w : program := [mkrule (HBasic (mkatom "p" [TPre (PSym "not")])) [BLit (mklit SNeg (mkatom "not" []))]] in
  keyword_ident w = false /\ parse_program_text (display_program w) = POk w.
Proof. cbv zeta. split; vm_compute; reflexivity. Qed.

(* ---- non-vacuity: one term with every operator nested on both sides, unary minus on a numeral,
   on a negative numeral, on zero and on a product, intervals nested both ways *)
Definition c14_big_term : term :=
  TBin AInterval
    (TBin AInterval (TPre (PNum 1)) (TBin AAdd (TVar "X") (TBin AMul (TPre (PNum 2)) (TUn AUNeg (TPre (PNum 5))))))
    (TBin ASub
       (TBin ADiv (TBin ASub (TPre (PNum (-3))) (TUn AUNeg (TPre (PNum (-4))))) (TBin AMod (TVar "Y") (TPre (PSym "a"))))
       (TBin AInterval (TUn AUNeg (TUn AUNeg (TPre (PNum 0)))) (TBin AAdd (TPre PInf) (TBin AAdd (TPre PSup) (TUn AUNeg (TBin AMul (TVar "Z") (TVar "Z"))))))).

(* with the shipped tables it is printed as
     1..X + 2 * -(5)..(-3 - --4) / (Y \ a) - (--0..#inf + (#sup + -(Z * Z)))
   (the bytes are compared with the implementation by op asp_print, not pinned here, so that a
   CONSISTENT edit of both tables does not break an obligation) *)
Example C14_nonvacuous_term :
  parse_term (print_term c14_big_term) = POk (c14_big_term, []) /\
  option_map (fun ts => parse_term ts) (lex (render (print_term c14_big_term))) = Some (POk (c14_big_term, [])).
Proof. repeat split; vm_compute; reflexivity. Qed.

Example C14_nonvacuous_program :
  let p : program :=
    [ mkrule (HChoice (mkatom "p" [c14_big_term; TVar "X"])) [BLit (mklit SDNeg (mkatom "q" [TPre (PNum (-1))])); BCmp (mkcmp ALe (TVar "X") c14_big_term)];
      mkrule HFalsity [];
      mkrule HFalsity [BLit (mklit SNeg (mkatom "r" []))];
      mkrule (HBasic (mkatom "r" [])) [] ] in
  parse_program_text (display_program p) = POk p.
Proof. vm_compute. reflexivity. Qed.

(* ---- the model's own fuel (second audit, B17).  Every non-structural recursion of Model/AspParse.v and
   Model/AspNodes.v runs on a counter computed from the size of its input; an exhausted counter would
   look like a rejection (lex_go, peg_term: None; pratt_expr/nud/loop: PFail) or like a shorter parse
   (skip_layout, peg_tail, parse_more_terms, parse_more_bformulas, parse_rules stop iterating).  These
   are ALL the counters of the model (the other Fixpoints are structural): the three theorems below
   say, for each of them, that the value at the bound used at its call site(s) is the value at EVERY
   larger counter -- so no answer of lex / lex_node / parse_term / parse_program_text / parse_node_text
   is an artefact of the counter.  Call sites: lex = lex_go (S (length s)); lex_node = skip_layout
   (S (length s)), lex_go (S (length r)); parse_term = peg_term (S (length ts)), in it peg_tail
   (peg_term f) (length r), then pratt = pratt_expr (2 * items_size items + 2); parse_term_tuple =
   parse_more_terms (length r'); parse_body / body_toks = parse_more_bformulas (length r);
   parse_program_from = parse_rules (S (length ts)). *)
Open Scope list_scope.
Theorem C14_fuel_lexer :
  (forall f o s, String.length s < f -> lex_go f o s = lex_go (S (String.length s)) o s) /\
  (forall f s, String.length s < f -> skip_layout f s = skip_layout (S (String.length s)) s) /\
  (forall f1 f2 f3 s, String.length s < f1 -> String.length s < f2 -> String.length s < f3 ->
     lex_node_with f1 f2 f3 s = lex_node s).
Proof. exact fuel_lexer. Qed.
Print Assumptions C14_fuel_lexer.

(* in the Pratt phase PFail is an exhausted counter and nothing else (every other arm is POk or PPanic),
   so there the statement is also: it never fails *)
Theorem C14_fuel_term :
  (forall f ts, List.length ts < f -> peg_term f ts = peg_term (S (List.length ts)) ts) /\
  (forall f n ts, List.length ts <= n ->
     peg_tail (peg_term f) n ts = peg_tail (peg_term f) (List.length ts) ts) /\
  (forall F rbp items, 2 * items_size items + 2 <= F ->
     pratt_expr F rbp items = pratt_expr (2 * items_size items + 2) rbp items /\
     pratt_expr F rbp items <> PFail) /\
  (forall items, pratt items <> PFail) /\
  (forall f g ts, List.length ts < f -> (forall items, 2 * items_size items + 2 <= g items) ->
     parse_term_with f g ts = parse_term ts).
Proof. exact fuel_term. Qed.
Print Assumptions C14_fuel_term.

Theorem C14_fuel_lists :
  (forall n ts, List.length ts <= n -> parse_more_terms n ts = parse_more_terms (List.length ts) ts) /\
  (forall n ts, List.length ts <= n ->
     parse_more_bformulas n ts = parse_more_bformulas (List.length ts) ts) /\
  (forall n g ts, List.length ts < n -> parse_rules n g ts = parse_rules (S (List.length ts)) g ts).
Proof. exact fuel_lists. Qed.
Print Assumptions C14_fuel_lists.

(* [lex_node_with] / [parse_term_with] are lex_node / parse_term with the computed counters replaced by
   parameters; at the computed values they ARE lex_node / parse_term *)
Example C14_fuel_with_defs : forall s ts,
  lex_node_with (S (String.length s)) (S (String.length s)) (S (String.length s)) s =
    (if leading_skip s then
       match skip_layout (S (String.length s)) s with
       | String "-" r => option_map (cons TkNeg) (lex_go (S (String.length s)) true r)
       | _ => lex s
       end
     else lex s) /\
  parse_term_with (S (List.length ts)) (fun items => 2 * items_size items + 2) ts = parse_term ts.
Proof. intros. split; reflexivity. Qed.

(* not vacuous: with a counter BELOW the bound the answer does change (so the bound matters), and
   deeply nested / long inputs are parsed at exactly the computed bound *)
Example C14_fuel_nonvacuous :
  lex_go 3 true "a+b" = None /\ lex_go 4 true "a+b" = Some [TkSym "a"; TkBin AAdd; TkSym "b"] /\
  peg_term 2 [TkLP; TkLP; TkNum 1; TkRP; TkRP] = None /\
  parse_term [TkLP; TkLP; TkNum 1; TkRP; TkRP] = POk (TPre (PNum 1), []) /\
  pratt_expr 3 0 [IPre; ILeaf (TVar "X")] = PFail /\
  pratt [IPre; ILeaf (TVar "X")] = POk (TUn AUNeg (TVar "X")) /\
  parse_rules 1 false [TkSym "p"; TkDot; TkSym "q"; TkDot] = POk ([mkrule (HBasic (mkatom "p" [])) []], [TkSym "q"; TkDot]) /\
  parse_program_text "p. q :- ((((((((((((1)))))))))))) = ------------X, not not p(1,2,3,4,5,6,7,8,9,1+2+3+4+5+6+7+8+9)." <> PFail.
Proof. repeat split; try (vm_compute; reflexivity). vm_compute. discriminate. Qed.
