(* C06 — the TPTP rendering of a formula preserves its meaning.
   Statements only; proofs live in Proofs/TptpSem.v, TptpRead.v, TptpMain.v.

   Reading guide (spec layer, trusted by inspection):
   - Syntax/Tff.v      TFF abstract syntax, tokens, byte rendering of tokens;
   - Sem/TffSem.v      truth of a TFF formula in the standard structure ($int = Z, f__integer__ =
                       VNum, f__symbolic__ = VSym, p__less_equal__ = gle, ...), and the TFF
                       structure/assignment [tstruct_of FI M] / [tenv_of e] that corresponds to a
                       source interpretation (names carry the sort suffix _g/_i/_s);
   - Model/TptpPrint.v [tff_read], the TPTP formula grammar as a recursive-descent reader;
                       [tptp_print], the model of anthem's printer (tied to the code by the
                       correspondence run); [wf_tptp], the formulas in the image of anthem's
                       parsers whose identifiers do not collide with suffixes/preamble names. *)
From Coq Require Import List String ZArith NArith Bool.
Import ListNotations.
From Anthem Require Import Syntax.Fol Syntax.Tff Sem.Domain Sem.Sat Sem.TffSem Sem.TffWt Model.Problem Model.TptpPrint
  Model.ProblemPrint Model.TffText
  Proofs.TptpSem Proofs.TptpRead Proofs.TptpMain Proofs.ProblemCtx Proofs.ProblemText.
Open Scope string_scope.
Open Scope list_scope.

(* Every formula anthem renders: the TPTP grammar reads the rendering back as ONE formula g, and g
   has, in the standard structure determined by (FI, M) under the assignment determined by e, the
   truth value of F — for every interpretation of predicates and placeholders and every
   assignment over the infinite standard domain. *)
Theorem C06 :
  forall (F : formula) (toks : list token), wf_tptp F = true -> tptp_print F = Some toks ->
  exists g : tff_formula, tff_read toks = Some g /\
    forall (FI : fint) (M : pint) (e : env),
      tff_sat (tstruct_of FI M) (tenv_of e) g <-> csat FI M e F.
Proof. exact tptp_meaning. Qed.
Print Assumptions C06.

(* the two halves: (ii) parenthesisation — the reader returns exactly the intended reading
   (grouping of chains, nesting of connectives and quantifiers, sorts of variables and constants) *)
Theorem C06_reading :
  forall F : formula, wf_tptp F = true -> tff_read (print_formula F) = Some (tff_of_formula F).
Proof. exact tff_read_print. Qed.
Print Assumptions C06_reading.

(* (i) the intended reading means what F means, under any assignment related to e *)
Theorem C06_meaning :
  forall (FI : fint) (M : pint) (F : formula), wf_tptp F = true ->
  forall (te : tenv) (e : env), (forall n, te n = tenv_of e n) ->
    (tff_sat (tstruct_of FI M) te (tff_of_formula F) <-> csat FI M e F).
Proof. exact tff_of_formula_sat. Qed.
Print Assumptions C06_meaning.

(* rendering is total: it never fails (panics).  Before the repair of finding F3b the statement
   excluded formulas containing the numeral isize::MIN ([no_panic F = true ->]). *)
Theorem C06_total :
  forall F : formula, tptp_print F = Some (print_formula F).
Proof. exact tptp_print_total. Qed.
Print Assumptions C06_total.

(* ================= formulas IN A PROBLEM: constants are interpreted by their declaration =================
   C06/C06_meaning above interpret a constant by the shape of its name ([tstruct_of]: `c_g/_i/_s` is
   a placeholder), so [wf_tptp] had to exclude every symbolic constant that ends in a sort suffix,
   among them every constant `p__s` produced by rename_conflicting_symbols (audit A7).  An emitted
   problem DECLARES its constants (`type_symbol_i` = symbolic constant, `type_function_constant_i`
   = placeholder); [tstruct_in K FI M] interprets constants by such a signature K, and
   [tstruct_of FI M = tstruct_in [] FI M].  The two halves, generalised: *)

(* (ii) reading needs only the lexical half of wf_tptp *)
Theorem C06_reading_lex :
  forall F : formula, wf_lex F = true -> tff_read (print_formula F) = Some (tff_of_formula F).
Proof. exact tff_read_print_lex. Qed.
Print Assumptions C06_reading_lex.

(* (i) meaning needs only that the names are declared as what they are used as *)
Theorem C06_meaning_in :
  forall (K : csig) (FI : fint) (M : pint) (F : formula), names_in K F = true ->
  forall (te : tenv) (e : env), (forall n, te n = tenv_of e n) ->
    (tff_sat (tstruct_in K FI M) te (tff_of_formula F) <-> csat FI M e F).
Proof. exact tff_of_formula_sat_in. Qed.
Print Assumptions C06_meaning_in.

(* the old side condition is the instance K = [] *)
Theorem C06_wf_tptp_split :
  forall F : formula, wf_tptp F = true -> wf_lex F = true /\ names_in [] F = true.
Proof. exact wf_tptp_split. Qed.
Print Assumptions C06_wf_tptp_split.

(* Every formula of a problem outside C09's IdentClass (ident_ok = true: identifiers are lower
   words and declared once, binders are distinct upper words) that is lexically in the parser image:
   the printed tokens are read back as ONE formula g, and g evaluated under the signature the
   problem's own declarations determine has the truth value of the source formula, for every
   interpretation of predicates and placeholders and every assignment. *)
Theorem C06_in_problem :
  forall (pb : problem) (a : pformula), ident_ok pb = true -> In a (pb_formulas pb) ->
  wf_lex (pf_formula a) = true ->
  exists g : tff_formula, tff_read (print_formula (pf_formula a)) = Some g /\
    forall (FI : fint) (M : pint) (e : env),
      tff_sat (tstruct_in (csig_of_decls (tp_decls (emit pb))) FI M) (tenv_of e) g <-> csat FI M e (pf_formula a).
Proof. exact c06_in_problem. Qed.
Print Assumptions C06_in_problem.

(* the same for the problems of the pipeline, from C09's premises *)
Theorem C06_in_pipeline :
  forall (raw : problem) (d : decomposition) (pb : problem) (a : pformula),
  (forall b, In b (pb_formulas raw) -> closed_formula (pf_formula b) = true) ->
  (forall b, In b (pb_formulas raw) -> cmps_nonempty (pf_formula b) = true) ->
  In pb (pipeline raw d) -> ident_ok pb = true -> In a (pb_formulas pb) ->
  exists g : tff_formula, tff_read (print_formula (pf_formula a)) = Some g /\
    forall (FI : fint) (M : pint) (e : env),
      tff_sat (tstruct_in (csig_of_decls (tp_decls (emit pb))) FI M) (tenv_of e) g <-> csat FI M e (pf_formula a).
Proof. exact c06_in_pipeline. Qed.
Print Assumptions C06_in_pipeline.

(* ... and about the EMITTED TEXT: whatever the specification reader makes of the bytes
   [problem_display pb], it contains for every source formula a named formula with that name and
   role whose truth under the signature declared IN THE TEXT is that of the source formula *)
Theorem C06_text :
  forall (pb : problem) (txt : string) (tp : tff_problem), ident_ok pb = true ->
  (forall a, In a (pb_formulas pb) -> wf_lex (pf_formula a) = true) ->
  problem_display pb = Some txt -> read_problem txt = Some tp ->
  forall a, In a (pb_formulas pb) ->
  exists nf : tff_named, In nf (tp_formulas tp) /\ n_name nf = pf_name a /\ n_role nf = tff_role_of (pf_role a) /\
    forall (FI : fint) (M : pint) (e : env),
      tff_sat (tstruct_in (csig_of_decls (tp_decls tp)) FI M) (tenv_of e) (n_formula nf) <-> csat FI M e (pf_formula a).
Proof. exact c06_text. Qed.
Print Assumptions C06_text.

(* ---------- non-vacuity and regression examples ---------- *)
(* audit A7: the chain axiom between a1 and the renamed constant a__s.  Interpreted by suffix the
   constant a__s is the placeholder `a_` of sort symbol; interpreted by declaration it is itself *)
Example C06_ex_renamed_by_declaration :
  let F := FAtomic (ACmp (GSym (SSym "a1")) [mkguard RLt (GSym (SSym "a__s"))]) in
  wf_tptp F = false /\ wf_lex F = true /\ names_in [("a1", CSelf); ("a__s", CSelf)] F = true.
Proof. repeat split; vm_compute; reflexivity. Qed.
(* not 1 <= X <= 3  (finding F1, repaired by a074988): rendered ~(A & B), read back as ~(A & B) *)
Definition ex_f1 : formula :=
  FNot (FAtomic (ACmp (GInt (INum 1)) [mkguard RLe (GVar "X"); mkguard RLe (GInt (INum 3))])).
Example C06_ex_f1_text :
  tptp_format ex_f1 = Some "~(p__less_equal__(f__integer__(1), X_g) & p__less_equal__(X_g, f__integer__(3)))".
Proof. vm_compute. reflexivity. Qed.
Example C06_ex_f1_read :
  wf_tptp ex_f1 = true /\
  tff_read (print_formula ex_f1) =
  Some (TNot (TBin CAnd (TPred "p__less_equal__" [TApp "f__integer__" [TNum 1]; TVar "X_g"])
                        (TPred "p__less_equal__" [TVar "X_g"; TApp "f__integer__" [TNum 3]]))).
Proof. split; vm_compute; reflexivity. Qed.
(* the pre-repair rendering ~A & B is a different formula: (~A) & B *)
Example C06_ex_f1_old :
  tff_read [KNot; KWord "a"; KAnd; KWord "b"] = Some (TBin CAnd (TNot (TPred "a" [])) (TPred "b" [])).
Proof. vm_compute. reflexivity. Qed.
(* the reader rejects mixed chains and chained non-associative connectives *)
Example C06_reader_rejects :
  tff_read [KWord "a"; KAnd; KWord "b"; KOr; KWord "c"] = None /\
  tff_read [KWord "a"; KImp; KWord "b"; KImp; KWord "c"] = None /\
  tff_read [KWord "a"; KAnd; KWord "b"; KImp; KWord "c"] = None.
Proof. repeat split; vm_compute; reflexivity. Qed.
(* mixed sorts, negative numeral, quantifier block *)
Definition ex_mixed : formula :=
  FQ QForall [mkvar "N" SInteger; mkvar "X" SGeneral]
     (FBin CImp (FAtomic (ACmp (GInt (IVar "N")) [mkguard RLt (GInt (INum (-2)))]))
                (FBin COr (FAtomic (AAtom "p" [GVar "X"; GSym (SSym "a")])) (FAtomic (AAtom "q" [])))).
Example C06_ex_mixed_text :
  tptp_format ex_mixed =
  Some "![N_i: $int, X_g: general]: ($less(N_i, $uminus(2)) => (p(X_g, f__symbolic__(a)) | q))".
Proof. vm_compute. reflexivity. Qed.
(* p(-9223372036854775808)  (finding F3b, repaired: the rendering of isize::MIN panicked in debug
   builds): rendered with the magnitude 2^63, read back as $uminus(2^63) *)
Definition ex_f3b : formula := FAtomic (AAtom "p" [GInt (INum isize_min)]).
Example C06_ex_f3b_text :
  tptp_format ex_f3b = Some "p(f__integer__($uminus(9223372036854775808)))".
Proof. vm_compute. reflexivity. Qed.
Example C06_ex_f3b_read :
  wf_tptp ex_f3b = true /\
  tff_read (print_formula ex_f3b) =
  Some (TPred "p" [TApp "f__integer__" [TApp "$uminus" [TNum 9223372036854775808]]]).
Proof. split; vm_compute; reflexivity. Qed.
