(* C19 - Simplify, eq-break and decomposition flags never change the claim verified.
   Statements only; proofs live in Proofs/BreakOk.v, DecomposeOk.v, StrongOk.v, ExternalOk.v.
   An interpretation is a pair (FI, M): values of the placeholders, extents of the predicates, over
   the infinite standard domain; a problem formula means its universal closure (cvalid).
   [refutes FI M pb]: all axioms of pb are true and some conjecture of pb is false.
   [refutes_some FI M pbs]: some problem of the family is refuted. *)
From Coq Require Import List String ZArith.
Import ListNotations.
From Anthem Require Import Syntax.Fol Syntax.Asp Sem.Domain Sem.Sat Model.Break Model.Problem Model.Strong
  Model.Outline Model.External Model.StrongFull Proofs.BreakOk Proofs.DecomposeOk Proofs.StrongOk Proofs.ExternalOk
  Proofs.StrongFullOk.
Open Scope string_scope.

(* equivalence breaking: a formula and the formulas it is split into are satisfied by the same
   interpretations under every assignment ... *)
Theorem C19_break_pointwise :
  forall (FI : fint) (M : pint) (F : formula) (e : env),
    csat FI M e F <-> (forall G, In G (break_equivalences_formula F) -> csat FI M e G).
Proof. exact break_csat. Qed.
Print Assumptions C19_break_pointwise.

(* ... hence as problem formulas (universal closure) *)
Theorem C19_break :
  forall (FI : fint) (M : pint) (F : formula),
    cvalid FI M F <-> (forall G, In G (break_equivalences_formula F) -> cvalid FI M G).
Proof. exact break_cvalid. Qed.
Print Assumptions C19_break.

(* the same at the here-and-there level (the function is only called after gamma, so this is not
   needed by the tasks; it holds anyway) *)
Theorem C19_break_ht :
  forall (FI : fint) (H T : pint) (F : formula) (e : env),
    hsat FI H T e F <-> (forall G, In G (break_equivalences_formula F) -> hsat FI H T e G).
Proof. exact break_hsat. Qed.
Print Assumptions C19_break_ht.

Theorem C19_break_theory :
  forall (FI : fint) (M : pint) (t : theory),
    (forall F, In F t -> cvalid FI M F) <-> (forall G, In G (break_equivalences_theory t) -> cvalid FI M G).
Proof. exact break_theory_cvalid. Qed.
Print Assumptions C19_break_theory.

(* decomposition: both strategies are refuted by exactly the interpretations that satisfy all
   axioms of the problem and falsify one of its conjectures *)
Theorem C19_dec :
  forall (FI : fint) (M : pint) (pb : problem),
    (refutes_some FI M (decompose_independent pb) <-> refutes FI M pb) /\
    (refutes_some FI M (decompose_sequential pb) <-> refutes FI M pb).
Proof. intros FI M pb. split; [exact (independent_refutes FI M pb)|exact (sequential_refutes FI M pb)]. Qed.
Print Assumptions C19_dec.

Theorem C19_dec_same_refutation_set :
  forall (FI : fint) (M : pint) (pb : problem),
    refutes_some FI M (decompose_independent pb) <-> refutes_some FI M (decompose_sequential pb).
Proof. exact independent_sequential. Qed.
Print Assumptions C19_dec_same_refutation_set.

(* strong-equivalence tasks: two tasks over the same programs, representation and direction that
   differ in any of the three flags are refuted by the same interpretations - composed from
   C19_break, C19_dec, C05 (gamma) and the hypotheses that the two simplification steps preserve
   meaning and introduce no predicates (to be discharged by C07 / C01 / C08 after merging).
   [no_symbol_pred_clash]: no symbol of an emitted formula equals a 0-ary predicate of its problem
   (outside this class rename_conflicting_symbols changes the meaning: finding F8b of C03). *)
Theorem C19_strong_modulo_simplify :
  forall (tau_star mu : program -> theory) (simp_ht simp_classic : formula -> formula),
    (forall FI H T f, sub H T -> (hvalid FI H T (simp_ht f) <-> hvalid FI H T f)) ->
    (forall FI M f, cvalid FI M (simp_classic f) <-> cvalid FI M f) ->
    (forall P f p, In f (tau_star P) -> In p (predicates f) -> In p (program_preds P)) ->
    (forall P f p, In f (mu P) -> In p (predicates f) -> In p (program_preds P)) ->
    (forall f p, In p (predicates (simp_ht f)) -> In p (predicates f)) ->
    forall t t' : strong_task,
      st_left t = st_left t' /\ st_right t = st_right t' /\
      st_direction t = st_direction t' /\ st_repr t = st_repr t' ->
      no_symbol_pred_clash tau_star mu simp_ht simp_classic t ->
      no_symbol_pred_clash tau_star mu simp_ht simp_classic t' ->
      forall (FI : fint) (M : pint),
        refutes_some FI M (strong_decompose tau_star mu simp_ht simp_classic t) <->
        refutes_some FI M (strong_decompose tau_star mu simp_ht simp_classic t').
Proof. exact C19_strong_modulo_simplify_proof. Qed.
Print Assumptions C19_strong_modulo_simplify.

(* C19 for strong tasks with the REAL components (end-to-end model Model/StrongFull.v): the
   hypotheses of C19_strong_modulo_simplify are discharged (Proofs/StrongFullOk.v: C07 for both
   fixpoint simplifications incl. "predicates not enlarged", C01 / C08 for the vocabulary of
   tau-star / mu).  Two tasks with the same programs, representation and direction and ANY values of
   the simplify, eq-break and decomposition flags - in particular all 8 combinations - whose
   problem lists the model computes ([SOk]: no overflow panic F11, [fuel] passes of the post-gamma
   fixpoint loop sufficed - for EVERY fuel; sufficiently large fuels always suffice,
   C03_never_nonterminating, and give the same lists, C03_fuel_monotone) are refuted by exactly the
   same interpretations. *)
Theorem C19_strong :
  forall (fuel : nat) (t t' : strong_task) (pbs pbs' : list problem),
    st_left t = st_left t' /\ st_right t = st_right t' /\
    st_direction t = st_direction t' /\ st_repr t = st_repr t' ->
    strong_decompose_full_fuel fuel t = SOk pbs -> strong_decompose_full_fuel fuel t' = SOk pbs' ->
    no_symbol_pred_clash_full_fuel fuel t -> no_symbol_pred_clash_full_fuel fuel t' ->
    forall (FI : fint) (M : pint), refutes_some FI M pbs <-> refutes_some FI M pbs'.
Proof. exact C19_strong_fuel_proof. Qed.
Print Assumptions C19_strong.

(* external-equivalence tasks, eq-break and decomposition flags (the simplify flag changes the
   component output handed to the assembly; see C19_external_modulo_simplify below): two validated
   tasks that differ only in these two flags are refuted by the same interpretations.
   [validated_no_clash]: no symbol of a formula of the task is a 0-ary predicate of a formula of the
   task (then rename_conflicting_symbols is the identity on every emitted problem). *)
Theorem C19_external_break_dec :
  forall (vt vt' : validated_task),
    vt_left vt = vt_left vt' -> vt_right vt = vt_right vt' ->
    vt_user_guide_assumptions vt = vt_user_guide_assumptions vt' ->
    vt_proof_outline vt = vt_proof_outline vt' -> vt_direction vt = vt_direction vt' ->
    forall w pbs w' pbs',
      validated_decompose vt = Ok (w, pbs) -> validated_decompose vt' = Ok (w', pbs') ->
      validated_no_clash vt -> validated_no_clash vt' ->
      forall (FI : fint) (M : pint), refutes_some FI M pbs <-> refutes_some FI M pbs'.
Proof. exact external_break_dec. Qed.
Print Assumptions C19_external_break_dec.

(* non-vacuity: an equivalence under a universal prefix is really split, and a problem with two
   conjectures is really refuted by an interpretation falsifying only the second one *)
Example C19_break_nonvacuous :
  break_equivalences_formula
    (FQ QForall [mkvar "X" SGeneral] (FBin CIff (FAtomic (AAtom "p" [GVar "X"])) (FAtomic (AAtom "q" [GVar "X"]))))
  = [FQ QForall [mkvar "X" SGeneral] (FBin CImp (FAtomic (AAtom "p" [GVar "X"])) (FAtomic (AAtom "q" [GVar "X"])));
     FQ QForall [mkvar "X" SGeneral] (FBin CRimp (FAtomic (AAtom "p" [GVar "X"])) (FAtomic (AAtom "q" [GVar "X"])))].
Proof. reflexivity. Qed.

Example C19_dec_nonvacuous :
  let pb := mkproblem "pb" [mkpf "a" PAxiom (FAtomic (AAtom "p" [])); mkpf "c0" PConjecture (FAtomic (AAtom "p" []));
                            mkpf "c1" PConjecture (FAtomic (AAtom "q" []))] in
  let FI := mkfint (fun _ => VInf) (fun _ => 0%Z) (fun _ => "") in
  let M : pint := fun p a => p = "p" in
  refutes FI M pb /\ List.length (decompose_sequential pb) = 2 /\ List.length (decompose_independent pb) = 2.
Proof.
  cbv zeta. split; [|split; reflexivity]. split.
  - intros a [<-|[]]. intros e. reflexivity.
  - eexists. split; [right; left; reflexivity|]. intros Hv.
    specialize (Hv (mkenv (fun _ => VInf) (fun _ => 0%Z) (fun _ => ""))). cbn in Hv. discriminate.
Qed.
