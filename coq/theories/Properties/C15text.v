(* C15, text level - the lexical step that turns the token-level round trip of Properties/C15.v into a
   statement about BYTES: the char-level lexer model (Model/FolLex.v) reads the bytes of Display
   ([render] of the printers' token lists, with the printers' spacing) back as exactly the printed tokens,
   layout dropped.  Statements only; proofs live in Proofs/FolLexRT.v (lexer) and Proofs/FolLexOk.v
   (printers, composition).

   Objects: Model/FolPrint.v ([print_* true] = tokens incl. layout, [render] = bytes, [show_*] = render of
   print, [strip] drops TSp/TNl), Model/FolLex.v ([lex]), Model/FolParse.v ([parse_*_str] = lex, then the
   token-level parser, then the range checks), Model/FolClass.v ([wf_*], [known_class_*] = F7b, C15-RIMP).

   No exclusion is needed for the lexical step itself: F7b and C15-RIMP are phenomena of the token-level
   parser.  The lexer model is tied to pest's behaviour on grammar.pest by correspondence only. *)
From Coq Require Import List Ascii String ZArith NArith.
Import ListNotations.
From Anthem Require Import Syntax.Fol Gen.TablesFol Model.FolPrint Model.FolLex Model.FolParse Model.FolClass.
From Anthem Require Import Proofs.FolLexRT Proofs.FolLexOk.
Open Scope string_scope.

(* ---------- the lexer on a token list with safe neighbours ---------- *)
(* [lexable ts]: every token of ts is one the printers write (no TFunBare / TRimpNeg / TBad), names are in
   their lexical class (TWord / TFun: is_symbol_name, TVar: is_variable_name), a negative numeral is
   non-zero, and the text that FOLLOWS the token begins with a character that cannot fuse with it:
     after a word, a sorted word, a numeral, a relation, "<-" or inductive-lemma: end of text, blank,
       newline, or one of ( ) [ ] , . : /      ([sep_next]);
     after "-": anything but [1-9] and ">"     ([minus_next]);
     after every other token: anything.
   Then lexing the rendering gives back the tokens, layout dropped. *)
Theorem C15_lex_lexable : forall ts : list token, lexable ts -> lex (render ts) = Some (strip ts).
Proof. exact lex_lexable. Qed.
Print Assumptions C15_lex_lexable.

(* one token: lexing its spelling followed by a safe rest yields it and continues on the rest *)
Theorem C15_lex_token :
  forall (f : nat) (t : token) (l : list ascii), tok_ok t l = true ->
  lex_go (S f) (chars (tok_str t) ++ l)%list = (if is_layout t then lex_go f l else cons_tok t (lex_go f l)).
Proof. exact lex_step. Qed.
Print Assumptions C15_lex_token.

(* ---------- C15_lex_render: the printers' output is lexable ---------- *)
Theorem C15_lex_render_theory :
  forall t : theory, wf_theory t = true -> lex (render (print_theory true t)) = Some (strip (print_theory true t)).
Proof. exact lex_render_theory. Qed.
Print Assumptions C15_lex_render_theory.
Theorem C15_lex_render_specification :
  forall s : specification, wf_spec s = true -> lex (render (print_spec true s)) = Some (strip (print_spec true s)).
Proof. exact lex_render_spec. Qed.
Print Assumptions C15_lex_render_specification.
Theorem C15_lex_render_user_guide :
  forall u : user_guide, wf_ug u = true -> lex (render (print_ug true u)) = Some (strip (print_ug true u)).
Proof. exact lex_render_ug. Qed.
Print Assumptions C15_lex_render_user_guide.

(* the fragments, continuation-passing: a printed formula followed by any lexable rest whose text begins
   with a separator is lexable (terms, atoms, comparisons, annotated formulas, user-guide entries alike) *)
Theorem C15_lexable_formula :
  forall (f : formula) (rest : list token), wf_formula f = true -> lexable rest -> sep_next (rchars rest) = true ->
  lexable (print_formula true f ++ rest)%list.
Proof. intros f rest W. exact (K_formula f W rest). Qed.
Print Assumptions C15_lexable_formula.

(* the one place where the parenthesisation of the printer matters for the LEXER: the operand of a unary
   minus that is printed without parentheses does not begin with a positive numeral ("-5" would be one
   token); from the generated table: Numeral(1..) has precedence above unary minus *)
Theorem C15_neg_operand :
  forall a : iterm, paren_unary (iprec (IUn UNeg a)) (iprec a) (imand a) = false -> starts_pos a = false.
Proof. exact neg_body_not_pos. Qed.
Print Assumptions C15_neg_operand.

(* ---------- C15_text: the round trip on bytes ---------- *)
Theorem C15_text_theory :
  forall t : theory, wf_theory t = true -> known_class_theory t = None ->
  parse_theory_str (show_theory t) = PR_ok t.
Proof. exact text_theory. Qed.
Print Assumptions C15_text_theory.
Theorem C15_text_specification :
  forall s : specification, wf_spec s = true -> known_class_spec s = None ->
  parse_spec_str (show_spec s) = PR_ok s.
Proof. exact text_spec. Qed.
Print Assumptions C15_text_specification.
Theorem C15_text_user_guide :
  forall u : user_guide, wf_ug u = true -> known_class_ug u = None ->
  parse_ug_str (show_ug u) = PR_ok u.
Proof. exact text_ug. Qed.
Print Assumptions C15_text_user_guide.

(* ---------- every accepted text (the parser image is inside wf, see the C15_image theorems) ---------- *)
(* parse s = t, t outside the known classes: the printed text of t is accepted and parses to t, and
   whatever it parses to prints the same bytes (display (parse (display t)) = display t) *)
Theorem C15_accepted_text_theory :
  forall (s : string) (t : theory), parse_theory_str s = PR_ok t -> known_class_theory t = None ->
  parse_theory_str (show_theory t) = PR_ok t /\
  (forall t', parse_theory_str (show_theory t) = PR_ok t' -> show_theory t' = show_theory t).
Proof. exact accepted_theory. Qed.
Print Assumptions C15_accepted_text_theory.
Theorem C15_accepted_text_specification :
  forall (s : string) (t : specification), parse_spec_str s = PR_ok t -> known_class_spec t = None ->
  parse_spec_str (show_spec t) = PR_ok t /\
  (forall t', parse_spec_str (show_spec t) = PR_ok t' -> show_spec t' = show_spec t).
Proof. exact accepted_spec. Qed.
Print Assumptions C15_accepted_text_specification.
Theorem C15_accepted_text_user_guide :
  forall (s : string) (t : user_guide), parse_ug_str s = PR_ok t -> known_class_ug t = None ->
  parse_ug_str (show_ug t) = PR_ok t /\
  (forall t', parse_ug_str (show_ug t) = PR_ok t' -> show_ug t' = show_ug t).
Proof. exact accepted_ug. Qed.
Print Assumptions C15_accepted_text_user_guide.

(* ---------- non-vacuity and witnesses (vm_compute on the executable models) ---------- *)
(* the lexical hazards in one theory: -5 / -(5) / --5 / -0 / - between terms, sorted names before ")" and
   ",", a predicate named like a role keyword prefix, keyword-named constants, "<-" before a blank,
   nested quantifiers *)
Definition ex_hazards : string :=
  "p(-5, -(5), --5, -0, 1 - -1, X$i - 1, -X$i, -c$i, c$s, Y$s, d$g, Z) and inductive(lemma). forall X$i Y (X$i < -1 <= Y -> exists Z$s (Z$s = and or not q(notX))). (a <- b) <- #true. not not _x(_Y, #inf, #sup) <-> #false.".
Example C15text_nonvacuous :
  exists t, parse_theory_str ex_hazards = PR_ok t /\ wf_theory t = true /\ known_class_theory t = None /\
            List.length t = 4 /\
            lexable (print_theory true t) /\
            lex (show_theory t) = Some (strip (print_theory true t)) /\
            parse_theory_str (show_theory t) = PR_ok t.
Proof.
  destruct (parse_theory_str ex_hazards) as [t| | |] eqn:E; try (vm_compute in E; discriminate).
  exists t. split; [reflexivity|].
  assert (W : wf_theory t = true) by (apply (FolImage.image_theory_str _ _ E)).
  vm_compute in E. injection E as <-.
  split; [exact W|]. split; [vm_compute; reflexivity|]. split; [reflexivity|].
  split; [apply lexable_theory; exact W|]. split; [apply lex_render_theory; exact W|].
  vm_compute. reflexivity.
Qed.

(* the lexical step does not need the exclusions: the C15-RIMP witness lexes back to its own tokens
   (it is the token-level parser that reads "<-" "1" as "<" "-1") *)
Example C15text_RIMP_is_not_lexical :
  let t := [FBin CRimp (FAtomic (AAtom "p" [])) (FAtomic (ACmp (GInt (INum 1)) [mkguard REq (GInt (INum 1))]))] in
  known_class_theory t = Some "C15-RIMP" /\
  lex (show_theory t) = Some (strip (print_theory true t)) /\
  parse_theory_str (show_theory t) <> PR_ok t.
Proof. vm_compute. repeat split. discriminate. Qed.

(* [wf] is needed: a name outside its lexical class does not lex back (here a symbolic constant "P") *)
Example C15text_wf_needed :
  let t := [FAtomic (AAtom "P" [])] in
  wf_theory t = false /\ known_class_theory t = None /\
  lex (show_theory t) <> Some (strip (print_theory true t)).
Proof. vm_compute. repeat split. discriminate. Qed.

(* the unsafe neighbours really fuse in the lexer model (why [lexable] asks for what it asks) *)
Example C15text_fusions :
  lex (render [TMinus; TNum 5]) = Some [TNegNum 5] /\
  lex (render [TRimp; TNum 1]) = Some [TRimpNeg 1] /\
  lex (render [TRel RLt; TMinus; TSp; TNum 1]) = Some [TRimp; TNum 1] /\
  lex (render [TMinus; TRel RGt]) = Some [TImp] /\
  lex (render [TVar "X" SInteger; TWord "nteger"]) = Some [TVar "X" SInteger] /\
  lex (render [TWord "inductive"; TMinus; TWord "lemma"; TColon]) = Some [TIndLemma; TColon] /\
  lex (render [TWord "a"; TWord "b"]) = Some [TWord "ab"].
Proof. vm_compute. repeat split. Qed.
