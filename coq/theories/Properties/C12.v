(* C12 — the axioms anthem adds on its own are true in every standard interpretation.
   Statements only; proofs live in Proofs/PreambleOk.v and Proofs/ChainOk.v.

   - Gen/Preamble.v is REGENERATED from /repo/src/verifying/problem/standard_interpretation.p on
     every build (tools/regen.py): each `axiom` of the file as a Coq Prop over an abstract
     structure [tff_structure] for the declared signature, and the list [preamble_axioms].
   - [std_structure] (Proofs/PreambleOk.v): general = gval, symbol = string, f__integer__ = VNum,
     f__symbolic__ = VSym, c__infimum__/c__supremum__ = VInf/VSup, p__less_equal__ = gle, ...
   - Model/ProblemPrint.v [symbol_order]: symbols.sort_unstable() + windows(2);
     Model/Transition.v [transition_axioms]: StrongEquivalenceTask::transition_axioms. *)
From Coq Require Import List String ZArith.
Import ListNotations.
From Anthem Require Import Syntax.Fol Syntax.Asp Sem.Domain Sem.Sat Model.Problem Model.ProblemPrint
  Model.Transition Proofs.GammaOk Gen.Preamble Proofs.PreambleOk Proofs.StrongOk Proofs.ChainOk Proofs.ChainRename Model.ChainClass Proofs.ChainMonotone.
Open Scope string_scope.

(* every axiom of the preamble holds in the standard structure: all of Z, all strings *)
Theorem C12_preamble :
  Forall (fun ax : string * (tff_structure -> Prop) => snd ax std_structure) preamble_axioms.
Proof. exact preamble_ok. Qed.
Print Assumptions C12_preamble.

(* every emitted symbol_order axiom is true under every interpretation of predicates and
   placeholders and every assignment WHEN EVERY PRINTED NAME DENOTES ITSELF (the standard order of
   symbols is the lexicographic byte order).  [p] is the problem as printed, i.e. AFTER
   Problem::rename_conflicting_symbols: a constant `a` that equals a 0-ary predicate of the problem
   is printed `a__s`, and this theorem reads `a__s` as the string "a__s" - NOT as the program
   constant `a` it stands for.  For the constants the names stand for the chain can be false:
   C12_chain_refuted_after_rename below (audit A2; findings F8b, F8c).  PARTIAL in that sense. *)
Theorem C12_chain_true :
  forall (p : problem) (f : formula), In f (symbol_order p) ->
  forall (FI : fint) (M : pint) (e : env), csat FI M e f.
Proof. exact chain_true. Qed.
Print Assumptions C12_chain_true.

(* The chain read through the renaming.  p is the problem BEFORE rename_conflicting_symbols;
   renamed_symbol p s = s ++ "__s" if s/0 is a predicate of p, else s (the name printed for s);
   chain_true_for_originals p := every axiom `x < y` of the chain printed for the renamed problem
   holds for all constants s1, s2 of p printed as x, y.
   REFUTED: the problem anthem builds for  `a. q :- a, a1 < a.`  vs  `a. q :- a.`
   (output: q/0. output: a/0.): the constant a is printed a__s, the emitted axiom is
   p__less__(f__symbolic__(a1), f__symbolic__(a__s)); it is true of the strings "a1", "a__s" and
   false of the constants a1, a.  A genuine defect (the problems of two non-equivalent programs
   all become provable); known findings F8c (C02, C12) and F8b (C03). *)
Theorem C12_chain_refuted_after_rename :
  ~ chain_true_for_originals pb_f8c /\
  (forall (FI : fint) (M : pint) (e : env),
     csat FI M e (symbol_order_formula ("a1", "a__s")) /\ ~ csat FI M e (symbol_order_formula ("a1", "a"))).
Proof. exact chain_refuted_after_rename. Qed.
Print Assumptions C12_chain_refuted_after_rename.

(* ... and with it the meaning of the program's own comparison *)
Theorem C12_rename_changes_meaning :
  let conf := filter (fun q => Nat.eqb (parity q) 0) (problem_predicates pb_f8c) in
  rcs_formula conf (cmp_lt "a1" "a") = cmp_lt "a1" "a__s" /\
  forall (FI : fint) (M : pint) (e : env),
    ~ csat FI M e (cmp_lt "a1" "a") /\ csat FI M e (rcs_formula conf (cmp_lt "a1" "a")).
Proof. exact rename_changes_meaning. Qed.
Print Assumptions C12_rename_changes_meaning.

(* the exclusion class: if no symbolic constant of the problem equals a 0-ary predicate of the
   problem (no_clash_problem p, equivalently: rename_conflicting_symbols renames nothing), the
   emitted chain is true for the original constants *)
Theorem C12_chain_true_original :
  forall p : problem, no_clash_problem p -> chain_true_for_originals p.
Proof. exact chain_true_original. Qed.
Print Assumptions C12_chain_true_original.

Theorem C12_no_clash_iff_nothing_renamed :
  forall p : problem, no_clash_problem p <-> renamed_symbols p = [].
Proof. exact no_clash_problem_iff_nothing_renamed. Qed.
Print Assumptions C12_no_clash_iff_nothing_renamed.

(* the chain runs through every symbolic constant of the (printed) problem; after a renaming two
   constants may have been merged (`a` and a user constant `a__s`): the statement is about the
   printed vocabulary *)
Theorem C12_chain_covers :
  forall (p : problem) (s : string), In s (problem_symbols p) ->
  In s (sort_strings (problem_symbols p)) /\
  (2 <= List.length (problem_symbols p) ->
   exists ab, In ab (windows2 (sort_strings (problem_symbols p))) /\ (fst ab = s \/ snd ab = s)).
Proof. exact chain_covers. Qed.
Print Assumptions C12_chain_covers.

(* distinctness is PROVABLE from the emitted axioms: in any structure A for the preamble's
   signature satisfying the definition of p__less__, transitivity and antisymmetry of
   p__less_equal__ (three axioms of the preamble), under any interpretation csym of the symbolic
   constants, the chain axioms imply that distinct constants of the problem are distinct *)
Theorem C12_distinct :
  forall (A : tff_structure) (csym : string -> symbol A),
  ax_p__less__def_ax A -> ax_transitive_ordering_ax A -> ax_antisymmetric_ordering_ax A ->
  forall p : problem,
  (forall ab, In ab (windows2 (sort_strings (problem_symbols p))) ->
     p__less__ A (f__symbolic__ A (csym (fst ab))) (f__symbolic__ A (csym (snd ab)))) ->
  forall a b, In a (problem_symbols p) -> In b (problem_symbols p) -> a <> b ->
    f__symbolic__ A (csym a) <> f__symbolic__ A (csym b) /\ csym a <> csym b.
Proof. exact chain_implies_distinct. Qed.
Print Assumptions C12_distinct.

(* h-implies-t: in every classical interpretation arising from an HT interpretation H subset-of T
   (merge H T gives "h"++p the extent of p in H and "t"++p its extent in T) every transition axiom
   of a strong-equivalence task is true *)
Theorem C12_transition :
  forall (H T : pint), sub H T ->
  forall (FI : fint) (left right : program) (f : formula), In f (transition_axioms left right) ->
  forall e : env, csat FI (merge H T) e f.
Proof. exact transition_axioms_true. Qed.
Print Assumptions C12_transition.

(* The exact boundary of the class of finding F8c (Model/ChainClass.v, Proofs/ChainMonotone.v).
   printed_symbol p s = renamed_symbol p s (the name printed for the constant s of p);
   rename_monotoneb p (executable, extracted into the oracle sem_chain_orig) := for all constants
   s1, s2 of p:  s1 < s2  ->  printed s1 < printed s2  (byte order; strict, hence injective);
   rename_injective p := no two constants of p are printed under one name.
   Inside the decidable premise every emitted chain axiom is true for the ORIGINAL constants ... *)
Theorem C12_chain_true_monotone :
  forall p : problem, rename_monotoneb p = true -> chain_true_for_originals p.
Proof. exact chain_true_monotone. Qed.
Print Assumptions C12_chain_true_monotone.

(* ... and the premise is exactly the boundary: the chain is sound for the original constants
   (all axioms true, no merge) IFF the renaming is strictly monotone on the constants of p *)
Theorem C12_chain_sound_iff_monotone :
  forall p : problem, rename_monotoneb p = true <-> chain_true_for_originals p /\ rename_injective p.
Proof. exact chain_sound_iff_monotone. Qed.
Print Assumptions C12_chain_sound_iff_monotone.

(* the constants of the problem that is printed are exactly the printed names of the constants of p *)
Theorem C12_renamed_problem_symbols :
  forall (p : problem) (x : string),
  In x (problem_symbols (rename_conflicting_symbols p)) <-> exists s, In s (problem_symbols p) /\ x = printed_symbol p s.
Proof. exact renamed_problem_symbols. Qed.
Print Assumptions C12_renamed_problem_symbols.

(* ---------- non-vacuity ---------- *)
Definition ex_pb : problem :=
  mkproblem "ex" [mkpf "f" PAxiom (FAtomic (AAtom "p" [GSym (SSym "b"); GSym (SSym "a"); GSym (SSym "aB")]))].
(* byte order: "a" < "aB" < "b" *)
Example C12_ex_chain :
  windows2 (sort_strings (problem_symbols ex_pb)) = [("a", "aB"); ("aB", "b")].
Proof. vm_compute. reflexivity. Qed.
(* the witness problem of C12_chain_refuted_after_rename: the chain before and after renaming *)
Example C12_ex_f8c :
  windows2 (sort_strings (problem_symbols pb_f8c)) = [("a", "a1")] /\
  windows2 (sort_strings (problem_symbols (rename_conflicting_symbols pb_f8c))) = [("a1", "a__s")] /\
  renamed_symbols pb_f8c = ["a"].
Proof. exact f8c_chain. Qed.
(* C12_chain_true_original is not vacuous: ex_pb has no clash *)
Example C12_ex_no_clash : no_clash_problem ex_pb /\ chain_true_for_originals ex_pb.
Proof.
  assert (H : no_clash_problem ex_pb) by (apply C12_no_clash_iff_nothing_renamed; vm_compute; reflexivity).
  split; [exact H|exact (C12_chain_true_original ex_pb H)].
Qed.
(* a chain built from the UNSORTED list would assert b < a, which is false *)
Example C12_ex_unsorted_false :
  forall FI M e, ~ csat FI M e (symbol_order_formula ("b", "a")).
Proof. intros FI M e. cbn. discriminate. Qed.
(* the transition axiom of q/0 is the unquantified hq -> tq *)
Example C12_ex_transition :
  transition (mkpred "q" 0) = FBin CImp (FAtomic (AAtom "hq" [])) (FAtomic (AAtom "tq" [])).
Proof. vm_compute. reflexivity. Qed.
(* the transition axiom really needs H subset-of T *)
Example C12_ex_transition_needs_sub :
  let H : pint := fun p a => p = "q" in
  let T : pint := fun p a => False in
  forall FI e, ~ csat FI (merge H T) e (transition (mkpred "q" 0)).
Proof. cbv zeta. intros FI e Hc. vm_compute in Hc. apply Hc. reflexivity. Qed.
(* C12_chain_true_monotone is not vacuous and covers renamed constants: pb_ab, the problem anthem
   builds for `a. q :- a, a < b.` (demo input of the seeded change C12_r4), has the clash a / a/0, is
   inside the premise, and its chain is a__s < b *)
Example C12_ex_monotone :
  rename_monotoneb pb_ab = true /\ renamed_symbols pb_ab = ["a"] /\
  windows2 (sort_strings (problem_symbols (rename_conflicting_symbols pb_ab))) = [("a__s", "b")] /\
  chain_true_for_originals pb_ab.
Proof.
  destruct pb_ab_monotone as [H1 [H2 H3]]. repeat split; try assumption. exact (C12_chain_true_monotone pb_ab H1).
Qed.
(* converse witnesses: the recorded input of F8c and the merge (constants a and a__s next to the
   predicate a/0) are outside the premise *)
Example C12_ex_not_monotone :
  rename_monotoneb pb_f8c = false /\ rename_monotoneb pb_merge = false /\
  printed_symbol pb_merge "a" = printed_symbol pb_merge "a__s" /\ ~ rename_injective pb_merge.
Proof.
  split; [exact f8c_not_monotone|]. destruct merge_not_monotone as [H1 [H2 H3]]. repeat split; try assumption.
  intros H. specialize (H "a" "a__s" ltac:(vm_compute; auto) ltac:(vm_compute; auto) H2). discriminate.
Qed.
