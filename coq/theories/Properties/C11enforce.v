(* C11 (enforcement part) - the applicability conditions of an external-equivalence task are
   enforced before any obligation is emitted.  Statements only; proofs in Proofs/ExternalOk.v.
   The analyses (is_tight, has_private_recursion) and translations are parameters of the task model
   (Model/External.v); the seven conditions are decidable predicates over the task:
     c_tight                       both programs tight, unless --bypass-tightness
     c_no_private_recursion        both programs free of private recursion
     c_no_input_in_head            no input predicate heads a rule (either program)
     c_io_disjoint                 input and output declarations disjoint
     c_ug_assumptions_inputs_only  user-guide assumptions mention only input predicates
     c_spec_assumptions_no_output  specification assumptions mention no output predicate
     c_placeholders_single_sorted  no placeholder declared with two sorts *)
From Coq Require Import List String ZArith Bool Lia.
Import ListNotations.
From Anthem Require Import Syntax.Fol Syntax.Asp Model.Problem Model.Outline Model.Strong Model.External Model.Tightness Model.PrivRec Model.Completion Proofs.ExternalOk Proofs.TasksClosed.
Open Scope string_scope.

Theorem C11_enforce :
  forall (is_tight : program -> bool) (has_private_recursion : program -> list pred -> bool)
         (tau_star : program -> theory) (completion : theory -> list pred -> option theory)
         (simp_classic : formula -> formula) (t : ext_task) w pbs,
    external_decompose is_tight has_private_recursion tau_star completion simp_classic t = Ok (w, pbs) ->
    c_tight is_tight t = true /\ c_no_private_recursion has_private_recursion t = true /\
    c_no_input_in_head t = true /\ c_io_disjoint t = true /\ c_ug_assumptions_inputs_only t = true /\
    c_spec_assumptions_no_output t = true /\ c_placeholders_single_sorted t = true.
Proof. exact enforce. Qed.
Print Assumptions C11_enforce.

(* the same with the analyses instantiated by their models (Model/Tightness.is_tight,
   Model/PrivRec.has_private_recursion, Model/Completion.completion; exactness of these: C11tight, C04) *)
Theorem C11_enforce_instantiated :
  forall (tau_star : program -> theory) (simp_classic : formula -> formula) (t : ext_task) w pbs,
    external_decompose is_tight has_private_recursion tau_star completion simp_classic t = Ok (w, pbs) ->
    c_tight is_tight t = true /\ c_no_private_recursion has_private_recursion t = true /\
    c_no_input_in_head t = true /\ c_io_disjoint t = true /\ c_ug_assumptions_inputs_only t = true /\
    c_spec_assumptions_no_output t = true /\ c_placeholders_single_sorted t = true.
Proof. exact enforce_instantiated. Qed.
Print Assumptions C11_enforce_instantiated.

(* THE ENFORCEMENT DIRECTION (audit A11): a task that violates one of the seven conditions is
   REFUSED WITH AN ERROR VALUE - the validation returns Err e (it never panics and never lets the
   task through), and so does the whole decompose(): no translation is run, nothing is emitted. *)
Theorem C11_violation_refused :
  forall (is_tight : program -> bool) (has_private_recursion : program -> list pred -> bool)
         (tau_star : program -> theory) (completion : theory -> list pred -> option theory)
         (simp_classic : formula -> formula) (t : ext_task),
    ~ (c_tight is_tight t = true /\ c_no_private_recursion has_private_recursion t = true /\
       c_no_input_in_head t = true /\ c_io_disjoint t = true /\ c_ug_assumptions_inputs_only t = true /\
       c_spec_assumptions_no_output t = true /\ c_placeholders_single_sorted t = true) ->
    exists err,
      external_validate is_tight has_private_recursion t = Err err /\
      external_decompose is_tight has_private_recursion tau_star completion simp_classic t = Err err.
Proof.
  intros it hp ts cp sc t Hn. apply violation_refused.
  unfold all_seven.
  destruct (c_tight it t); [|reflexivity].
  destruct (c_no_private_recursion hp t); [|reflexivity].
  destruct (c_no_input_in_head t); [|reflexivity].
  destruct (c_io_disjoint t); [|reflexivity].
  destruct (c_ug_assumptions_inputs_only t); [|reflexivity].
  destruct (c_spec_assumptions_no_output t); [|reflexivity].
  destruct (c_placeholders_single_sorted t); [|reflexivity].
  exfalso. apply Hn. repeat split; reflexivity.
Qed.
Print Assumptions C11_violation_refused.

(* the validation never panics (its only outcomes are Ok warnings / Err e) *)
Theorem C11_validate_never_panics :
  forall (is_tight : program -> bool) (has_private_recursion : program -> list pred -> bool) (t : ext_task),
    external_validate is_tight has_private_recursion t <> Panic.
Proof. exact validate_never_panics. Qed.
Print Assumptions C11_validate_never_panics.

(* the error variant names a condition that is really violated.  [error_names_violation t e]:
     NonTightProgram                               c_tight t = false
     ProgramContainsPrivateRecursion               c_no_private_recursion t = false
     InputPredicateInRuleHead                      c_no_input_in_head t = false
     InputOutputPredicatesOverlap                  c_io_disjoint t = false
     OutputPredicateInSpecificationAssumption      c_spec_assumptions_no_output t = false
     PlaceholdersWithIdenticalNamesDifferentSorts  c_placeholders_single_sorted t = false
     AssumptionContainsNonInputSymbols             c_ug_assumptions_inputs_only t = false, or the
                                                   specification has an assumption outside inputs + program-private predicates
     UnsupportedFormulaRepresentation              et_repr t = ReprMu
     SpecificationContainsUnsupportedRoles         the specification has a role other than assumption / spec
     (the two remaining variants are never returned by the validation) *)
Theorem C11_error_names_violation :
  forall (is_tight : program -> bool) (has_private_recursion : program -> list pred -> bool) (t : ext_task) e,
    external_validate is_tight has_private_recursion t = Err e ->
    error_names_violation is_tight has_private_recursion t e.
Proof. exact validate_error_sound. Qed.
Print Assumptions C11_error_names_violation.

(* for each of the seven conditions (numbered as in the header): when it is the only one violated,
   the task is refused with exactly the corresponding variant
     1 NonTightProgram  2 ProgramContainsPrivateRecursion  3 InputPredicateInRuleHead
     4 InputOutputPredicatesOverlap  5 AssumptionContainsNonInputSymbols
     6 OutputPredicateInSpecificationAssumption  7 PlaceholdersWithIdenticalNamesDifferentSorts
   (the checks run in source order and stop at the first failure; with several violations the
   reported variant is that of one of them: C11_error_names_violation) *)
Theorem C11_single_violation_variant :
  forall (is_tight : program -> bool) (has_private_recursion : program -> list pred -> bool)
         (tau_star : program -> theory) (completion : theory -> list pred -> option theory)
         (simp_classic : formula -> formula) (t : ext_task) (k : nat),
    1 <= k <= 7 -> et_repr t = ReprTauStar ->
    condition is_tight has_private_recursion k t = false ->
    (forall j, 1 <= j <= 7 -> j <> k -> condition is_tight has_private_recursion j t = true) ->
    external_validate is_tight has_private_recursion t = Err (variant_of k) /\
    external_decompose is_tight has_private_recursion tau_star completion simp_classic t = Err (variant_of k).
Proof. exact single_violation_variant. Qed.
Print Assumptions C11_single_violation_variant.

(* converse for the validation step: the seven conditions, together with the three remaining
   admissibility checks of the code, make every ensure_* check succeed *)
Theorem C11_validate_complete :
  forall (is_tight : program -> bool) (has_private_recursion : program -> list pred -> bool) (t : ext_task),
    c_tight is_tight t = true -> c_no_private_recursion has_private_recursion t = true ->
    c_no_input_in_head t = true -> c_io_disjoint t = true -> c_ug_assumptions_inputs_only t = true ->
    c_spec_assumptions_no_output t = true -> c_placeholders_single_sorted t = true ->
    et_repr t = ReprTauStar ->
    (forall s, et_specification t = inr s ->
       assumptions_only_input (task_prog_private t) (ug_input_predicates (et_user_guide t)) s = true /\
       spec_roles_supported s = true) ->
    exists w, external_validate is_tight has_private_recursion t = Ok w.
Proof. exact validate_complete. Qed.
Print Assumptions C11_validate_complete.

(* non-vacuity: a concrete task passes the validation; the same task with a non-tight verdict is
   refused unless the bypass flag is set, in which case a warning is produced *)
Example C11_nonvacuous :
  let prog := [mkrule (HBasic (mkatom "out" [TPre (PNum 1)])) []] in
  let task bypass := mkext (inl prog) prog [] [] DSequential DUniversal ReprTauStar bypass true true in
  external_validate (fun _ => true) (fun _ _ => false) (task false) = Ok [] /\
  external_validate (fun _ => false) (fun _ _ => false) (task false) = Err NonTightProgram /\
  external_validate (fun _ => false) (fun _ _ => false) (task true) = Ok [WNonTightProgram; WNonTightProgram].
Proof. cbv zeta. repeat split; reflexivity. Qed.

(* non-vacuity of the enforcement direction: an input predicate in a rule head (condition 3 and
   only it) => refused with InputPredicateInRuleHead, obtained THROUGH the theorem *)
Example C11_violation_nonvacuous :
  let prog := [mkrule (HBasic (mkatom "in" [TPre (PNum 1)])) []] in
  let t := mkext (inl prog) prog [UGInput (mkpred "in" 1)] [] DSequential DUniversal ReprTauStar false true true in
  forall tau_star completion simp_classic,
    external_decompose (fun _ => true) (fun _ _ => false) tau_star completion simp_classic t = Err InputPredicateInRuleHead.
Proof.
  cbv zeta. intros ts cp sc.
  match goal with |- external_decompose _ _ _ _ _ ?t = _ =>
    apply (C11_single_violation_variant (fun _ => true) (fun _ _ => false) ts cp sc t 3) end;
    [split; repeat constructor|reflexivity|reflexivity|].
  intros j [H1 H7] Hne.
  destruct j as [|[|[|[|[|[|[|[|j]]]]]]]]; try reflexivity; try (exfalso; apply Hne; reflexivity); exfalso; lia.
Qed.
