(* C11 (enforcement part) - the applicability conditions of an external-equivalence task are
   enforced before any obligation is emitted.  Statements only; proofs in Proofs/ExternalOk.v.
   The analyses (is_tight, has_private_recursion) and translations are parameters of the task model
   (Model/External.v); the seven conditions are decidable predicates over the task:
     c_tight                       both programs tight, unless --bypass-tightness
     c_no_private_recursion        both programs free of private recursion
     c_no_input_in_head            no input predicate heads a rule (either program)
     c_io_disjoint                 input and output declarations disjoint
     c_ug_assumptions_inputs_only  user-guide assumptions mention only input predicates
     c_spec_assumptions_no_output  specification assumptions mention no output predicate
     c_placeholders_single_sorted  no placeholder declared with two sorts *)
From Coq Require Import List String ZArith Bool.
Import ListNotations.
From Anthem Require Import Syntax.Fol Syntax.Asp Model.Problem Model.Outline Model.Strong Model.External Model.Tightness Model.PrivRec Model.Completion Proofs.ExternalOk Proofs.TasksClosed.
Open Scope string_scope.

Theorem C11_enforce :
  forall (is_tight : program -> bool) (has_private_recursion : program -> list pred -> bool)
         (tau_star : program -> theory) (completion : theory -> list pred -> option theory)
         (simp_classic : formula -> formula) (t : ext_task) w pbs,
    external_decompose is_tight has_private_recursion tau_star completion simp_classic t = Ok (w, pbs) ->
    c_tight is_tight t = true /\ c_no_private_recursion has_private_recursion t = true /\
    c_no_input_in_head t = true /\ c_io_disjoint t = true /\ c_ug_assumptions_inputs_only t = true /\
    c_spec_assumptions_no_output t = true /\ c_placeholders_single_sorted t = true.
Proof. exact enforce. Qed.
Print Assumptions C11_enforce.

(* the same with the analyses instantiated by their models (Model/Tightness.is_tight,
   Model/PrivRec.has_private_recursion, Model/Completion.completion; exactness of these: C11tight, C04) *)
Theorem C11_enforce_instantiated :
  forall (tau_star : program -> theory) (simp_classic : formula -> formula) (t : ext_task) w pbs,
    external_decompose is_tight has_private_recursion tau_star completion simp_classic t = Ok (w, pbs) ->
    c_tight is_tight t = true /\ c_no_private_recursion has_private_recursion t = true /\
    c_no_input_in_head t = true /\ c_io_disjoint t = true /\ c_ug_assumptions_inputs_only t = true /\
    c_spec_assumptions_no_output t = true /\ c_placeholders_single_sorted t = true.
Proof. exact enforce_instantiated. Qed.
Print Assumptions C11_enforce_instantiated.

(* a task that yields no problems is refused with an error value (or panics): the result type
   carries problems only in the Ok case, so nothing is emitted *)
Theorem C11_refusal_emits_nothing :
  forall (is_tight : program -> bool) (has_private_recursion : program -> list pred -> bool)
         (tau_star : program -> theory) (completion : theory -> list pred -> option theory)
         (simp_classic : formula -> formula) (t : ext_task),
    (forall w pbs, external_decompose is_tight has_private_recursion tau_star completion simp_classic t <> Ok (w, pbs)) ->
    (exists e, external_decompose is_tight has_private_recursion tau_star completion simp_classic t = Err e) \/
    external_decompose is_tight has_private_recursion tau_star completion simp_classic t = Panic.
Proof. exact refusal_emits_nothing. Qed.
Print Assumptions C11_refusal_emits_nothing.

(* converse for the validation step: the seven conditions, together with the three remaining
   admissibility checks of the code, make every ensure_* check succeed *)
Theorem C11_validate_complete :
  forall (is_tight : program -> bool) (has_private_recursion : program -> list pred -> bool) (t : ext_task),
    c_tight is_tight t = true -> c_no_private_recursion has_private_recursion t = true ->
    c_no_input_in_head t = true -> c_io_disjoint t = true -> c_ug_assumptions_inputs_only t = true ->
    c_spec_assumptions_no_output t = true -> c_placeholders_single_sorted t = true ->
    et_repr t = ReprTauStar ->
    (forall s, et_specification t = inr s ->
       assumptions_only_input (task_prog_private t) (ug_input_predicates (et_user_guide t)) s = true /\
       spec_roles_supported s = true) ->
    exists w, external_validate is_tight has_private_recursion t = Ok w.
Proof. exact validate_complete. Qed.
Print Assumptions C11_validate_complete.

(* non-vacuity: a concrete task passes the validation; the same task with a non-tight verdict is
   refused unless the bypass flag is set, in which case a warning is produced *)
Example C11_nonvacuous :
  let prog := [mkrule (HBasic (mkatom "out" [TPre (PNum 1)])) []] in
  let task bypass := mkext (inl prog) prog [] [] DSequential DUniversal ReprTauStar bypass true true in
  external_validate (fun _ => true) (fun _ _ => false) (task false) = Ok [] /\
  external_validate (fun _ => false) (fun _ _ => false) (task false) = Err NonTightProgram /\
  external_validate (fun _ => false) (fun _ _ => false) (task true) = Ok [WNonTightProgram; WNonTightProgram].
Proof. cbv zeta. repeat split; reflexivity. Qed.
