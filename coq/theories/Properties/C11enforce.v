(* C11 (enforcement part) - the applicability conditions of an external-equivalence task are
   enforced before any obligation is emitted.  Statements only; proofs in Proofs/ExternalOk.v.
   The analyses (is_tight, has_private_recursion) and translations are parameters of the task model
   (Model/External.v); the seven conditions are decidable predicates over the task:
     c_tight                       both programs tight, unless --bypass-tightness
     c_no_private_recursion        both programs free of private recursion
     c_no_input_in_head            no input predicate heads a rule (either program)
     c_io_disjoint                 input and output declarations disjoint
     c_ug_assumptions_inputs_only  user-guide assumptions mention only input predicates
     c_spec_assumptions_no_output  specification assumptions mention no output predicate
     c_placeholders_single_sorted  no placeholder declared with two sorts *)
From Coq Require Import List String ZArith Bool Lia.
Import ListNotations.
From Anthem Require Import Syntax.Fol Syntax.Asp Model.Problem Model.Outline Model.Strong Model.External Model.Tightness Model.PrivRec Model.Completion Proofs.ExternalOk Proofs.TasksClosed.
Open Scope string_scope.

Theorem C11_enforce :
  forall (is_tight : program -> bool) (has_private_recursion : program -> list pred -> bool)
         (tau_star : program -> theory) (completion : theory -> list pred -> option theory)
         (simp_classic : formula -> formula) (t : ext_task) w pbs,
    external_decompose is_tight has_private_recursion tau_star completion simp_classic t = Ok (w, pbs) ->
    c_tight is_tight t = true /\ c_no_private_recursion has_private_recursion t = true /\
    c_no_input_in_head t = true /\ c_io_disjoint t = true /\ c_ug_assumptions_inputs_only t = true /\
    c_spec_assumptions_no_output t = true /\ c_placeholders_single_sorted t = true.
Proof. exact enforce. Qed.
Print Assumptions C11_enforce.

(* the same with the analyses instantiated by their models (Model/Tightness.is_tight,
   Model/PrivRec.has_private_recursion, Model/Completion.completion; exactness of these: C11tight, C04) *)
Theorem C11_enforce_instantiated :
  forall (tau_star : program -> theory) (simp_classic : formula -> formula) (t : ext_task) w pbs,
    external_decompose is_tight has_private_recursion tau_star completion simp_classic t = Ok (w, pbs) ->
    c_tight is_tight t = true /\ c_no_private_recursion has_private_recursion t = true /\
    c_no_input_in_head t = true /\ c_io_disjoint t = true /\ c_ug_assumptions_inputs_only t = true /\
    c_spec_assumptions_no_output t = true /\ c_placeholders_single_sorted t = true.
Proof. exact enforce_instantiated. Qed.
Print Assumptions C11_enforce_instantiated.

(* THE ENFORCEMENT DIRECTION (audit A11): a task that violates one of the seven conditions is
   REFUSED WITH AN ERROR VALUE - the validation returns Err e (it never panics and never lets the
   task through), and so does the whole decompose(): no translation is run, nothing is emitted. *)
Theorem C11_violation_refused :
  forall (is_tight : program -> bool) (has_private_recursion : program -> list pred -> bool)
         (tau_star : program -> theory) (completion : theory -> list pred -> option theory)
         (simp_classic : formula -> formula) (t : ext_task),
    ~ (c_tight is_tight t = true /\ c_no_private_recursion has_private_recursion t = true /\
       c_no_input_in_head t = true /\ c_io_disjoint t = true /\ c_ug_assumptions_inputs_only t = true /\
       c_spec_assumptions_no_output t = true /\ c_placeholders_single_sorted t = true) ->
    exists err,
      external_validate is_tight has_private_recursion t = Err err /\
      external_decompose is_tight has_private_recursion tau_star completion simp_classic t = Err err.
Proof.
  intros it hp ts cp sc t Hn. apply violation_refused.
  unfold all_seven.
  destruct (c_tight it t); [|reflexivity].
  destruct (c_no_private_recursion hp t); [|reflexivity].
  destruct (c_no_input_in_head t); [|reflexivity].
  destruct (c_io_disjoint t); [|reflexivity].
  destruct (c_ug_assumptions_inputs_only t); [|reflexivity].
  destruct (c_spec_assumptions_no_output t); [|reflexivity].
  destruct (c_placeholders_single_sorted t); [|reflexivity].
  exfalso. apply Hn. repeat split; reflexivity.
Qed.
Print Assumptions C11_violation_refused.

(* the validation never panics (its only outcomes are Ok warnings / Err e) *)
Theorem C11_validate_never_panics :
  forall (is_tight : program -> bool) (has_private_recursion : program -> list pred -> bool) (t : ext_task),
    external_validate is_tight has_private_recursion t <> Panic.
Proof. exact validate_never_panics. Qed.
Print Assumptions C11_validate_never_panics.

(* the error names a condition that is really violated AND ITS PAYLOAD NAMES THE VIOLATION
   (audit B16; the payloads are part of the correspondence wire format, docs/C11.md "payloads").
   [error_names_violation t e], with inputs / outputs the declared input / output predicates and
   "a program of the task" = the program or the specification program ([is_task_program]):
     NonTightProgram p                   c_tight t = false; p is a program of the task; is_tight p = false
     ProgramContainsPrivateRecursion p   c_no_private_recursion t = false; p is the program (resp. the
                                         specification program) and has private recursion w.r.t. the
                                         private predicates of that side
     InputPredicateInRuleHead ps         c_no_input_in_head t = false; ps <> []; for a program prog of the task
                                         ps = iset_inter inputs (head predicates of prog), i.e.
                                         p in ps <-> p is an input predicate heading a rule of prog
     InputOutputPredicatesOverlap ps     c_io_disjoint t = false; ps = iset_inter inputs outputs; ps <> [];
                                         p in ps <-> p in inputs /\ p in outputs
     OutputPredicateInSpecificationAssumption ps
                                         c_spec_assumptions_no_output t = false; ps <> []; for an ASSUMPTION a
                                         of the specification ps = the predicates of a that are outputs
     PlaceholdersWithIdenticalNamesDifferentSorts n
                                         c_placeholders_single_sorted t = false; the user guide declares
                                         placeholders (n, s1) and (n, s2) with s1 <> s2
     AssumptionContainsNonInputSymbols a a is an assumption; either c_ug_assumptions_inputs_only t = false, a is a
                                         user-guide formula and mentions a predicate that is not an input, or
                                         a is a formula of the specification and mentions a predicate that is
                                         neither an input nor a private predicate of the program
     UnsupportedFormulaRepresentation    et_repr t = ReprMu
     SpecificationContainsUnsupportedRoles a
                                         a is a formula of the specification whose role is neither assumption nor spec
     (the two remaining variants are never returned by the validation) *)
Theorem C11_error_names_violation :
  forall (is_tight : program -> bool) (has_private_recursion : program -> list pred -> bool) (t : ext_task) e,
    external_validate is_tight has_private_recursion t = Err e ->
    error_names_violation is_tight has_private_recursion t e.
Proof. exact validate_error_sound. Qed.
Print Assumptions C11_error_names_violation.

(* for each of the seven conditions (numbered as in the header): when it is the only one violated,
   the task is refused with exactly the corresponding variant ([variant_index e = k])
     1 NonTightProgram  2 ProgramContainsPrivateRecursion  3 InputPredicateInRuleHead
     4 InputOutputPredicatesOverlap  5 AssumptionContainsNonInputSymbols
     6 OutputPredicateInSpecificationAssumption  7 PlaceholdersWithIdenticalNamesDifferentSorts
   and the value the error carries names the violation (the clauses of C11_error_names_violation).
   (the checks run in source order and stop at the first failure; with several violations the
   reported variant is that of one of them: C11_error_names_violation) *)
Theorem C11_single_violation_variant :
  forall (is_tight : program -> bool) (has_private_recursion : program -> list pred -> bool)
         (tau_star : program -> theory) (completion : theory -> list pred -> option theory)
         (simp_classic : formula -> formula) (t : ext_task) (k : nat),
    1 <= k <= 7 -> et_repr t = ReprTauStar ->
    condition is_tight has_private_recursion k t = false ->
    (forall j, 1 <= j <= 7 -> j <> k -> condition is_tight has_private_recursion j t = true) ->
    exists e,
      external_validate is_tight has_private_recursion t = Err e /\
      external_decompose is_tight has_private_recursion tau_star completion simp_classic t = Err e /\
      variant_index e = k /\
      error_names_violation is_tight has_private_recursion t e.
Proof. exact single_violation_variant. Qed.
Print Assumptions C11_single_violation_variant.

(* converse for the validation step: the seven conditions, together with the three remaining
   admissibility checks of the code, make every ensure_* check succeed *)
Theorem C11_validate_complete :
  forall (is_tight : program -> bool) (has_private_recursion : program -> list pred -> bool) (t : ext_task),
    c_tight is_tight t = true -> c_no_private_recursion has_private_recursion t = true ->
    c_no_input_in_head t = true -> c_io_disjoint t = true -> c_ug_assumptions_inputs_only t = true ->
    c_spec_assumptions_no_output t = true -> c_placeholders_single_sorted t = true ->
    et_repr t = ReprTauStar ->
    (forall s, et_specification t = inr s ->
       assumptions_only_input (task_prog_private t) (ug_input_predicates (et_user_guide t)) s = true /\
       spec_roles_supported s = true) ->
    exists w, external_validate is_tight has_private_recursion t = Ok w.
Proof. exact validate_complete. Qed.
Print Assumptions C11_validate_complete.

(* non-vacuity: a concrete task passes the validation; the same task with a non-tight verdict is
   refused unless the bypass flag is set, in which case a warning is produced *)
Example C11_nonvacuous :
  let prog := [mkrule (HBasic (mkatom "out" [TPre (PNum 1)])) []] in
  let task bypass := mkext (inl prog) prog [] [] DSequential DUniversal ReprTauStar bypass true true in
  external_validate (fun _ => true) (fun _ _ => false) (task false) = Ok [] /\
  external_validate (fun _ => false) (fun _ _ => false) (task false) = Err (NonTightProgram prog) /\
  external_validate (fun _ => false) (fun _ _ => false) (task true) = Ok [WNonTightProgram prog; WNonTightProgram prog].
Proof. cbv zeta. repeat split; reflexivity. Qed.

(* non-vacuity of the enforcement direction: an input predicate in a rule head (condition 3 and
   only it) => refused with InputPredicateInRuleHead CARRYING THAT PREDICATE, obtained THROUGH the
   theorem (variant from variant_index, payload from the equation of error_names_violation) *)
Example C11_violation_nonvacuous :
  let prog := [mkrule (HBasic (mkatom "in" [TPre (PNum 1)])) []] in
  let t := mkext (inl prog) prog [UGInput (mkpred "in" 1)] [] DSequential DUniversal ReprTauStar false true true in
  forall tau_star completion simp_classic,
    external_decompose (fun _ => true) (fun _ _ => false) tau_star completion simp_classic t
    = Err (InputPredicateInRuleHead [mkpred "in" 1]).
Proof.
  cbv zeta. intros ts cp sc.
  match goal with |- external_decompose _ _ _ _ _ ?t = _ =>
    destruct (C11_single_violation_variant (fun _ => true) (fun _ _ => false) ts cp sc t 3)
      as [e [_ [Hd [Hi Hn]]]] end;
    [split; repeat constructor|reflexivity|reflexivity| |].
  - intros j [H1 H7] Hne.
    destruct j as [|[|[|[|[|[|[|[|j]]]]]]]]; try reflexivity; try (exfalso; apply Hne; reflexivity); exfalso; lia.
  - rewrite Hd. destruct e; try discriminate Hi. cbn in Hn.
    destruct Hn as [_ [_ [prog [[->| [= <-]] [-> _]]]]]; reflexivity.
Qed.
