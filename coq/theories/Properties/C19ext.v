(* C19, external equivalence, the simplify flag (and with it all 8 flag combinations).
   Statements only; proofs in Proofs/HeadPred.v, HeadPredPipeline.v, C19Ext.v, C19ExtFull.v.

   external_equivalence.rs assigns the roles of the formulas of a completed theory AFTER the optional
   simplification, by syntactic shape ([head_predicate]: `forall`-blocks over `atom <-> _`): private
   definition -> Assumption (axiom in both directions), public definition -> Spec, everything else ->
   Spec named constraint_k.  These theorems show that for the CURRENT portfolio
   `[INTUITIONISTIC, HT, CLASSIC].concat()` applied with `apply_fixpoint` the classification of every
   formula of a completed tau* theory is the same with and without simplification, and derive that
   accepted external tasks are refuted by the same interpretations under all flag combinations.

   Vocabulary (definitions in Proofs/HeadPred.v):
     FULL            INTUITIONISTIC ++ HT ++ CLASSIC (Model/SimplIntuit.v, Model/SimplClassic.v)
     head_atom F     the atom head_predicate reads its answer from (head_predicate = its predicate)
     def_shape p n F F is  [forall V] (p(t1..tn) <-> B)
     imp_free F      F contains no `->`, `<-`, `<->`
     cs_shape F      F is  [forall ..] (B -> #false) / (#false <- B) with B imp_free, or imp_free
     classified F    F has a head atom, or cs_shape F
     rule_like f     f is  [forall V] (B -> H) with B imp_free (the formulas of tau-star) *)
From Coq Require Import List String ZArith Bool.
Import ListNotations.
From Anthem Require Import Base.ISet Syntax.Fol Syntax.Asp Sem.Domain Sem.Sat
  Model.Apply Model.SimplIntuit Model.SimplClassic Model.Problem Model.Outline Model.Strong Model.External
  Model.Tightness Model.PrivRec Model.TauStar Model.Completion Model.StrategyCls Model.ExternalFull
  Proofs.DecomposeOk Proofs.StrongOk Proofs.ExternalOk Proofs.C02Ok
  Proofs.HeadPred Proofs.HeadPredPipeline Proofs.C19Ext Proofs.C19ExtFull Proofs.NoClashDec Proofs.ExtFuel Proofs.ParserImagePipeline Proofs.NoPanic.
Open Scope string_scope.
Open Scope list_scope.

(* ---------------- 1. the recognised shape survives `f.apply_fixpoint(&mut portfolio)` ---------------- *)
(* completed definitions, as stated in the task: *)
Theorem C19_head_predicate_stable :
  forall (p : string) (n : nat) (F : formula),
    def_shape p n F ->
    forall (fuel : nat) (G : formula),
      apply_fixpoint fuel (compose FULL) F = Some G -> head_predicate G = head_predicate F.
Proof. exact head_predicate_stable. Qed.
Print Assumptions C19_head_predicate_stable.

(* in fact for EVERY formula with a head atom, and the atom itself (not only its predicate) is kept,
   already by one pass of `apply` *)
Theorem C19_head_atom_pass :
  forall (F : formula) a, head_atom F = Some a -> head_atom (apply (compose FULL) F) = Some a.
Proof. exact head_atom_pass. Qed.
Print Assumptions C19_head_atom_pass.

Theorem C19_head_atom_stable :
  forall (F : formula) a (fuel : nat) (G : formula),
    head_atom F = Some a -> apply_fixpoint fuel (compose FULL) F = Some G -> head_atom G = Some a.
Proof. exact head_atom_stable. Qed.
Print Assumptions C19_head_atom_stable.

(* the converse direction: apply_equivalence_definition_inverse CAN create `<->`, but not out of a
   constraint of a completed theory *)
Theorem C19_constraint_stable :
  forall (F : formula) (fuel : nat) (G : formula),
    cs_shape F -> apply_fixpoint fuel (compose FULL) F = Some G -> head_predicate G = None.
Proof. exact constraint_stable. Qed.
Print Assumptions C19_constraint_stable.

Theorem C19_head_predicate_invariant :
  forall (F : formula) (fuel : nat) (G : formula),
    classified F -> apply_fixpoint fuel (compose FULL) F = Some G ->
    head_predicate G = head_predicate F /\ classified G.
Proof. exact head_predicate_invariant. Qed.
Print Assumptions C19_head_predicate_invariant.

(* ---------------- 2. along the real pipeline ---------------- *)
(* every formula of completion(replace_placeholders(tau*(P))) is classified; the definitions are
   def_shape *)
Theorem C19_completed_theory_classified :
  forall (P : program) (G : theory) (m : placeholders) (ins : list pred) (D : theory),
    TauStar.tau_star P = Some G -> completion (rp_theory m G) ins = Some D ->
    forall d, In d D -> classified d.
Proof. exact translated_classified. Qed.
Print Assumptions C19_completed_theory_classified.

Theorem C19_complete_definition_def_shape :
  forall e, def_shape (hsym (fst e)) (List.length (hargs (fst e))) (complete_definition e).
Proof. exact complete_definition_def_shape. Qed.
Print Assumptions C19_complete_definition_def_shape.

(* the same for the theory the roles are read off since /repo 70e6ace (finding F17): the completed
   theory followed by the empty completed definitions of the missing output predicates (since
   /repo 18b2e85: of those that occur in the task, `occ`), which are def_shape as well *)
Theorem C19_translated_theory_classified :
  forall (P : program) (G : theory) (m : placeholders) (ins outs occ : list pred) (D : theory),
    TauStar.tau_star P = Some G -> completion (rp_theory m G) ins = Some D ->
    forall d, In d (D ++ missing_output_definitions outs occ D) -> classified d.
Proof. exact translated_classified_ext. Qed.
Print Assumptions C19_translated_theory_classified.

Theorem C19_empty_definition_def_shape :
  forall q : pred, def_shape (psym q) (parity q) (empty_definition q).
Proof. exact empty_definition_def_shape. Qed.
Print Assumptions C19_empty_definition_def_shape.

(* hence control_translate gives every formula the same name, role and direction with and without
   --no-simplify (the simplifier of the full model: panic-aware runner, explicit fuel) *)
Theorem C19_roles_stable :
  forall (fuel : nat) (public : list pred) (th : theory),
    (forall f, In f th -> classified f) ->
    control_translate public (map (simp_classic_total fuel) th)
    = map (annot_map (simp_classic_total fuel)) (control_translate public th).
Proof. exact control_translate_simplified. Qed.
Print Assumptions C19_roles_stable.

(* ---------------- 3. refutation sets ---------------- *)
(* validated level: pointwise similar sides (same role and direction, equivalent formulas), any
   eq-break / decomposition flags, proof outlines included; generalises C19_external_break_dec *)
Theorem C19_external_similar_sides :
  forall (vt vt' : validated_task),
    Forall2 annot_sim (vt_left vt) (vt_left vt') -> Forall2 annot_sim (vt_right vt) (vt_right vt') ->
    vt_user_guide_assumptions vt = vt_user_guide_assumptions vt' ->
    vt_proof_outline vt = vt_proof_outline vt' -> vt_direction vt = vt_direction vt' ->
    forall w pbs w' pbs',
      validated_decompose vt = Ok (w, pbs) -> validated_decompose vt' = Ok (w', pbs') ->
      validated_no_clash vt -> validated_no_clash vt' ->
      forall (FI : fint) (M : pint), refutes_some FI M pbs <-> refutes_some FI M pbs'.
Proof. exact external_sim. Qed.
Print Assumptions C19_external_similar_sides.

(* assembly model over arbitrary components: what the simplifier must satisfy *)
Theorem C19_external_partial :
  forall (is_tight : program -> bool) (has_private_recursion : program -> list pred -> bool)
         (tau_star : program -> theory) (completion : theory -> list pred -> option theory)
         (simp_classic : formula -> formula),
    (forall FI M f, cvalid FI M (simp_classic f) <-> cvalid FI M f) ->
    (forall ins outs occ p m D, completion (rp_theory m (tau_star p)) ins = Some D ->
       forall f, In f (D ++ missing_output_definitions outs occ D) -> head_predicate (simp_classic f) = head_predicate f) ->
    forall (t t' : ext_task) w pbs w' pbs',
      same_claim t t' ->
      external_decompose is_tight has_private_recursion tau_star completion simp_classic t = Ok (w, pbs) ->
      external_decompose is_tight has_private_recursion tau_star completion simp_classic t' = Ok (w', pbs') ->
      (forall vt, task_validated tau_star completion simp_classic t = Some vt -> validated_no_clash vt) ->
      (forall vt, task_validated tau_star completion simp_classic t' = Some vt -> validated_no_clash vt) ->
      forall FI M, refutes_some FI M pbs <-> refutes_some FI M pbs'.
Proof. exact external_flags_partial. Qed.
Print Assumptions C19_external_partial.

(* the simplify flag of external tasks, every component real: for a task the full model accepts
   with and without --no-simplify, the two families of problems are refuted by the same
   interpretations (FI: placeholder values, M: predicate extents, infinite standard domain).
   [validated_no_clash] as in C19_external_break_dec (no symbol equal to a 0-ary predicate). *)
Theorem C19_external_simplify :
  forall (fuel : nat) (t : ext_task) (b : bool) (d : decomposition) w pbs w' pbs',
    external_decompose_full fuel (with_flags t true b d) = XOk w pbs ->
    external_decompose_full fuel (with_flags t false b d) = XOk w' pbs' ->
    (forall vt, task_validated tau_star_total completion (simp_classic_total fuel) (with_flags t true b d) = Some vt ->
                validated_no_clash vt) ->
    (forall vt, task_validated tau_star_total completion (simp_classic_total fuel) (with_flags t false b d) = Some vt ->
                validated_no_clash vt) ->
    forall FI M, refutes_some FI M pbs <-> refutes_some FI M pbs'.
Proof. exact C19_external_simplify_proof. Qed.
Print Assumptions C19_external_simplify.

(* all 8 combinations of --no-simplify, --no-eq-break, --task-decomposition *)
Theorem C19_external :
  forall (fuel : nat) (t : ext_task) (s b : bool) (d : decomposition) (s' b' : bool) (d' : decomposition)
         w pbs w' pbs',
    external_decompose_full fuel (with_flags t s b d) = XOk w pbs ->
    external_decompose_full fuel (with_flags t s' b' d') = XOk w' pbs' ->
    (forall vt, task_validated tau_star_total completion (simp_classic_total fuel) (with_flags t s b d) = Some vt ->
                validated_no_clash vt) ->
    (forall vt, task_validated tau_star_total completion (simp_classic_total fuel) (with_flags t s' b' d') = Some vt ->
                validated_no_clash vt) ->
    forall FI M, refutes_some FI M pbs <-> refutes_some FI M pbs'.
Proof. exact C19_external_all_proof. Qed.
Print Assumptions C19_external.

(* ... and for any two accepted tasks that state the same claim (bypass-tightness may differ too) *)
Theorem C19_external_same_claim :
  forall (fuel : nat) (t t' : ext_task) w pbs w' pbs',
    same_claim t t' ->
    external_decompose_full fuel t = XOk w pbs -> external_decompose_full fuel t' = XOk w' pbs' ->
    (forall vt, task_validated tau_star_total completion (simp_classic_total fuel) t = Some vt -> validated_no_clash vt) ->
    (forall vt, task_validated tau_star_total completion (simp_classic_total fuel) t' = Some vt -> validated_no_clash vt) ->
    forall FI M, refutes_some FI M pbs <-> refutes_some FI M pbs'.
Proof. exact C19_external_proof. Qed.
Print Assumptions C19_external_same_claim.

(* ---------------- 4. the fuel: C18_term_cls composed (audit A8) ---------------- *)
(* Every theorem of section 3 (and of Properties/C02full.v) is stated for EVERY fuel of the
   end-to-end model; [full_fuel] = 64 is the executable instance compared with the code.
   Termination of the classic fixpoint loop is proved (C18_term_cls) and composed here: *)
Theorem C19_external_executable_fuel : full_fuel = 64.
Proof. reflexivity. Qed.
Print Assumptions C19_external_executable_fuel.

(* (i) an answer other than XNonterminating is the answer of every larger fuel *)
Theorem C19_external_fuel_monotone :
  forall (n : nat) (t : ext_task) (r : ext_outcome),
    external_decompose_full n t = r -> r <> XNonterminating ->
    forall m, n <= m -> external_decompose_full m t = r.
Proof. exact external_decompose_full_mono. Qed.
Print Assumptions C19_external_fuel_monotone.

(* (ii) from [ext_fuel_bound t] passes on (the maximum of ClsTerm.classic_fuel over the completed
   formulas of the task) the model never answers XNonterminating *)
Theorem C19_external_never_nonterminating :
  forall t : ext_task, exists n, forall m, n <= m -> external_decompose_full m t <> XNonterminating.
Proof. exact external_never_nonterminating_exists. Qed.
Print Assumptions C19_external_never_nonterminating.
Theorem C19_external_never_nonterminating_bound :
  forall (t : ext_task) (m : nat), ext_fuel_bound t <= m -> external_decompose_full m t <> XNonterminating.
Proof. exact external_never_nonterminating. Qed.
Print Assumptions C19_external_never_nonterminating_bound.

(* every task has ONE answer (problems with warnings, an error value, or the panic) given by all
   sufficiently large fuels; XNonterminating is only a fuel artefact *)
Theorem C19_external_eventual_result :
  forall t : ext_task,
    exists n r, r <> XNonterminating /\ forall m, n <= m -> external_decompose_full m t = r.
Proof. exact external_eventual_result. Qed.
Print Assumptions C19_external_eventual_result.
Theorem C19_external_nonterminating_is_fuel_artefact :
  forall (n : nat) (t : ext_task), external_decompose_full n t = XNonterminating ->
    exists m r, n < m /\ r <> XNonterminating /\ forall m', m <= m' -> external_decompose_full m' t = r.
Proof. exact external_nonterminating_is_fuel_artefact. Qed.
Print Assumptions C19_external_nonterminating_is_fuel_artefact.

(* the validated task behind an accepted task - hence the premise validated_no_clash of the
   theorems above and of C02 - does not depend on the fuel from an accepting one on *)
Theorem C19_external_validated_fuel_independent :
  forall (n m : nat) (t : ext_task) w pbs, n <= m ->
    external_decompose_full n t = XOk w pbs ->
    task_validated tau_star_total completion (simp_classic_total n) t
    = task_validated tau_star_total completion (simp_classic_total m) t.
Proof. exact external_validated_fuel_independent. Qed.
Print Assumptions C19_external_validated_fuel_independent.

(* the headline for "the result of the task": two tasks stating the same claim; from some number
   of passes on both answers are fixed, and if both are acceptances the two families of problems
   are refuted by the same interpretations *)
Theorem C19_external_same_claim_eventually :
  forall (t t' : ext_task), same_claim t t' ->
    exists n r r',
      (forall m, n <= m -> external_decompose_full m t = r /\ external_decompose_full m t' = r') /\
      r <> XNonterminating /\ r' <> XNonterminating /\
      forall w pbs w' pbs', r = XOk w pbs -> r' = XOk w' pbs' ->
        forall m, n <= m ->
        (forall vt, task_validated tau_star_total completion (simp_classic_total m) t = Some vt -> validated_no_clash vt) ->
        (forall vt, task_validated tau_star_total completion (simp_classic_total m) t' = Some vt -> validated_no_clash vt) ->
        forall FI M, refutes_some FI M pbs <-> refutes_some FI M pbs'.
Proof.
  intros t t' Hs.
  destruct (external_eventual_result t) as [n [r [Hr Hn]]].
  destruct (external_eventual_result t') as [n' [r' [Hr' Hn']]].
  exists (Nat.max n n'), r, r'. split; [|split; [exact Hr|split; [exact Hr'|]]].
  - intros m Hm. split; [apply Hn|apply Hn']; eapply Nat.le_trans; try exact Hm;
      [apply Nat.le_max_l|apply Nat.le_max_r].
  - intros w pbs w' pbs' -> -> m Hm Hc Hc'.
    apply (C19_external_proof m t t' w pbs w' pbs' Hs); [apply Hn|apply Hn'|exact Hc|exact Hc'];
      eapply Nat.le_trans; try exact Hm; [apply Nat.le_max_l|apply Nat.le_max_r].
Qed.
Print Assumptions C19_external_same_claim_eventually.

(* ---------------- 5. where XPanic can come from (audit A8 b) ---------------- *)
(* a `theory_translate` (tau*, replace_placeholders, completion, classic fixpoint) panics only by
   the usize overflow of tau* (F11): completion never refuses a tau* theory with placeholders
   replaced, and the classic rewrites never panic on completed tau* theories (parser image) *)
Theorem C19_external_translate_panic_only_overflow :
  forall (fuel : nat) (t : ext_task) (m : placeholders) (p : program),
    program_vars_named p -> translate_status fuel t m p = TPanic -> TauStar.tau_star p = None.
Proof. exact translate_status_panic_only_overflow. Qed.
Print Assumptions C19_external_translate_panic_only_overflow.

(* XPanic of the full model = F11 on one of the two programs, or a panic of the assembly AFTER the
   translations (External.external_decompose: the proof-outline and role handling, C13 / C11) *)
Theorem C19_external_panic_classes :
  forall (fuel : nat) (t : ext_task),
    program_vars_named (et_program t) ->
    (forall L, et_specification t = inl L -> program_vars_named L) ->
    external_decompose_full fuel t = XPanic ->
    TauStar.tau_star (et_program t) = None \/
    (exists L, et_specification t = inl L /\ TauStar.tau_star L = None) \/
    external_decompose_total fuel t = Panic.
Proof. exact external_panic_classes. Qed.
Print Assumptions C19_external_panic_classes.

(* the `expect("tau_star did not create a completable theory")` of the production caller
   tau_star().replace_placeholders(..).completion(..) is unreachable *)
Theorem C19_external_completion_expect_unreachable :
  forall (P : program) (G : theory) (m : placeholders) (ins : list pred),
    TauStar.tau_star P = Some G -> exists D, completion (rp_theory m G) ins = Some D.
Proof. exact tau_star_rp_completable. Qed.
Print Assumptions C19_external_completion_expect_unreachable.

(* ---------------- non-vacuity ---------------- *)
Definition aux : formula := FAtomic (AAtom "aux" []).
(* the completed definition of the private fact `aux.` is  aux <-> #true ; the current portfolio
   leaves it alone *)
Example C19ext_fact_definition_kept :
  simp_classic_total full_fuel (FBin CIff aux ftrue) = FBin CIff aux ftrue /\
  head_predicate (FBin CIff aux ftrue) = Some (mkpred "aux" 0).
Proof. split; vm_compute; reflexivity. Qed.

(* the theorem is about the CURRENT rules: the seeded regressions (seeded/C02_r2, seeded/C19_r2:
   `F <-> #true => F` added to remove_identities) destroy the shape *)
Definition seeded_remove_identities (f : formula) : formula :=
  match f with
  | FBin CIff lhs (FAtomic ATrue) => lhs
  | x => remove_identities x
  end.
Example C19ext_seeded_rule_breaks :
  head_predicate (apply seeded_remove_identities (FBin CIff aux ftrue)) = None.
Proof. reflexivity. Qed.

(* a constraint whose simplification passes through `not not C => C`:  :- not aux.  *)
Example C19ext_constraint :
  simp_classic_total full_fuel (FBin CImp (FNot aux) ffalse) = aux /\
  cs_shape (FBin CImp (FNot aux) ffalse) /\ head_predicate aux = None.
Proof. split; [vm_compute; reflexivity|]. split; [apply cs_imp; reflexivity|reflexivity]. Qed.

(* a formula that is NOT classified and whose classification does change:
   (p -> q) and (q -> p)  becomes  p <-> q  (apply_equivalence_definition_inverse) *)
Example C19ext_unclassified_changes :
  let p := FAtomic (AAtom "p" []) in let q := FAtomic (AAtom "q" []) in
  head_predicate (FBin CAnd (FBin CImp p q) (FBin CImp q p)) = None /\
  head_predicate (simp_classic_total full_fuel (FBin CAnd (FBin CImp p q) (FBin CImp q p))) = Some (mkpred "p" 0).
Proof. split; vm_compute; reflexivity. Qed.

(* an accepted task with a private fact, computed by the full model with and without simplification:
   specification  aux. out :- aux.     program  out.      output: out/0.
   same roles on the left side in both settings, one Assumption (the definition of aux) *)
Definition Laux : program :=
  [ mkrule (HBasic (mkatom "aux" [])) []; mkrule (HBasic (mkatom "out" [])) [BLit (mklit SNone (mkatom "aux" []))] ].
Definition Raux : program := [ mkrule (HBasic (mkatom "out" [])) [] ].
Definition taux : ext_task :=
  mkext (inl Laux) Raux [UGOutput (mkpred "out" 0)] [] DIndependent DUniversal ReprTauStar false true true.

Example C19ext_instance :
  exists pbs pbs' lft lft',
    external_decompose_full full_fuel (with_flags taux true true DIndependent) = XOk [] pbs /\
    external_decompose_full full_fuel (with_flags taux false true DIndependent) = XOk [] pbs' /\
    task_left tau_star_total completion (simp_classic_total full_fuel) (with_flags taux true true DIndependent) Laux = Some lft /\
    task_left tau_star_total completion (simp_classic_total full_fuel) (with_flags taux false true DIndependent) Laux = Some lft' /\
    map an_role lft = [RAssumption; RSpec] /\ map an_role lft' = [RAssumption; RSpec] /\
    map an_name lft = map an_name lft'.
Proof.
  eexists _, _, _, _. split; [vm_compute; reflexivity|]. split; [vm_compute; reflexivity|].
  split; [vm_compute; reflexivity|]. split; [vm_compute; reflexivity|].
  split; [reflexivity|]. split; reflexivity.
Qed.

(* ... and every premise of C19_external_simplify is discharged on it (the clash premises by the
   decision procedure of Proofs/NoClashDec.v): the theorem applies, both families of problems are
   refuted by the same interpretations *)
Example C19ext_premises :
  exists pbs pbs',
    external_decompose_full full_fuel (with_flags taux true true DIndependent) = XOk [] pbs /\
    external_decompose_full full_fuel (with_flags taux false true DIndependent) = XOk [] pbs' /\
    (forall vt, task_validated tau_star_total completion (simp_classic_total full_fuel) (with_flags taux true true DIndependent) = Some vt ->
                validated_no_clash vt) /\
    (forall vt, task_validated tau_star_total completion (simp_classic_total full_fuel) (with_flags taux false true DIndependent) = Some vt ->
                validated_no_clash vt) /\
    pbs <> [] /\
    forall FI M, refutes_some FI M pbs <-> refutes_some FI M pbs'.
Proof.
  assert (N1 : forall vt, task_validated tau_star_total completion (simp_classic_total full_fuel) (with_flags taux true true DIndependent) = Some vt ->
                validated_no_clash vt) by (apply NoClashDec.task_no_clashb_spec; vm_compute; reflexivity).
  assert (N2 : forall vt, task_validated tau_star_total completion (simp_classic_total full_fuel) (with_flags taux false true DIndependent) = Some vt ->
                validated_no_clash vt) by (apply NoClashDec.task_no_clashb_spec; vm_compute; reflexivity).
  eexists _, _. split; [vm_compute; reflexivity|]. split; [vm_compute; reflexivity|].
  split; [exact N1|]. split; [exact N2|]. split; [discriminate|].
  apply (C19_external_simplify full_fuel taux true DIndependent [] _ [] _); [vm_compute; reflexivity|vm_compute; reflexivity|exact N1|exact N2].
Qed.
