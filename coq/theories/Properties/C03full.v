(* C03 (composed) - strong-equivalence obligations are refuted exactly by HT-distinguishing pairs,
   for the END-TO-END model of StrongEquivalenceTask::decompose (Model/StrongFull.v): tau* / mu,
   both fixpoint simplifications with the real portfolios, gamma, equivalence breaking, assembly,
   renaming, naming, decomposition.  NO component hypotheses: the hypotheses of C03_partial
   (Properties/C03.v) are discharged in Proofs/StrongFullOk.v by C01 (tau-star), C08+C01 (mu), C07
   (both simplifications, incl. "predicates not enlarged"), C05 (gamma), C19 (break, decomposition).

     H_of M p := M ("h"++p),   T_of M p := M ("t"++p)    (M: a classical interpretation of the h/t vocabulary)

   THE FUEL (audit A8).  The model of the unbounded Rust loop `while previous != current` takes
   the number of further passes as a parameter: [strong_decompose_full_fuel fuel t];
   [strong_decompose_full] is its executable instance at fuel 64 (extracted, compared with the
   code).  Every theorem below is stated FOR EVERY FUEL.  Termination of both loops is proved
   (C18_term_ht, C18_term_cls) and composed here: an SOk / SPanic answer is the same for every
   larger fuel (C03_fuel_monotone), from [strong_fuel_bound t] on the answer is never
   SNonterminating (C03_never_nonterminating), so every task has ONE answer that all sufficiently
   large fuels give (C03_eventual_result) and the headline statement holds for it
   (C03_strong_eventually); SNonterminating is only a fuel artefact
   (C03_nonterminating_is_fuel_artefact).

   Premises that remain, and why:
     strong_decompose_full_fuel fuel t = SOk pbs
                                         the model returned problems: the programs are outside the
                                         overflow class F11 ([no_global_overflow], implied by SOk:
                                         C03_full_defined; SPanic comes from that class only:
                                         C03_panic_only_overflow) and [fuel] passes sufficed;
     no_symbol_pred_clash_full_fuel fuel t
                                         no symbol of an emitted formula equals a 0-ary predicate of
                                         its problem; outside this class rename_conflicting_symbols
                                         changes the meaning (finding F8b, Properties/C03.v): the
                                         renamed constant s__s is then ordered by its NEW name in the
                                         symbol_order chain, which is false for the constant it stands
                                         for (C12_chain_refuted_after_rename, Properties/C12.v).  It
                                         does not depend on the fuel once the run returned
                                         (C03_clash_premise_fuel_independent).

   HOW TO READ THE STATEMENTS (audit A9).
   * "refuted" / "irrefutable" is about STANDARD structures: `refutes_some FI M pbs` evaluates the named
     formulas of a problem (cvalid: classical truth over the infinite standard domain of Sem/Domain.v,
     integers = Z, symbols = strings in byte order).  `forall FI M, ~ refutes_some FI M pbs` (lhs of
     C03_strong) is VALIDITY OVER THE STANDARD DOMAIN, not first-order provability - it is what a
     sound prover establishes when it reports `Theorem` from the emitted axioms, provided those axioms
     are true in the standard structure; it is NOT claimed that the prover finds a proof.
   * The preamble (standard_interpretation.p) and the symbol_order chain are NOT among the formulas
     `refutes` looks at: they enter by fixing the domain.  That they are true in the standard
     structure is C12 (C12_preamble, C12_chain_true / C12_chain_true_original - the latter only inside
     the no-clash class, which is the premise no_symbol_pred_clash_full here); that the emitted TFF
     text means the formulas evaluated here is C06 / C09.  "provable by vampire => strongly
     equivalent" is the composition C06 + C12 + C03_strong and is only cited, not a Coq theorem.
   * DUniversal: C03 says `refuted iff sub /\ (forward difference \/ backward difference)`; it does not
     say WHICH problem family is refuted.  That is separated by C03_universal_families below (the
     problems of --direction universal are the forward problems followed by the backward problems)
     together with C03_forward / C03_backward. *)
From Coq Require Import List String ZArith Bool.
Import ListNotations.
From Anthem Require Import Base.ISet Syntax.Fol Syntax.Asp Sem.Domain Sem.Sat Sem.AspRef Model.Problem
  Model.Strong Model.StrongFull Proofs.SemBase Proofs.DecomposeOk Proofs.StrongOk Proofs.TauStarProgram
  Proofs.StrongFullOk Proofs.StrongFamilies Proofs.StrongFuel Proofs.ParserImage Proofs.ParserImagePipeline Proofs.NoPanic Proofs.AspNamed.
From Anthem Require Model.AspParse.
Open Scope string_scope.

(* the general statement (any direction) *)
Theorem C03 :
  forall (fuel : nat) (FI : fint) (M : pint) (t : strong_task) (pbs : list problem),
    strong_decompose_full_fuel fuel t = SOk pbs -> no_symbol_pred_clash_full_fuel fuel t ->
    (refutes_some FI M pbs <->
     sub_on (strong_predicates (st_left t) (st_right t)) (H_of M) (T_of M) /\
     ((dir_forward (st_direction t) = true /\
       ref_sat (H_of M) (T_of M) (st_left t) /\ ~ ref_sat (H_of M) (T_of M) (st_right t)) \/
      (dir_backward (st_direction t) = true /\
       ref_sat (H_of M) (T_of M) (st_right t) /\ ~ ref_sat (H_of M) (T_of M) (st_left t)))).
Proof. exact C03_full_fuel_proof. Qed.
Print Assumptions C03.

(* direction forward: some emitted problem is refuted by M exactly when (H_of M, T_of M) is an HT
   interpretation on the programs' predicates that satisfies the left program and not the right *)
Theorem C03_forward :
  forall (fuel : nat) (FI : fint) (M : pint) (t : strong_task) (pbs : list problem),
    st_direction t = DForward ->
    strong_decompose_full_fuel fuel t = SOk pbs -> no_symbol_pred_clash_full_fuel fuel t ->
    (refutes_some FI M pbs <->
     sub_on (strong_predicates (st_left t) (st_right t)) (H_of M) (T_of M) /\
     ref_sat (H_of M) (T_of M) (st_left t) /\ ~ ref_sat (H_of M) (T_of M) (st_right t)).
Proof. exact C03_forward_fuel_proof. Qed.
Print Assumptions C03_forward.

Theorem C03_backward :
  forall (fuel : nat) (FI : fint) (M : pint) (t : strong_task) (pbs : list problem),
    st_direction t = DBackward ->
    strong_decompose_full_fuel fuel t = SOk pbs -> no_symbol_pred_clash_full_fuel fuel t ->
    (refutes_some FI M pbs <->
     sub_on (strong_predicates (st_left t) (st_right t)) (H_of M) (T_of M) /\
     ref_sat (H_of M) (T_of M) (st_right t) /\ ~ ref_sat (H_of M) (T_of M) (st_left t)).
Proof. exact C03_backward_fuel_proof. Qed.
Print Assumptions C03_backward.

(* all problems irrefutable <-> the programs have the same here-and-there models *)
Theorem C03_strong :
  forall (fuel : nat) (t : strong_task) (pbs : list problem),
    st_direction t = DUniversal ->
    strong_decompose_full_fuel fuel t = SOk pbs -> no_symbol_pred_clash_full_fuel fuel t ->
    ((forall FI M, ~ refutes_some FI M pbs) <->
     (forall H T, sub H T -> (ref_sat H T (st_left t) <-> ref_sat H T (st_right t)))).
Proof. exact C03_strong_fuel_proof. Qed.
Print Assumptions C03_strong.

(* the problems of --direction universal are the forward problems followed by the backward problems
   (with_direction t d: the same task with direction d) *)
Theorem C03_universal_families :
  forall (t : strong_task) (pbs : list problem),
    st_direction t = DUniversal -> strong_decompose_full t = SOk pbs ->
    exists pf pb,
      strong_decompose_full (with_direction t DForward) = SOk pf /\
      strong_decompose_full (with_direction t DBackward) = SOk pb /\
      pbs = (pf ++ pb)%list.
Proof. exact universal_families. Qed.
Print Assumptions C03_universal_families.

(* the SOk case is Model/Strong.v's assembly over the real components, and implies that neither
   program is in the overflow class *)
Theorem C03_full_defined :
  forall (fuel : nat) (t : strong_task) (pbs : list problem), strong_decompose_full_fuel fuel t = SOk pbs ->
    pbs = strong_decompose tau_star_tot mu_tot simp_ht_tot (simp_classic_tot_fuel fuel) t /\
    no_global_overflow (st_left t) /\ no_global_overflow (st_right t).
Proof. exact strong_decompose_full_fuel_ok. Qed.
Print Assumptions C03_full_defined.

(* when the model returns: without --simplify exactly outside the overflow class; in the overflow
   class it panics (as the code does, F11); the pre-gamma loop never runs out of fuel *)
Theorem C03_full_total_nosimplify :
  forall (fuel : nat) (t : strong_task), st_simplify t = false ->
    ((exists pbs, strong_decompose_full_fuel fuel t = SOk pbs) <->
     no_global_overflow (st_left t) /\ no_global_overflow (st_right t)).
Proof. exact strong_decompose_full_fuel_nosimplify. Qed.
Print Assumptions C03_full_total_nosimplify.

Theorem C03_full_panics_on_overflow :
  forall (fuel : nat) (t : strong_task),
    ~ no_global_overflow (st_left t) \/ ~ no_global_overflow (st_right t) -> strong_decompose_full_fuel fuel t = SPanic.
Proof. exact strong_decompose_full_fuel_panic_overflow. Qed.
Print Assumptions C03_full_panics_on_overflow.

Theorem C03_pre_gamma_total : forall f : formula, exists g, simp_ht_full f = SOk g.
Proof. exact simp_ht_full_total. Qed.
Print Assumptions C03_pre_gamma_total.

(* the clash premise is decidable by a boolean test on the model's own problems *)
Theorem C03_clash_premise_decidable :
  forall (fuel : nat) (t : strong_task),
    no_symbol_pred_clash_fullb_fuel fuel t = true <-> no_symbol_pred_clash_full_fuel fuel t.
Proof. exact no_symbol_pred_clash_fullb_fuel_ok. Qed.
Print Assumptions C03_clash_premise_decidable.

(* ---------- the fuel: C18_term_cls composed (audit A8) ---------- *)
(* the executable model is the instance at 64 passes *)
Theorem C03_executable_instance :
  forall t : strong_task, strong_decompose_full t = strong_decompose_full_fuel 64 t.
Proof. reflexivity. Qed.
Print Assumptions C03_executable_instance.

(* (i) monotonicity: an answer other than SNonterminating is the answer of every larger fuel *)
Theorem C03_fuel_monotone :
  forall (n : nat) (t : strong_task) (r : sresult (list problem)),
    strong_decompose_full_fuel n t = r -> r <> SNonterminating ->
    forall m, n <= m -> strong_decompose_full_fuel m t = r.
Proof. exact strong_decompose_full_fuel_mono. Qed.
Print Assumptions C03_fuel_monotone.
Corollary C03_fuel_monotone_ok :
  forall (n : nat) (t : strong_task) (pbs : list problem),
    strong_decompose_full_fuel n t = SOk pbs -> forall m, n <= m -> strong_decompose_full_fuel m t = SOk pbs.
Proof. intros n t pbs E. apply (strong_decompose_full_fuel_mono n t (SOk pbs) E). discriminate. Qed.
Print Assumptions C03_fuel_monotone_ok.

(* (ii) termination: from [strong_fuel_bound t] passes on (the maximum of ClsTerm.classic_fuel over
   the gamma-formulas of the task, <= (mu F + 1)^6) the model never answers SNonterminating *)
Theorem C03_never_nonterminating :
  forall t : strong_task, exists n, forall m, n <= m -> strong_decompose_full_fuel m t <> SNonterminating.
Proof. exact C03_never_nonterminating_proof. Qed.
Print Assumptions C03_never_nonterminating.
Theorem C03_never_nonterminating_bound :
  forall (t : strong_task) (m : nat), strong_fuel_bound t <= m -> strong_decompose_full_fuel m t <> SNonterminating.
Proof. exact strong_never_nonterminating. Qed.
Print Assumptions C03_never_nonterminating_bound.

(* every task has ONE answer - a list of problems or the panic - given by all sufficiently large
   fuels; "the result of the task" is well defined without reference to 64 *)
Theorem C03_eventual_result :
  forall t : strong_task,
    exists n r, r <> SNonterminating /\ forall m, n <= m -> strong_decompose_full_fuel m t = r.
Proof. exact strong_eventual_result. Qed.
Print Assumptions C03_eventual_result.

(* the Nonterminating outcome is only a fuel artefact *)
Theorem C03_nonterminating_is_fuel_artefact :
  forall (n : nat) (t : strong_task), strong_decompose_full_fuel n t = SNonterminating ->
    exists m r, n < m /\ r <> SNonterminating /\ forall m', m <= m' -> strong_decompose_full_fuel m' t = r.
Proof. exact strong_nonterminating_is_fuel_artefact. Qed.
Print Assumptions C03_nonterminating_is_fuel_artefact.

(* the clash premise does not depend on the fuel once the run returned problems *)
Theorem C03_clash_premise_fuel_independent :
  forall (n m : nat) (t : strong_task) (pbs : list problem), n <= m ->
    strong_decompose_full_fuel n t = SOk pbs ->
    (no_symbol_pred_clash_full_fuel n t <-> no_symbol_pred_clash_full_fuel m t).
Proof. exact strong_clash_fuel_independent. Qed.
Print Assumptions C03_clash_premise_fuel_independent.

(* THE HEADLINE FOR "THE RESULT OF THE TASK": for every task (direction universal) there is a
   number of passes n from which on either every fuel panics (the overflow class F11,
   C03_panic_only_overflow) or every fuel returns the same problems pbs, and for them - the clash
   premise taken at any such fuel - all problems are irrefutable iff the programs are strongly
   equivalent.  No SNonterminating, no 64. *)
Theorem C03_strong_eventually :
  forall t : strong_task, st_direction t = DUniversal ->
    exists n,
      (forall m, n <= m -> strong_decompose_full_fuel m t = SPanic) \/
      (exists pbs, (forall m, n <= m -> strong_decompose_full_fuel m t = SOk pbs) /\
                   forall m, n <= m -> no_symbol_pred_clash_full_fuel m t ->
                     ((forall FI M, ~ refutes_some FI M pbs) <->
                      (forall H T, sub H T -> (ref_sat H T (st_left t) <-> ref_sat H T (st_right t))))).
Proof.
  intros t Hd. destruct (strong_eventual_result t) as [n [r [Hr Hn]]]. exists n.
  destruct r as [pbs| |]; [right|left; exact Hn|congruence].
  exists pbs. split; [exact Hn|]. intros m Hm Hc.
  exact (C03_strong_fuel_proof m t pbs Hd (Hn m Hm) Hc).
Qed.
Print Assumptions C03_strong_eventually.

(* ---------- SPanic comes from the overflow class only (audit A8 b) ---------- *)
(* The rewrites of classic.rs panic only outside the parser image (empty guard list, empty variable
   name); tau*, the pre-gamma simplification and gamma produce parser-image formulas and the whole
   portfolio preserves the invariant (Properties/C07full.v), so the post-gamma loop never panics:
   the ONLY panic of the pipeline is F11.  [program_vars_named P]: every variable of P has a
   non-empty name (what the ASP parser produces; a hand-built program with the variable "" makes tau*
   bind an empty name). *)
Theorem C03_panic_only_overflow :
  forall (fuel : nat) (t : strong_task),
    program_vars_named (st_left t) -> program_vars_named (st_right t) ->
    strong_decompose_full_fuel fuel t = SPanic ->
    ~ no_global_overflow (st_left t) \/ ~ no_global_overflow (st_right t).
Proof. exact strong_panic_only_overflow. Qed.
Print Assumptions C03_panic_only_overflow.

Theorem C03_panic_iff_overflow :
  forall (fuel : nat) (t : strong_task),
    program_vars_named (st_left t) -> program_vars_named (st_right t) ->
    (strong_decompose_full_fuel fuel t = SPanic <->
     ~ no_global_overflow (st_left t) \/ ~ no_global_overflow (st_right t)).
Proof. exact strong_panic_iff_overflow. Qed.
Print Assumptions C03_panic_iff_overflow.

(* TOTALITY WITH --simplify (the counterpart of C03_full_total_nosimplify; audit A8 "no totality
   theorem for st_simplify = true"): outside the overflow class every sufficiently large fuel
   returns the same list of problems - both representations, every flag *)
Theorem C03_full_total :
  forall t : strong_task,
    program_vars_named (st_left t) -> program_vars_named (st_right t) ->
    no_global_overflow (st_left t) -> no_global_overflow (st_right t) ->
    exists n pbs, forall m, n <= m -> strong_decompose_full_fuel m t = SOk pbs.
Proof. exact strong_total_outside_overflow. Qed.
Print Assumptions C03_full_total.

(* the hypothesis is what the ASP parser guarantees: every program text the parser accepts yields a
   program whose variables have non-empty names (AspImage: an upper-case letter followed by letters and digits) *)
Theorem C03_parsed_programs_named :
  forall (s : string) (p : program), AspParse.parse_program_text s = AspParse.POk p -> program_vars_named p.
Proof. exact parsed_program_vars_named. Qed.
Print Assumptions C03_parsed_programs_named.

(* the generic form: whatever representation step delivers parser-image formulas ([repr_image t P]:
   every formula of the representation of P has >= 1 guard per comparison and non-empty bound
   names); instantiated above by tau_star_pi (tau-star) and mu_full_pi (mu, Proofs/ParserImageNatural.v) *)
Theorem C03_panic_only_overflow_generic :
  forall (fuel : nat) (t : strong_task),
    repr_image t (st_left t) -> repr_image t (st_right t) ->
    strong_decompose_full_fuel fuel t = SPanic ->
    ~ no_global_overflow (st_left t) \/ ~ no_global_overflow (st_right t).
Proof. exact strong_panic_only_overflow_partial. Qed.
Print Assumptions C03_panic_only_overflow_generic.

(* ---------- non-vacuity ---------- *)
(* (1) the model computes, inside Coq, exactly what the CLI prints.
       `p(X) :- q(X), not r(X).`  vs  `p(X) :- q(X).`
       anthem verify --equivalence strong --direction forward --no-proof-search --save-problems out c.lp d.lp
   writes the single problem forward_0.p whose formulas are (docs/C03full.md has the file):
     formula_0_transition_axiom_0  axiom       ![X1]: (hp(X1) => tp(X1))
     formula_1_transition_axiom_1  axiom       ![X1]: (hq(X1) => tq(X1))
     formula_2_transition_axiom_2  axiom       ![X1]: (hr(X1) => tr(X1))
     formula_3_left_0              axiom       ![V1,X]: (((V1 = X & (hq(X) & ~tr(X))) => hp(V1)) & ((V1 = X & (tq(X) & ~tr(X))) => tp(V1)))
     formula_4_right_0             conjecture  ![V1,X]: (((V1 = X & hq(X)) => hp(V1)) & ((V1 = X & tq(X)) => tp(V1)))
   (tau* gives `exists Z (Z = X and q(Z))` for the body atom; the post-gamma classic portfolio
   turns it into `q(X)`; the pre-gamma portfolio removes `and #true`.) *)
Definition c_lp : program :=
  [mkrule (HBasic (mkatom "p" [TVar "X"]))
          [BLit (mklit SNone (mkatom "q" [TVar "X"])); BLit (mklit SNeg (mkatom "r" [TVar "X"]))]].
Definition d_lp : program :=
  [mkrule (HBasic (mkatom "p" [TVar "X"])) [BLit (mklit SNone (mkatom "q" [TVar "X"]))]].

Definition gX := mkvar "X" SGeneral.
Definition gV1 := mkvar "V1" SGeneral.
Definition gX1 := mkvar "X1" SGeneral.
Definition at1 (p x : string) : formula := FAtomic (AAtom p [GVar x]).
Definition eqVX : formula := FAtomic (ACmp (GVar "V1") [mkguard REq (GVar "X")]).
Definition trans (p : string) : formula :=
  FQ QForall [gX1] (FBin CImp (at1 ("h" ++ p) "X1") (at1 ("t" ++ p) "X1")).

Example C03_cli_example :
  strong_decompose_full (mkstrong c_lp d_lp DSequential DForward ReprTauStar true true) =
  SOk [mkproblem "forward_0"
         [mkpf "formula_0_transition_axiom_0" PAxiom (trans "p");
          mkpf "formula_1_transition_axiom_1" PAxiom (trans "q");
          mkpf "formula_2_transition_axiom_2" PAxiom (trans "r");
          mkpf "formula_3_left_0" PAxiom
            (FQ QForall [gV1; gX]
               (FBin CAnd
                  (FBin CImp (FBin CAnd eqVX (FBin CAnd (at1 "hq" "X") (FNot (at1 "tr" "X")))) (at1 "hp" "V1"))
                  (FBin CImp (FBin CAnd eqVX (FBin CAnd (at1 "tq" "X") (FNot (at1 "tr" "X")))) (at1 "tp" "V1"))));
          mkpf "formula_4_right_0" PConjecture
            (FQ QForall [gV1; gX]
               (FBin CAnd
                  (FBin CImp (FBin CAnd eqVX (at1 "hq" "X")) (at1 "hp" "V1"))
                  (FBin CImp (FBin CAnd eqVX (at1 "tq" "X")) (at1 "tp" "V1"))))]].
Proof. vm_compute. reflexivity. Qed.

(* (2) the theorem is not vacuous: `p :- q, not r.` vs `p :- q.` (forward) are distinguished by the
   HT interpretation H = {q}, T = {q, r}; the clash premise holds; hence the emitted forward
   problem is refuted by the corresponding classical interpretation of hq, tq, tr. *)
Definition a0 (p : string) : atom := mkatom p [].
Definition e_lp : program := [mkrule (HBasic (a0 "p")) [BLit (mklit SNone (a0 "q")); BLit (mklit SNeg (a0 "r"))]].
Definition f_lp : program := [mkrule (HBasic (a0 "p")) [BLit (mklit SNone (a0 "q"))]].
Definition t_ex : strong_task := mkstrong e_lp f_lp DSequential DForward ReprTauStar true true.
Definition M_ex : pint := fun p a => p = "hq" \/ p = "tq" \/ p = "tr".

Lemma t_ex_no_clash : no_symbol_pred_clash_full_fuel 64 t_ex.
Proof. apply no_symbol_pred_clash_fullb_ok. vm_compute. reflexivity. Qed.

Example C03_nonvacuous :
  exists pbs, strong_decompose_full t_ex = SOk pbs /\ pbs <> [] /\
    refutes_some (mkfint (fun _ => VInf) (fun _ => 0%Z) (fun _ => "")) M_ex pbs.
Proof.
  destruct (strong_decompose_full t_ex) as [pbs| |] eqn:E; try (vm_compute in E; discriminate).
  exists pbs. split; [reflexivity|]. split; [intros ->; vm_compute in E; discriminate|].
  apply (proj2 (C03_forward 64 (mkfint (fun _ => VInf) (fun _ => 0%Z) (fun _ => "")) M_ex t_ex pbs eq_refl E t_ex_no_clash)).
  change (st_left t_ex) with e_lp. change (st_right t_ex) with f_lp.
  assert (Hq : forall sg vs, tuple_vals sg [] vs -> vs = []) by (intros sg vs Hv; inversion Hv; reflexivity).
  split; [|split].
  - intros p a _. unfold H_of, T_of, M_ex. cbn [String.append]. intros [Hp|[Hp|Hp]].
    + injection Hp as ->. right; left; reflexivity.
    + discriminate Hp.
    + discriminate Hp.
  - intros r [<-|[]] sg.
    assert (Hf : forall W, ~ body_sat W (T_of M_ex) sg (rbody (mkrule (HBasic (a0 "p")) [BLit (mklit SNone (a0 "q")); BLit (mklit SNeg (a0 "r"))]))).
    { intros W Hb. cbn [rbody] in Hb. inversion Hb as [|x l _ Hb']; subst. inversion Hb' as [|y l' Hr _]; subst.
      cbn in Hr. destruct Hr as [vs [Hv Hn]]. apply Hn. rewrite (Hq _ _ Hv). unfold T_of, M_ex. cbn. auto. }
    split; intros Hb; exfalso; exact (Hf _ Hb).
  - intros Hs. specialize (Hs _ (or_introl eq_refl) (fun _ => VInf)). destruct Hs as [Hh _].
    assert (Hb : body_sat (H_of M_ex) (T_of M_ex) (fun _ => VInf) [BLit (mklit SNone (a0 "q"))]).
    { constructor; [|constructor]. exists []. split; [constructor|]. unfold H_of, M_ex. cbn. auto. }
    specialize (Hh Hb []). cbn in Hh. specialize (Hh (Forall2_nil _)). unfold H_of, M_ex in Hh. cbn in Hh.
    destruct Hh as [Hx|[Hx|Hx]]; discriminate Hx.
Qed.
