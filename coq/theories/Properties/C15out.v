(* C15, second sentence: "this holds in particular for everything the translate and simplify commands
   print".  PARTIAL: proved for the five translations under explicit decidable premises on the INPUT,
   FALSE for `simplify` (recorded findings, no theorem).  Statements only; proofs in Proofs/FolOutput.v
   (tau-star), Proofs/FolOutputGamma.v (gamma), Proofs/FolOutputNatural.v (natural, mu),
   Proofs/FolOutputCompletion.v (completion, CLI corollaries).

   The round-trip theorems of Properties/C15.v / C15text.v hold for well-formed trees OUTSIDE the recorded
   defect classes (F7b: an identifier with a keyword literal at its front in formula-start position;
   C15-RIMP: `<-` followed by a formula that begins with an integer term).  The classes lie inside the
   image of the parser and are defects of anthem (known_findings.jsonl; witnesses C15_known_F7b,
   C15_known_RIMP, C15_F7b_in_image in Properties/C15.v).  This file states which OUTPUTS are outside them:

   * tau*  (translate --with tau-star): always, unless a PREDICATE NAME of the program is in class F7b
     (`notp`, `forallX`, `existsY`): tau* produces no `<-`, and every comparison it produces begins with a
     variable, so the only identifiers in formula-start position are the program's predicate names.
     C15_translate_output_reparses, C15_cli_translate_tau_star_feeds_back (no hypothesis on the program
     other than that the parser accepted it and `no_keyword_predicate`).
   * natural, mu (translate --with natural | mu): unless a predicate name is in class F7b OR a body
     comparison that natural prints with its own left-hand side first has a keyword-prefixed SYMBOLIC
     CONSTANT as its left-hand side (`p :- notq = 1.` prints `notq = 1 -> p.`, read back as
     `not q = 1 -> p.`; `p :- forallX = 1.` prints a text that is refused: finding F7e, audit 2 B4).
     [no_keyword_front P] (Model/FolOutClass.v) is that condition; for natural it is EXACT
     (C15_natural_output_F7b_iff).  C15_natural_output_reparses, C15_mu_output_reparses,
     C15_cli_translate_natural_feeds_back, C15_cli_translate_mu_feeds_back.
   * gamma (translate --with gamma): gamma preserves well-formedness and does not create members of the
     classes (C15_gamma_preserves_classes); it keeps `<-`, so a C15-RIMP input stays C15-RIMP
     (C15_gamma_keeps_RIMP: the route `translate --with gamma` on `p <- (1 = 1).` of the audit).
     C15_gamma_output_reparses, C15_cli_translate_gamma_feeds_back.
   * completion (translate --with completion): preserves well-formedness and creates no member of the
     classes (it builds `<->`, `or`, quantifiers and atoms p(V, V1, ..) over predicate symbols of the
     input around sub-formulas of the input; a `<-` survives only inside a constraint, unchanged).
     C15_completion_output_reparses, C15_cli_translate_completion_feeds_back,
     C15_tau_star_completion_output_reparses.
   * the simplification portfolios: the sentence is FALSE on the real code and there is NO theorem.
     Every portfolio creates members of the classes from class-free input:
       - intuitionistic / ht / classic: evaluate_comparisons splits the chain `1 = notq != 2.` into
         `1 = notq and notq != 2.`, read back as `1 = notq and not q != 2.`  (C15_simplify_creates_F7b_split);
       - classic: substitute_defined_variables turns `exists X (X = notq and X != 1).` into
         `exists X (notq = notq and notq != 1).`  (C15_simplify_creates_F7b_subst) and
         `exists X (X = 1 and (p <- (X = 2))).` into the C15-RIMP member
         `exists X (1 = 1 and (p <- 1 = 2)).`  (C15_simplify_creates_RIMP);
       - tau* output piped into simplify: `p :- notq != 1.` (no keyword predicate) ends as
         `notq != 1 -> p.`  (C15_tau_star_simplify_creates_F7b);
     before the repair F18 the classic portfolio also invented the variable name `_` (C15_F18_fixed is
     the regression example).  C15_cli_simplify_text_round_trip_restated is NOT a theorem about the
     simplifier: it is C15_text_theory restated for whatever `simplify` prints, with well-formedness and
     class-freedom of the OUTPUT as premises (what the op fol_output_reparses of props/C15out.json checks
     on the real portfolios at every run). *)
From Coq Require Import List Ascii String ZArith Bool.
From Anthem Require Import Syntax.Fol Syntax.Asp Model.AspParse Model.TauStar Model.Gamma
  Model.Natural Model.CliMu Model.Completion
  Model.FolLex Model.FolParse Model.FolPrint Model.FolClass Model.Cli Model.CliOut Model.FolOutClass
  Proofs.FolOutput Proofs.FolOutputGamma Proofs.FolOutputNatural Proofs.FolOutputCompletion.
Import ListNotations.
Open Scope string_scope.
Open Scope list_scope.

(* ---------------------------------------------------------------- tau* *)
(* [fol_names_ok P]: every predicate / symbolic constant of P is a symbol name of the target language,
   every variable a variable name, every numeral in isize (Model/CliOut.v);
   [no_keyword_predicate P]: no predicate name of P begins with `not`, or with `forall` / `exists` followed
   by an upper-case word (FolClass.kw_prefixed). *)
Theorem C15_translate_output_reparses :
  forall (P : program) (G : theory),
  fol_names_ok P = true -> no_keyword_predicate P = true -> tau_star P = Some G ->
  wf_theory G = true /\ known_class_theory G = None /\
  parse_theory_str (show_theory G) = PR_ok G.
Proof. exact translate_output_reparses. Qed.
Print Assumptions C15_translate_output_reparses.

(* the first premise is what the program parser guarantees *)
Theorem C15_parsed_program_names_ok :
  forall (s : string) (P : program), parse_program_text s = POk P -> fol_names_ok P = true.
Proof. exact parsed_program_names_ok. Qed.
Print Assumptions C15_parsed_program_names_ok.

(* end to end on the CLI model: what `anthem translate --with tau-star FILE` prints is accepted by
   `anthem parse --as theory` as the same theory and printed back byte for byte *)
Theorem C15_cli_translate_tau_star_feeds_back :
  forall (s out : string),
  run_cli (Translate TauStar) s = Stdout out ->
  exists (P : program) (G : theory),
    parse_program_text s = POk P /\ tau_star P = Some G /\ out = show_theory G /\
    (no_keyword_predicate P = true ->
     wf_theory G = true /\ known_class_theory G = None /\
     parse_theory_str out = PR_ok G /\ run_cli (Parse Theory) out = Stdout out).
Proof. exact cli_translate_tau_star_feeds_back. Qed.
Print Assumptions C15_cli_translate_tau_star_feeds_back.

(* the exclusion is necessary: the predicate `notp` (class F7b on the program side) *)
Example C15_translate_F7b_needed :
  match parse_program_text "notp :- q." with
  | POk P =>
    no_keyword_predicate P = false /\
    match tau_star P with
    | Some G => show_theory G = ("q -> notp." ++ String (ascii_of_nat 10) "")%string /\
                known_class_theory G = Some "F7b" /\ parse_theory_str (show_theory G) <> PR_ok G
    | None => False
    end
  | _ => False
  end.
Proof. vm_compute. repeat split; discriminate. Qed.

(* ---------------------------------------------------------------- natural, mu *)
(* [no_keyword_front P] (Model/FolOutClass.v): no predicate name of P is keyword-prefixed
   (= no_keyword_predicate) and no body comparison `c rel t` of P -- other than the interval membership
   `c = t1..t2`, which natural prints as `t1 <= c <= t2` -- has a keyword-prefixed symbolic constant c
   as its left-hand side. *)
Theorem C15_natural_output_reparses :
  forall (P : program) (G : theory),
  fol_names_ok P = true -> no_keyword_front P = true -> Natural.natural P = NOk G ->
  wf_theory G = true /\ known_class_theory G = None /\
  parse_theory_str (show_theory G) = PR_ok G.
Proof. exact natural_output_reparses. Qed.
Print Assumptions C15_natural_output_reparses.

(* the premise is exact: outside it the output of natural IS in a recorded class (F7b) *)
Theorem C15_natural_output_F7b_iff :
  forall (P : program) (G : theory),
  fol_names_ok P = true -> Natural.natural P = NOk G ->
  (known_class_theory G = None <-> no_keyword_front P = true).
Proof. exact natural_output_F7b_iff. Qed.
Print Assumptions C15_natural_output_F7b_iff.

(* mu = natural_rule where it succeeds, tau_star_rule elsewhere *)
Theorem C15_mu_output_reparses :
  forall (P : program) (G : theory),
  fol_names_ok P = true -> no_keyword_front P = true -> CliMu.mu P = NOk G ->
  wf_theory G = true /\ known_class_theory G = None /\
  parse_theory_str (show_theory G) = PR_ok G.
Proof. exact mu_output_reparses. Qed.
Print Assumptions C15_mu_output_reparses.

(* end to end on the CLI model *)
Theorem C15_cli_translate_natural_feeds_back :
  forall (s out : string),
  run_cli (Translate Cli.Natural) s = Stdout out ->
  exists (P : program) (G : theory),
    parse_program_text s = POk P /\ Natural.natural P = NOk G /\ out = show_theory G /\
    (no_keyword_front P = true ->
     wf_theory G = true /\ known_class_theory G = None /\
     parse_theory_str out = PR_ok G /\ run_cli (Parse Theory) out = Stdout out).
Proof. exact cli_translate_natural_feeds_back. Qed.
Print Assumptions C15_cli_translate_natural_feeds_back.

Theorem C15_cli_translate_mu_feeds_back :
  forall (s out : string),
  run_cli (Translate Mu) s = Stdout out ->
  exists (P : program) (G : theory),
    parse_program_text s = POk P /\ CliMu.mu P = NOk G /\ out = show_theory G /\
    (no_keyword_front P = true ->
     wf_theory G = true /\ known_class_theory G = None /\
     parse_theory_str out = PR_ok G /\ run_cli (Parse Theory) out = Stdout out).
Proof. exact cli_translate_mu_feeds_back. Qed.
Print Assumptions C15_cli_translate_mu_feeds_back.

(* the exclusion is necessary and is NOT the one of tau*: `p :- notq = 1.` has no keyword predicate
   (finding F7e; audit 2, B4: /work/audit2/core/n2) *)
Example C15_natural_F7e_needed :
  match parse_program_text "p :- notq = 1." with
  | POk P =>
    no_keyword_predicate P = true /\ no_keyword_front P = false /\
    match Natural.natural P, CliMu.mu P, tau_star P with
    | NOk G, NOk M, Some T =>
      show_theory G = ("notq = 1 -> p." ++ String (ascii_of_nat 10) "")%string /\ M = G /\
      known_class_theory G = Some "F7b" /\
      parse_theory_str (show_theory G) <> PR_ok G /\
      run_cli (Parse Theory) (show_theory G) = Stdout ("not q = 1 -> p." ++ String (ascii_of_nat 10) "")%string /\
      (* tau* of the same program is fed back *)
      parse_theory_str (show_theory T) = PR_ok T
    | _, _, _ => False
    end
  | _ => False
  end.
Proof. vm_compute. repeat split; discriminate. Qed.

(* `forallX` is a symbolic constant of the input language; the printed text is refused *)
Example C15_natural_F7e_refused :
  run_cli (Translate Cli.Natural) "p :- forallX = 1." = Stdout ("forallX = 1 -> p." ++ String (ascii_of_nat 10) "")%string /\
  run_cli (Translate Mu) "p :- forallX = 1." = Stdout ("forallX = 1 -> p." ++ String (ascii_of_nat 10) "")%string /\
  run_cli (Parse Theory) ("forallX = 1 -> p." ++ String (ascii_of_nat 10) "")%string = Error.
Proof. vm_compute. repeat split. Qed.

(* non-vacuity and sharpness of the premise: keyword-prefixed constants everywhere natural does NOT
   print them first (right-hand side, interval membership, arguments of head and body atoms) *)
Example C15_natural_premise_sharp :
  match parse_program_text "p(notq, X) :- q(forallX, X), 1 = notq, notq = 1..2, existsa != X, not r(nota)." with
  | POk P =>
    no_keyword_front P = true /\
    match Natural.natural P with
    | NOk G =>
      show_theory G = ("forall X (q(forallX, X) and 1 = notq and 1 <= notq <= 2 and existsa != X and not r(nota) -> p(notq, X))."
                       ++ String (ascii_of_nat 10) "")%string /\
      parse_theory_str (show_theory G) = PR_ok G
    | _ => False
    end
  | _ => False
  end.
Proof. vm_compute. repeat split. Qed.

(* ---------------------------------------------------------------- completion *)
Theorem C15_completion_output_reparses :
  forall (t : theory) (inputs : list pred) (D : theory),
  wf_theory t = true -> known_class_theory t = None -> Completion.completion t inputs = Some D ->
  wf_theory D = true /\ known_class_theory D = None /\
  parse_theory_str (show_theory D) = PR_ok D.
Proof. exact completion_output_reparses. Qed.
Print Assumptions C15_completion_output_reparses.

Theorem C15_cli_translate_completion_feeds_back :
  forall (s out : string),
  run_cli (Translate Cli.Completion) s = Stdout out ->
  exists t D : theory,
    parse_theory_str s = PR_ok t /\ Completion.completion t [] = Some D /\ out = show_theory D /\
    (known_class_theory t = None ->
     wf_theory D = true /\ known_class_theory D = None /\
     parse_theory_str out = PR_ok D /\ run_cli (Parse Theory) out = Stdout out).
Proof. exact cli_translate_completion_feeds_back. Qed.
Print Assumptions C15_cli_translate_completion_feeds_back.

(* tau* followed by completion (the pipeline of `verify`) *)
Theorem C15_tau_star_completion_output_reparses :
  forall (P : program) (G D : theory),
  fol_names_ok P = true -> no_keyword_predicate P = true -> tau_star P = Some G ->
  Completion.completion G [] = Some D ->
  parse_theory_str (show_theory D) = PR_ok D.
Proof. exact tau_star_completion_output_reparses. Qed.
Print Assumptions C15_tau_star_completion_output_reparses.

(* non-vacuity: a completable theory with a constraint written with `<-`, an implicit definition (r) and
   two rules for p *)
Example C15_completion_example :
  match parse_theory_str "forall X (q(X) -> p(X)). forall X (p(X) <- r(X) and X > 1). #false <- q(1)." with
  | PR_ok t =>
    known_class_theory t = None /\
    match Completion.completion t [] with
    | Some D =>
      show_theory D = ("#false <- q(1)." ++ String (ascii_of_nat 10)
                       ("forall X (p(X) <-> q(X) or r(X) and X > 1)." ++ String (ascii_of_nat 10)
                       ("forall V1 (q(V1) <-> #false)." ++ String (ascii_of_nat 10)
                       ("forall V1 (r(V1) <-> #false)." ++ String (ascii_of_nat 10) ""))))%string /\
      parse_theory_str (show_theory D) = PR_ok D
    | None => False
    end
  | _ => False
  end.
Proof. vm_compute. repeat split. Qed.

(* completion keeps a constraint as it is, C15-RIMP members included: the class exclusion on the input
   is necessary *)
Example C15_completion_keeps_RIMP :
  match parse_theory_str "(p <- (1 = 1)) -> #false." with
  | PR_ok t =>
    known_class_theory t = Some "C15-RIMP" /\
    match Completion.completion t [] with
    | Some D => known_class_theory D = Some "C15-RIMP" /\ parse_theory_str (show_theory D) <> PR_ok D
    | None => False
    end
  | _ => False
  end.
Proof. vm_compute. repeat split; discriminate. Qed.

(* ---------------------------------------------------------------- gamma *)
Theorem C15_gamma_preserves_classes :
  forall f : formula, wf_formula f = true ->
  wf_formula (gamma f) = true /\
  (keyword_ident (gamma f) = true -> keyword_ident f = true) /\
  (rimp_neg (gamma f) = true -> rimp_neg f = true).
Proof.
  intros f W. split; [exact (gamma_wf f W)|]. split; [exact (gamma_keyword_ident f)|exact (gamma_rimp_neg f W)].
Qed.
Print Assumptions C15_gamma_preserves_classes.

Theorem C15_gamma_output_reparses :
  forall t : theory, wf_theory t = true -> known_class_theory t = None ->
  wf_theory (gamma_theory t) = true /\ known_class_theory (gamma_theory t) = None /\
  parse_theory_str (show_theory (gamma_theory t)) = PR_ok (gamma_theory t).
Proof. exact gamma_output_reparses. Qed.
Print Assumptions C15_gamma_output_reparses.

Theorem C15_cli_translate_gamma_feeds_back :
  forall (s out : string),
  run_cli (Translate Gamma) s = Stdout out ->
  exists t : theory,
    parse_theory_str s = PR_ok t /\ out = show_theory (gamma_theory t) /\
    (known_class_theory t = None ->
     known_class_theory (gamma_theory t) = None /\
     parse_theory_str out = PR_ok (gamma_theory t) /\ run_cli (Parse Theory) out = Stdout out).
Proof. exact cli_translate_gamma_feeds_back. Qed.
Print Assumptions C15_cli_translate_gamma_feeds_back.

(* tau* followed by gamma (the pipeline of `verify`): still fed back *)
Theorem C15_tau_star_gamma_output_reparses :
  forall (P : program) (G : theory),
  fol_names_ok P = true -> no_keyword_predicate P = true -> tau_star P = Some G ->
  parse_theory_str (show_theory (gamma_theory G)) = PR_ok (gamma_theory G).
Proof.
  intros P G Ho Hk E. destruct (translate_output_reparses P G Ho Hk E) as (W & K & _).
  apply (gamma_output_reparses G W K).
Qed.
Print Assumptions C15_tau_star_gamma_output_reparses.

(* gamma keeps `<-`: the route of the audit, `translate --with gamma` on `p <- (1 = 1).` *)
Example C15_gamma_keeps_RIMP :
  match parse_theory_str "p <- (1 = 1)." with
  | PR_ok t =>
    known_class_theory t = Some "C15-RIMP" /\
    known_class_theory (gamma_theory t) = Some "C15-RIMP" /\
    show_theory (gamma_theory t) = ("(hp <- 1 = 1) and (tp <- 1 = 1)." ++ String (ascii_of_nat 10) "")%string /\
    parse_theory_str (show_theory (gamma_theory t)) <> PR_ok (gamma_theory t)
  | _ => False
  end.
Proof. vm_compute. repeat split; discriminate. Qed.

(* ---------------------------------------------------------------- simplify *)
(* NO theorem: for `simplify` the sentence is false on the real code (Examples below; recorded findings
   C15-RIMP-created, C15-RIMP-simplify, C15-F7b-created-split, C15-F7b-created-subst).
   The statement below is NOT about the simplifier: it is C15_text_theory restated for whatever theory g
   the command prints; `wf_theory g` and `known_class_theory g = None` are premises about the OUTPUT. *)
Theorem C15_cli_simplify_text_round_trip_restated :
  forall (pf : simplification_portfolio) (st : simplification_strategy) (s out : string),
  run_cli (Simplify pf st) s = Stdout out ->
  exists t g : theory,
    parse_theory_str s = PR_ok t /\ simplify_theory pf st t = Got g /\ out = show_theory g /\
    (wf_theory g = true -> known_class_theory g = None ->
     parse_theory_str out = PR_ok g /\ run_cli (Parse Theory) out = Stdout out).
Proof. exact cli_simplify_text_round_trip_restated. Qed.
Print Assumptions C15_cli_simplify_text_round_trip_restated.

(* every portfolio creates a member of F7b from a class-free theory: evaluate_comparisons (first rewrite
   of INTUITIONISTIC, hence of all three portfolios) splits a comparison chain, which moves the middle
   term into formula-start position *)
Example C15_simplify_creates_F7b_split :
  match parse_theory_str "1 = notq != 2." with
  | PR_ok t =>
    known_class_theory t = None /\ parse_theory_str (show_theory t) = PR_ok t /\
    match simplify_theory Intuitionistic Shallow t, simplify_theory Ht Recursive t, simplify_theory Classic Fixpoint_ t with
    | Got g, Got g2, Got g3 =>
      show_theory g = ("1 = notq and notq != 2." ++ String (ascii_of_nat 10) "")%string /\ g2 = g /\ g3 = g /\
      wf_theory g = true /\ known_class_theory g = Some "F7b" /\
      run_cli (Parse Theory) (show_theory g) = Stdout ("1 = notq and not q != 2." ++ String (ascii_of_nat 10) "")%string
    | _, _, _ => False
    end
  | _ => False
  end.
Proof. vm_compute. repeat split. Qed.

(* the classic portfolio: substitute_defined_variables puts the symbolic constant in front *)
Example C15_simplify_creates_F7b_subst :
  match parse_theory_str "exists X (X = notq and X != 1)." with
  | PR_ok t =>
    known_class_theory t = None /\
    match simplify_theory Classic Shallow t with
    | Got g =>
      show_theory g = ("exists X (notq = notq and notq != 1)." ++ String (ascii_of_nat 10) "")%string /\
      wf_theory g = true /\ known_class_theory g = Some "F7b" /\
      parse_theory_str (show_theory g) <> PR_ok g
    | Stop _ => False
    end
  | _ => False
  end.
Proof. vm_compute. repeat split; discriminate. Qed.

(* tau* output (proved class-free: the program has no keyword predicate) piped into simplify *)
Example C15_tau_star_simplify_creates_F7b :
  match parse_program_text "p :- notq != 1." with
  | POk P =>
    no_keyword_predicate P = true /\
    match tau_star P with
    | Some T =>
      known_class_theory T = None /\
      match simplify_theory Classic Fixpoint_ T with
      | Got g =>
        show_theory g = ("notq != 1 -> p." ++ String (ascii_of_nat 10) "")%string /\
        known_class_theory g = Some "F7b" /\ parse_theory_str (show_theory g) <> PR_ok g
      | Stop _ => False
      end
    | None => False
    end
  | _ => False
  end.
Proof. vm_compute. repeat split; discriminate. Qed.

(* the classic portfolio creates a member of C15-RIMP from a class-free theory
   (substitute_defined_variables puts the numeral 1 behind `<-`) *)
Example C15_simplify_creates_RIMP :
  match parse_theory_str "exists X (X = 1 and (p <- (X = 2)))." with
  | PR_ok t =>
    known_class_theory t = None /\
    match simplify_theory Classic Shallow t with
    | Got g =>
      show_theory g = ("exists X (1 = 1 and (p <- 1 = 2))." ++ String (ascii_of_nat 10) "")%string /\
      wf_theory g = true /\ known_class_theory g = Some "C15-RIMP" /\
      parse_theory_str (show_theory g) <> PR_ok g
    | Stop _ => False
    end
  | _ => False
  end.
Proof. vm_compute. repeat split; discriminate. Qed.

(* the ht portfolio leaves a nested `<-` alone under the shallow strategy: the second route of the audit *)
Example C15_simplify_keeps_RIMP :
  match parse_theory_str "q and (p <- (X$i > 0))." with
  | PR_ok t =>
    known_class_theory t = Some "C15-RIMP" /\
    match simplify_theory Ht Shallow t with
    | Got g => g = t /\ parse_theory_str (show_theory g) <> PR_ok g
    | Stop _ => False
    end
  | _ => False
  end.
Proof. vm_compute. repeat split; discriminate. Qed.

(* regression for finding F18 (repaired): the fresh variable that restrict_quantifier_domain invents for
   `_I$i` is `I$i` (before the repair: `_$i`, which the parser refuses) *)
Example C15_F18_fixed :
  match parse_theory_str "exists Z (exists _I$i (_I$i = Z and q(Z)) and p(Z))." with
  | PR_ok t =>
    match simplify_theory Classic Shallow t with
    | Got g =>
      show_theory g = ("exists I$i (exists _I$i (_I$i = I$i and q(I$i)) and p(I$i))." ++ String (ascii_of_nat 10) "")%string /\
      wf_theory g = true /\ known_class_theory g = None /\ parse_theory_str (show_theory g) = PR_ok g
    | Stop _ => False
    end
  | _ => False
  end.
Proof. vm_compute. repeat split. Qed.
