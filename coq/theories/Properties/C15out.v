(* C15, second sentence: "this holds in particular for everything the translate and simplify commands
   print".  Statements only; proofs in Proofs/FolOutput.v (tau-star) and Proofs/FolOutputGamma.v (gamma, CLI).

   The round-trip theorems of Properties/C15.v / C15text.v hold for well-formed trees OUTSIDE the recorded
   defect classes (F7b: an identifier with a keyword literal at its front in formula-start position;
   C15-RIMP: `<-` followed by a formula that begins with an integer term).  The classes lie inside the
   image of the parser and are defects of anthem (known_findings.jsonl; witnesses C15_known_F7b,
   C15_known_RIMP, C15_F7b_in_image in Properties/C15.v).  This file states which OUTPUTS are outside them:

   * tau*  (translate --with tau-star): always, unless a PREDICATE NAME of the program is in class F7b
     (`notp`, `forallX`, `existsY`): tau* produces no `<-`, and every comparison it produces begins with a
     variable, so the only identifiers in formula-start position are the program's predicate names.
     C15_translate_output_reparses, C15_cli_translate_tau_star_feeds_back (no hypothesis on the program
     other than that the parser accepted it and `no_keyword_predicate`).
   * gamma (translate --with gamma): gamma preserves well-formedness and does not create members of the
     classes (C15_gamma_preserves_classes); it keeps `<-`, so a C15-RIMP input stays C15-RIMP
     (C15_gamma_keeps_RIMP: the route `translate --with gamma` on `p <- (1 = 1).` of the audit).
     C15_gamma_output_reparses, C15_cli_translate_gamma_feeds_back.
   * the simplification portfolios: NOT preserved.  The classic portfolio turns the class-free
     `exists X (X = 1 and (p <- (X = 2))).` into the C15-RIMP member `exists X (1 = 1 and (p <- 1 = 2)).`
     (C15_simplify_creates_RIMP, a defect reached through `simplify`), and before the repair F18 it
     invented the variable name `_` (C15_F18_fixed is the regression example).  So for `simplify` only the
     conditional statement C15_cli_simplify_feeds_back_partial is proved: IF the simplified theory is
     well-formed and outside the classes THEN it is fed back unchanged; the two premises are checked on
     every run by the op fol_output_reparses (props/C15out.json) on the real portfolios.
   * natural, mu, completion: no theorem; sampled by the same op. *)
From Coq Require Import List Ascii String ZArith Bool.
From Anthem Require Import Syntax.Fol Syntax.Asp Model.AspParse Model.TauStar Model.Gamma
  Model.FolLex Model.FolParse Model.FolPrint Model.FolClass Model.Cli Model.CliOut
  Proofs.FolOutput Proofs.FolOutputGamma.
Import ListNotations.
Open Scope string_scope.
Open Scope list_scope.

(* ---------------------------------------------------------------- tau* *)
(* [fol_names_ok P]: every predicate / symbolic constant of P is a symbol name of the target language,
   every variable a variable name, every numeral in isize (Model/CliOut.v);
   [no_keyword_predicate P]: no predicate name of P begins with `not`, or with `forall` / `exists` followed
   by an upper-case word (FolClass.kw_prefixed). *)
Theorem C15_translate_output_reparses :
  forall (P : program) (G : theory),
  fol_names_ok P = true -> no_keyword_predicate P = true -> tau_star P = Some G ->
  wf_theory G = true /\ known_class_theory G = None /\
  parse_theory_str (show_theory G) = PR_ok G.
Proof. exact translate_output_reparses. Qed.
Print Assumptions C15_translate_output_reparses.

(* the first premise is what the program parser guarantees *)
Theorem C15_parsed_program_names_ok :
  forall (s : string) (P : program), parse_program_text s = POk P -> fol_names_ok P = true.
Proof. exact parsed_program_names_ok. Qed.
Print Assumptions C15_parsed_program_names_ok.

(* end to end on the CLI model: what `anthem translate --with tau-star FILE` prints is accepted by
   `anthem parse --as theory` as the same theory and printed back byte for byte *)
Theorem C15_cli_translate_tau_star_feeds_back :
  forall (s out : string),
  run_cli (Translate TauStar) s = Stdout out ->
  exists (P : program) (G : theory),
    parse_program_text s = POk P /\ tau_star P = Some G /\ out = show_theory G /\
    (no_keyword_predicate P = true ->
     wf_theory G = true /\ known_class_theory G = None /\
     parse_theory_str out = PR_ok G /\ run_cli (Parse Theory) out = Stdout out).
Proof. exact cli_translate_tau_star_feeds_back. Qed.
Print Assumptions C15_cli_translate_tau_star_feeds_back.

(* the exclusion is necessary: the predicate `notp` (class F7b on the program side) *)
Example C15_translate_F7b_needed :
  match parse_program_text "notp :- q." with
  | POk P =>
    no_keyword_predicate P = false /\
    match tau_star P with
    | Some G => show_theory G = ("q -> notp." ++ String (ascii_of_nat 10) "")%string /\
                known_class_theory G = Some "F7b" /\ parse_theory_str (show_theory G) <> PR_ok G
    | None => False
    end
  | _ => False
  end.
Proof. vm_compute. repeat split; discriminate. Qed.

(* ---------------------------------------------------------------- gamma *)
Theorem C15_gamma_preserves_classes :
  forall f : formula, wf_formula f = true ->
  wf_formula (gamma f) = true /\
  (keyword_ident (gamma f) = true -> keyword_ident f = true) /\
  (rimp_neg (gamma f) = true -> rimp_neg f = true).
Proof.
  intros f W. split; [exact (gamma_wf f W)|]. split; [exact (gamma_keyword_ident f)|exact (gamma_rimp_neg f W)].
Qed.
Print Assumptions C15_gamma_preserves_classes.

Theorem C15_gamma_output_reparses :
  forall t : theory, wf_theory t = true -> known_class_theory t = None ->
  wf_theory (gamma_theory t) = true /\ known_class_theory (gamma_theory t) = None /\
  parse_theory_str (show_theory (gamma_theory t)) = PR_ok (gamma_theory t).
Proof. exact gamma_output_reparses. Qed.
Print Assumptions C15_gamma_output_reparses.

Theorem C15_cli_translate_gamma_feeds_back :
  forall (s out : string),
  run_cli (Translate Gamma) s = Stdout out ->
  exists t : theory,
    parse_theory_str s = PR_ok t /\ out = show_theory (gamma_theory t) /\
    (known_class_theory t = None ->
     known_class_theory (gamma_theory t) = None /\
     parse_theory_str out = PR_ok (gamma_theory t) /\ run_cli (Parse Theory) out = Stdout out).
Proof. exact cli_translate_gamma_feeds_back. Qed.
Print Assumptions C15_cli_translate_gamma_feeds_back.

(* tau* followed by gamma (the pipeline of `verify`): still fed back *)
Theorem C15_tau_star_gamma_output_reparses :
  forall (P : program) (G : theory),
  fol_names_ok P = true -> no_keyword_predicate P = true -> tau_star P = Some G ->
  parse_theory_str (show_theory (gamma_theory G)) = PR_ok (gamma_theory G).
Proof.
  intros P G Ho Hk E. destruct (translate_output_reparses P G Ho Hk E) as (W & K & _).
  apply (gamma_output_reparses G W K).
Qed.
Print Assumptions C15_tau_star_gamma_output_reparses.

(* gamma keeps `<-`: the route of the audit, `translate --with gamma` on `p <- (1 = 1).` *)
Example C15_gamma_keeps_RIMP :
  match parse_theory_str "p <- (1 = 1)." with
  | PR_ok t =>
    known_class_theory t = Some "C15-RIMP" /\
    known_class_theory (gamma_theory t) = Some "C15-RIMP" /\
    show_theory (gamma_theory t) = ("(hp <- 1 = 1) and (tp <- 1 = 1)." ++ String (ascii_of_nat 10) "")%string /\
    parse_theory_str (show_theory (gamma_theory t)) <> PR_ok (gamma_theory t)
  | _ => False
  end.
Proof. vm_compute. repeat split; discriminate. Qed.

(* ---------------------------------------------------------------- simplify *)
Theorem C15_cli_simplify_feeds_back_partial :
  forall (pf : simplification_portfolio) (st : simplification_strategy) (s out : string),
  run_cli (Simplify pf st) s = Stdout out ->
  exists t g : theory,
    parse_theory_str s = PR_ok t /\ simplify_theory pf st t = Got g /\ out = show_theory g /\
    (wf_theory g = true -> known_class_theory g = None ->
     parse_theory_str out = PR_ok g /\ run_cli (Parse Theory) out = Stdout out).
Proof. exact cli_simplify_feeds_back_partial. Qed.
Print Assumptions C15_cli_simplify_feeds_back_partial.

(* the premises cannot be dropped: the classic portfolio creates a member of C15-RIMP from a
   class-free theory (substitute_defined_variables puts the numeral 1 behind `<-`) *)
Example C15_simplify_creates_RIMP :
  match parse_theory_str "exists X (X = 1 and (p <- (X = 2)))." with
  | PR_ok t =>
    known_class_theory t = None /\
    match simplify_theory Classic Shallow t with
    | Got g =>
      show_theory g = ("exists X (1 = 1 and (p <- 1 = 2))." ++ String (ascii_of_nat 10) "")%string /\
      wf_theory g = true /\ known_class_theory g = Some "C15-RIMP" /\
      parse_theory_str (show_theory g) <> PR_ok g
    | Stop _ => False
    end
  | _ => False
  end.
Proof. vm_compute. repeat split; discriminate. Qed.

(* the ht portfolio leaves a nested `<-` alone under the shallow strategy: the second route of the audit *)
Example C15_simplify_keeps_RIMP :
  match parse_theory_str "q and (p <- (X$i > 0))." with
  | PR_ok t =>
    known_class_theory t = Some "C15-RIMP" /\
    match simplify_theory Ht Shallow t with
    | Got g => g = t /\ parse_theory_str (show_theory g) <> PR_ok g
    | Stop _ => False
    end
  | _ => False
  end.
Proof. vm_compute. repeat split; discriminate. Qed.

(* regression for finding F18 (repaired): the fresh variable that restrict_quantifier_domain invents for
   `_I$i` is `I$i` (before the repair: `_$i`, which the parser refuses) *)
Example C15_F18_fixed :
  match parse_theory_str "exists Z (exists _I$i (_I$i = Z and q(Z)) and p(Z))." with
  | PR_ok t =>
    match simplify_theory Classic Shallow t with
    | Got g =>
      show_theory g = ("exists I$i (exists _I$i (_I$i = I$i and q(I$i)) and p(I$i))." ++ String (ascii_of_nat 10) "")%string /\
      wf_theory g = true /\ known_class_theory g = None /\ parse_theory_str (show_theory g) = PR_ok g
    | Stop _ => False
    end
  | _ => False
  end.
Proof. vm_compute. repeat split. Qed.
