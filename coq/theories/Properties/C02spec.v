(* C02 for SPECIFICATION-vs-program tasks: the obligations emitted for "the program implements the
   specification" are refuted exactly by the interpretations that witness a difference in that
   direction.  Statements only; proofs in Proofs/C02Spec.v (assembly of a user-written left side,
   composition with layers (b) (c) (d) of the program-vs-program development on the program side) and
   Proofs/C02SpecWitness.v (the non-vacuity Example).

   Model: Model/ExternalFull.v (as Properties/C02full.v).  The specification side is the user's
   formulas with the placeholders replaced (Model/Outline.rp_spec) - no completion; the program side
   is `theory_translate` of the program, renamed (task_mapping) where a private predicate of the
   program has the name of a private predicate of the specification.

   ---- vocabulary (definitions in Proofs/C02Spec.v, Proofs/C02Ok.v, Proofs/C02Full.v) ----
   task_spec_left t S            := rp_spec (task_placeholders t) S      (the left side of the validated task)
   spec_stable s                 := formulas of role assumption annotated universal        (axioms of both directions)
   spec_forward_premises s       := formulas of role assumption annotated forward, and of role spec annotated
                                    universal or forward, in the order of the specification (axioms of the forward direction)
   spec_backward_conclusions s   := formulas of role spec annotated universal or backward   (conjectures of the backward
                                    direction; each broken into its implications when equivalence breaking is on)
        an assumption annotated backward is ignored by anthem (warning InconsistentDirectionAnnotation):
        it is a premise of NEITHER direction
   reindex (task_mapping t) M    M read through the renaming of the program's private predicates (p |-> p_p)
   ext_stable_full t FI N P      N is an external stable model of P (Properties/C02full.v)
   pub_agree t N M               N and M agree on the public (input and output) predicates
   priv_supported N P priv       every private predicate of P holds in N exactly where a rule instance of P
                                 supports it (Proofs/PrivateUnique.v); by C02_private_extension_unique / _exists
                                 there is exactly one such extension of a given public part

   spec_difference t S FI M  ("M witnesses a difference between S and the program, in an enabled direction") :=
        M satisfies the user-guide assumptions and spec_stable, and
        ( forward:   M satisfies spec_forward_premises, reindex M is supported on the program's private
                     predicates, and NO interpretation with reindex M's public part is an external stable model
                     of the program
        \/ backward: reindex M is an external stable model of the program and M falsifies a formula of
                     spec_backward_conclusions )
   M interprets the input, output and spec-private predicates and, under their names in the problems,
   the private predicates of the program; the statement is per interpretation, so private predicates
   of the specification need no side condition (they are free predicates of the problems as well).

   SCOPE: accepted (XOk, every fuel) specification-vs-program tasks WITHOUT proof outline, program
   tight (implied by acceptance unless --bypass-tightness: C02spec_accepted_tight); every direction,
   decomposition, eq-break and simplify setting.  One class exclusion, decidable
   (NoClashDec.task_no_clashb_spec): no symbolic constant of the task's OWN validated task equals a
   0-ary predicate of it (outside: rename_conflicting_symbols acts, finding F8c).  No premise about
   rename clashes (finding F9) is needed: the statement is about the interpretation of the renamed
   names themselves.
   PUBLIC LEVEL (second half of the file): the difference stated on the two sides separately (J for the
   specification side, T for the program side under its own names); the converse there needs the
   renaming to be faithful (spec_rename_faithful; outside it: finding F9, C02spec_rename_unfaithful_witness).
   NOT covered: proof outlines (C13, validated level); non-tight programs. *)
From Coq Require Import List String ZArith Bool.
Import ListNotations.
From Anthem Require Import Base.ISet Syntax.Fol Syntax.Asp Sem.Domain Sem.Sat Sem.AspRef
  Model.Problem Model.Outline Model.Strong Model.External Model.Tightness Model.PrivRec Model.TauStar
  Model.Completion Model.StrategyCls Model.ExternalFull
  Proofs.SemBase Proofs.DecomposeOk Proofs.StrongOk Proofs.ExternalOk Proofs.AssemblyOk Proofs.RenameOk
  Proofs.C19Ext Proofs.C02Ok Proofs.PlaceholderOk Proofs.C02Full Proofs.PrivateUnique Proofs.C02Behaviour
  Proofs.C02Complete Proofs.C02Spec Proofs.C02SpecComplete Proofs.C02SpecWitness.
Open Scope string_scope.
Open Scope list_scope.

(* layer (a) for a user-written left side: the refutation set of the problems of a validated task whose
   left side consists of assumption / spec formulas (any directions) and whose right side is a
   translated program; any eq-break / decomposition *)
Theorem C02spec_assembly_validated :
  forall (vt : validated_task) w pbs,
    validated_decompose vt = Ok (w, pbs) -> vt_proof_outline vt = empty_outline -> validated_no_clash vt ->
    spec_roles_supported (vt_left vt) = true -> translated (vt_right vt) ->
    forall (FI : fint) (M : pint),
      (refutes_some FI M pbs <->
       (dir_forward (vt_direction vt) = true /\
        tvalid FI M (map an_formula (vt_user_guide_assumptions vt)) /\ tvalid FI M (spec_stable (vt_left vt)) /\
        tvalid FI M (assumptions_of (vt_right vt)) /\
        tvalid FI M (spec_forward_premises (vt_left vt)) /\ ~ tvalid FI M (specs_of (vt_right vt))) \/
       (dir_backward (vt_direction vt) = true /\
        tvalid FI M (map an_formula (vt_user_guide_assumptions vt)) /\ tvalid FI M (spec_stable (vt_left vt)) /\
        tvalid FI M (assumptions_of (vt_right vt)) /\
        tvalid FI M (specs_of (vt_right vt)) /\ ~ tvalid FI M (spec_backward_conclusions (vt_left vt)))).
Proof. exact validated_spec_refutes. Qed.
Print Assumptions C02spec_assembly_validated.

(* COUNTERMODEL SOUNDNESS, no hypothesis on the interpretation: whatever refutes an emitted problem of an
   accepted specification-vs-program task witnesses a difference in an enabled direction - forward: it
   satisfies the specification (forward assumptions, spec formulas of direction universal / forward) and
   NO interpretation with its public part is an external stable model of the program; backward: it is an
   external stable model of the program and violates a spec formula of direction universal / backward *)
Theorem C02spec_countermodel_sound :
  forall (fuel : nat) (t : ext_task) (S : specification) w pbs,
    et_specification t = inr S -> et_proof_outline t = [] ->
    external_decompose_full fuel t = XOk w pbs ->
    is_tight (et_program t) = true ->
    (forall vt, task_validated tau_star_total completion (simp_classic_total fuel) t = Some vt -> validated_no_clash vt) ->
    forall (FI : fint) (M : pint),
      refutes_some FI M pbs ->
      tvalid FI M (map (fun a => rp_formula (task_placeholders t) (an_formula a)) (filter is_assumption (ug_formulas (et_user_guide t)))) /\
      tvalid FI M (spec_stable (task_spec_left t S)) /\
      ((dir_forward (et_direction t) = true /\
        tvalid FI M (spec_forward_premises (task_spec_left t S)) /\
        priv_supported (reindex (task_mapping t) M) (ph_program FI (task_placeholders t) (et_program t)) (task_prog_private t) /\
        ~ exists N, pub_agree t N (reindex (task_mapping t) M) /\ ext_stable_full t FI N (et_program t)) \/
       (dir_backward (et_direction t) = true /\
        ext_stable_full t FI (reindex (task_mapping t) M) (et_program t) /\
        ~ tvalid FI M (spec_backward_conclusions (task_spec_left t S)))).
Proof. exact spec_countermodel_sound. Qed.
Print Assumptions C02spec_countermodel_sound.

(* COUNTERMODEL COMPLETENESS: every interpretation that witnesses a difference refutes an emitted problem *)
Theorem C02spec_countermodel_complete :
  forall (fuel : nat) (t : ext_task) (S : specification) w pbs,
    et_specification t = inr S -> et_proof_outline t = [] ->
    external_decompose_full fuel t = XOk w pbs ->
    is_tight (et_program t) = true ->
    (forall vt, task_validated tau_star_total completion (simp_classic_total fuel) t = Some vt -> validated_no_clash vt) ->
    forall (FI : fint) (M : pint), spec_difference t S FI M -> refutes_some FI M pbs.
Proof. exact spec_countermodel_complete. Qed.
Print Assumptions C02spec_countermodel_complete.

(* C02 for specification-vs-program tasks, both directions, per interpretation *)
Theorem C02spec_refuted_iff_difference :
  forall (fuel : nat) (t : ext_task) (S : specification) w pbs,
    et_specification t = inr S -> et_proof_outline t = [] ->
    external_decompose_full fuel t = XOk w pbs ->
    is_tight (et_program t) = true ->
    (forall vt, task_validated tau_star_total completion (simp_classic_total fuel) t = Some vt -> validated_no_clash vt) ->
    forall (FI : fint) (M : pint), refutes_some FI M pbs <-> spec_difference t S FI M.
Proof. exact spec_refuted_iff_difference. Qed.
Print Assumptions C02spec_refuted_iff_difference.

(* hence: every emitted problem is irrefutable in standard structures iff no interpretation witnesses
   a difference (irrefutable = valid over the standard domain; provability by the prover is not claimed) *)
Theorem C02spec_verified_iff_no_difference :
  forall (fuel : nat) (t : ext_task) (S : specification) w pbs,
    et_specification t = inr S -> et_proof_outline t = [] ->
    external_decompose_full fuel t = XOk w pbs ->
    is_tight (et_program t) = true ->
    (forall vt, task_validated tau_star_total completion (simp_classic_total fuel) t = Some vt -> validated_no_clash vt) ->
    ((forall FI M, ~ refutes_some FI M pbs) <-> (forall FI M, ~ spec_difference t S FI M)).
Proof. exact spec_verified_iff_no_difference. Qed.
Print Assumptions C02spec_verified_iff_no_difference.

(* accepted without --bypass-tightness => the program is tight *)
Theorem C02spec_accepted_tight :
  forall (fuel : nat) (t : ext_task) w pbs,
    external_decompose_full fuel t = XOk w pbs -> et_bypass_tightness t = false -> is_tight (et_program t) = true.
Proof. exact spec_accepted_tight. Qed.
Print Assumptions C02spec_accepted_tight.

(* the clash premise is decidable *)
Theorem C02spec_no_clash_decidable :
  forall (fuel : nat) (t : ext_task),
    NoClashDec.task_no_clashb tau_star_total completion (simp_classic_total fuel) t = true <->
    (forall vt, task_validated tau_star_total completion (simp_classic_total fuel) t = Some vt -> validated_no_clash vt).
Proof. exact (fun fuel t => NoClashDec.task_no_clashb_spec tau_star_total completion (simp_classic_total fuel) t). Qed.
Print Assumptions C02spec_no_clash_decidable.

(* NON-VACUITY: on the task of seeded/C02_r4 (spec: exists X (p(X) <-> q(X)).  q(X) :- not p(X).
   input: p/1.  output: q/1.; universal direction, equivalence breaking on, computed by the full model
   with simplification on: 3 problems) every premise of the theorems above is discharged, and both sides
   of the iff are exhibited in both directions - the left-hand sides by evaluation over the standard
   (infinite) domain, the right-hand sides THROUGH C02spec_countermodel_sound:
   Mb = {p(1)} + {q(x) | x <> 1} refutes the backward problem (its conjecture is the UNBROKEN
   exists X (p(X) <-> q(X))), is an external stable model of the program and violates the specification;
   Mf = {p(1), q(1)} refutes a forward problem and witnesses the forward difference. *)
Example C02spec_nonvacuous :
  et_specification tx = inr Sx /\ et_proof_outline tx = [] /\
  external_decompose_full full_fuel tx = XOk [] pbsx /\ List.length pbsx = 3 /\
  is_tight (et_program tx) = true /\
  (forall vt, task_validated tau_star_total completion (simp_classic_total full_fuel) tx = Some vt -> validated_no_clash vt) /\
  forall FI,
    refutes_some FI Mb pbsx /\ spec_difference tx Sx FI Mb /\
    ext_stable_full tx FI (reindex (task_mapping tx) Mb) (et_program tx) /\
    ~ tvalid FI Mb (spec_backward_conclusions (task_spec_left tx Sx)) /\
    refutes_some FI Mf pbsx /\ spec_difference tx Sx FI Mf.
Proof. exact tx_nonvacuous. Qed.
Print Assumptions C02spec_nonvacuous.

(* ---------------- the public-level reading ----------------
   spec_voc t S              := the predicates of S and the public predicates
   spec_public_difference t S FI J T  :=  J (specification side) and T (program side, own names) have the same
        public part, J satisfies the user-guide assumptions and spec_stable, and
        ( forward:   J satisfies spec_forward_premises and NO interpretation with J's public part is an external
                     stable model of the program
        \/ backward: T is an external stable model of the program and J falsifies a formula of spec_backward_conclusions )
   spec_rename_faithful t S  := the names under which the private predicates of the program occur in the
        problems (p_p when the specification has a private p/n as well, else p) are pairwise distinct and none of
        them is a predicate of the specification or public (decidable: spec_rename_faithfulb) *)

(* a per-interpretation difference is a public-level one (no class premise) *)
Theorem C02spec_difference_public :
  forall (t : ext_task) (S : specification) (FI : fint) (M : pint),
    spec_difference t S FI M -> spec_public_difference t S FI M (reindex (task_mapping t) M).
Proof. exact spec_difference_public. Qed.
Print Assumptions C02spec_difference_public.

(* from a public-level difference ONE interpretation of the problems' vocabulary is constructed that refutes
   an emitted problem: J on the specification side's vocabulary, and - under the renamed names - T's private
   extents (backward) resp. the supported private extension of J's public part (forward,
   C02_private_extension_exists) *)
Theorem C02spec_public_complete :
  forall (fuel : nat) (t : ext_task) (S : specification) w pbs,
    et_specification t = inr S -> et_proof_outline t = [] ->
    external_decompose_full fuel t = XOk w pbs ->
    is_tight (et_program t) = true ->
    (forall vt, task_validated tau_star_total completion (simp_classic_total fuel) t = Some vt -> validated_no_clash vt) ->
    spec_rename_faithful t S ->
    forall (FI : fint) (J T : pint), spec_public_difference t S FI J T ->
      exists M, pagree (spec_voc t S) M J /\ refutes_some FI M pbs.
Proof. exact spec_public_complete. Qed.
Print Assumptions C02spec_public_complete.

(* C02 for specification-vs-program tasks at the public level: some interpretation refutes an emitted
   problem IFF the specification and the program differ; hence every emitted problem is irrefutable in
   standard structures iff the claimed relation holds *)
Theorem C02spec_external_equivalence :
  forall (fuel : nat) (t : ext_task) (S : specification) w pbs,
    et_specification t = inr S -> et_proof_outline t = [] ->
    external_decompose_full fuel t = XOk w pbs ->
    is_tight (et_program t) = true ->
    (forall vt, task_validated tau_star_total completion (simp_classic_total fuel) t = Some vt -> validated_no_clash vt) ->
    spec_rename_faithful t S ->
    forall (FI : fint), (exists M, refutes_some FI M pbs) <-> (exists J T, spec_public_difference t S FI J T).
Proof. exact spec_external_equivalence. Qed.
Print Assumptions C02spec_external_equivalence.

Theorem C02spec_rename_faithful_decidable :
  forall (t : ext_task) (S : specification), spec_rename_faithfulb t S = true -> spec_rename_faithful t S.
Proof. exact spec_rename_faithfulb_ok. Qed.
Print Assumptions C02spec_rename_faithful_decidable.

(* non-vacuity of the public-level theorems on tx: spec_rename_faithful holds, the difference is obtained
   THROUGH C02spec_external_equivalence and a countermodel back THROUGH C02spec_public_complete *)
Example C02spec_public_nonvacuous :
  spec_rename_faithful tx Sx /\
  forall FI, (exists J T, spec_public_difference tx Sx FI J T) /\
             (exists M, pagree (spec_voc tx Sx) M Mb /\ refutes_some FI M pbsx).
Proof. exact (conj tx_rename_faithful (fun FI => conj (tx_public_difference FI) (tx_public_complete FI))). Qed.
Print Assumptions C02spec_public_nonvacuous.

(* the class outside spec_rename_faithful is inhabited by accepted tasks (finding F9 on a specification
   task): assumption: forall X (aux(X) -> p(X)). spec: forall X (q(X) -> p(X)).  vs
   aux(X) :- p(X). aux_p(X) :- p(X). q(X) :- aux(X), not aux_p(X). *)
Example C02spec_rename_unfaithful_witness :
  (exists w pbs, external_decompose_full full_fuel t9s = XOk w pbs) /\ ~ spec_rename_faithful t9s S9.
Proof. exact (conj t9s_accepted t9s_not_faithful). Qed.
Print Assumptions C02spec_rename_unfaithful_witness.

(* ---------------- recorded behaviour: `assumption(backward)` in a specification (audit2 B9, finding F26) ----------------
   anthem warns "ignored in the forward direction" and then uses the formula in NEITHER direction; the
   relation stated by the theorems above is the one the code builds: such a formula changes none of
   spec_stable / spec_forward_premises / spec_backward_conclusions.  Under the reading the warning suggests
   (a premise of the backward direction) the emitted backward problems lack an axiom: incompleteness
   (interpretations violating the assumption refute a problem), never a false theorem. *)
Theorem C02spec_backward_assumption_contributes_nothing :
  forall (a : aformula_annot) (s1 s2 : specification),
    an_role a = RAssumption -> an_dir a = DBackward ->
    spec_stable (s1 ++ a :: s2) = spec_stable (s1 ++ s2) /\
    spec_forward_premises (s1 ++ a :: s2) = spec_forward_premises (s1 ++ s2) /\
    spec_backward_conclusions (s1 ++ a :: s2) = spec_backward_conclusions (s1 ++ s2).
Proof. exact spec_backward_assumption_nothing. Qed.
Print Assumptions C02spec_backward_assumption_contributes_nothing.

(* ---------------- a shipped example (res/examples/external_equivalence/trivial/propositional) ----------------
   spec: q <-> t or r.  spec: p <-> #true.   vs   p.  q :- t.  q :- r.   input: t/0. input: r/0. output: p/0. output: q/0.
   The claim is true: every emitted problem is valid in every interpretation (by evaluation), and THROUGH
   C02spec_verified_iff_no_difference no interpretation witnesses a difference in either direction. *)
Example C02spec_shipped_propositional_verified :
  external_decompose_full full_fuel tprop = XOk [] pbsprop /\
  (forall FI M, ~ refutes_some FI M pbsprop) /\ (forall FI M, ~ spec_difference tprop Sprop FI M).
Proof. exact (conj tprop_accepted (conj tprop_irrefutable tprop_no_difference)). Qed.
Print Assumptions C02spec_shipped_propositional_verified.

(* ---------------- program-vs-program: the premise ug_over_inputs follows from acceptance (audit2 B9) ----------------
   C02_countermodel_complete and C02_external_equivalence (Properties/C02full.v) without their premise
   ug_over_inputs: an accepted task passed ensure_assumptions_only_contain_input_symbols. *)
Theorem C02_accepted_ug_over_inputs :
  forall (fuel : nat) (t : ext_task) w pbs, external_decompose_full fuel t = XOk w pbs -> ug_over_inputs t.
Proof. exact accepted_task_ug_over_inputs. Qed.
Print Assumptions C02_accepted_ug_over_inputs.

Theorem C02_countermodel_complete_accepted :
  forall (fuel : nat) (t : ext_task) (L : program) w pbs lft rgt,
    et_specification t = inl L -> et_proof_outline t = [] ->
    external_decompose_full fuel t = XOk w pbs ->
    is_tight L = true -> is_tight (et_program t) = true ->
    task_left tau_star_total completion (simp_classic_total fuel) t L = Some lft ->
    task_right tau_star_total completion (simp_classic_total fuel) t = Some rgt ->
    (forall vt, task_validated tau_star_total completion (simp_classic_total fuel) t = Some vt -> validated_no_clash vt) ->
    rename_faithful t L ->
    forall (FI : fint) (T : pint),
      behavioural_difference t L FI T -> exists M, pub_agree t M T /\ refutes_some FI M pbs.
Proof. exact countermodel_complete_accepted. Qed.
Print Assumptions C02_countermodel_complete_accepted.

Theorem C02_external_equivalence_accepted :
  forall (fuel : nat) (t : ext_task) (L : program) w pbs lft rgt,
    et_specification t = inl L -> et_proof_outline t = [] ->
    external_decompose_full fuel t = XOk w pbs ->
    is_tight L = true -> is_tight (et_program t) = true ->
    task_left tau_star_total completion (simp_classic_total fuel) t L = Some lft ->
    task_right tau_star_total completion (simp_classic_total fuel) t = Some rgt ->
    (forall vt, task_validated tau_star_total completion (simp_classic_total fuel) t = Some vt -> validated_no_clash vt) ->
    rename_faithful t L ->
    forall (FI : fint), (exists M, refutes_some FI M pbs) <-> (exists T, behavioural_difference t L FI T).
Proof. exact external_equivalence_accepted. Qed.
Print Assumptions C02_external_equivalence_accepted.
