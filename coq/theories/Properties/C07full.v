(* C07 — the portfolio of `simplify --portfolio classic` (= INTUITIONISTIC ++ HT ++ CLASSIC, also the
   post-gamma simplification inside `verify`) preserves classical meaning and free variables under
   every strategy.  Statements only; composed from Properties/C07.v and Properties/C07cls.v. *)
From Coq Require Import List String ZArith.
Import ListNotations.
From Anthem Require Import Syntax.Fol Sem.Domain Sem.Sat Model.SimplIntuit Model.SimplClassic
  Model.StrategyCls Proofs.SimplFull.

Theorem C07_full_classic_rules :
  forall r, In r (INTUITIONISTIC ++ HT ++ CLASSIC) ->
  forall F : formula,
    (forall (FI : fint) (I : pint) (e : env), csat FI I e (r F) <-> csat FI I e F)
    /\ incl (free_variables (r F)) (free_variables F).
Proof. exact full_classic_preserves. Qed.
Print Assumptions C07_full_classic_rules.

Theorem C07_full_classic_portfolio :
  forall (fuel : nat) (s : strategy) (F G : formula),
    run_strategy fuel (INTUITIONISTIC ++ HT ++ CLASSIC) s F = Some G ->
    (forall (FI : fint) (I : pint) (e : env), csat FI I e G <-> csat FI I e F)
    /\ incl (free_variables G) (free_variables F).
Proof. exact full_classic_strategies. Qed.
Print Assumptions C07_full_classic_portfolio.
