(* C07 — the portfolio of `simplify --portfolio classic` (= INTUITIONISTIC ++ HT ++ CLASSIC, also the
   post-gamma simplification inside `verify`) preserves classical meaning and free variables under
   every strategy.  Statements only; composed from Properties/C07.v and Properties/C07cls.v. *)
From Coq Require Import List String ZArith.
Import ListNotations.
From Anthem Require Import Syntax.Fol Sem.Domain Sem.Sat Model.SimplIntuit Model.SimplClassic
  Model.StrategyCls Model.ClsTerm Proofs.SimplFull Proofs.SimplClassicTotal Proofs.ParserImage.

Theorem C07_full_classic_rules :
  forall r, In r (INTUITIONISTIC ++ HT ++ CLASSIC) ->
  forall F : formula,
    (forall (FI : fint) (I : pint) (e : env), csat FI I e (r F) <-> csat FI I e F)
    /\ incl (free_variables (r F)) (free_variables F).
Proof. exact full_classic_preserves. Qed.
Print Assumptions C07_full_classic_rules.

Theorem C07_full_classic_portfolio :
  forall (fuel : nat) (s : strategy) (F G : formula),
    run_strategy fuel (INTUITIONISTIC ++ HT ++ CLASSIC) s F = Some G ->
    (forall (FI : fint) (I : pint) (e : env), csat FI I e G <-> csat FI I e F)
    /\ incl (free_variables G) (free_variables F).
Proof. exact full_classic_strategies. Qed.
Print Assumptions C07_full_classic_portfolio.

(* ---------------- no panic at the level of the portfolio (audit A8 b) ----------------
   The theorems above are about the TOTAL wrappers: Model/SimplClassic.v turns a panic of classic.rs
   (`guards[0]` on an empty guard list, `chars().next().unwrap()` on an empty variable name, the
   `panic!`s of substitute) into the identity.  The panic-aware runner [run_strategy_opt] keeps them
   visible (RPanic).  On the image of the parser,
       parser_image F := guards_ok F /\ names_ok F
       (every comparison has at least one guard, every bound variable a non-empty name),
   no rewrite of the portfolio panics, under any strategy, with any fuel - because the invariant is
   preserved by all fifteen rewrites, by Formula::substitute and by Apply::apply. *)
Theorem C07_parser_image_rules :
  forall r, In r (INTUITIONISTIC ++ HT ++ CLASSIC) -> forall F, parser_image F -> parser_image (r F).
Proof. exact (proj1 (Forall_forall _ _) portfolio_classic_pi). Qed.
Print Assumptions C07_parser_image_rules.

Theorem C07_parser_image_substitute :
  forall F x t G, Subst.substitute F x t = Some G -> parser_image F -> parser_image G.
Proof. exact substitute_pi. Qed.
Print Assumptions C07_parser_image_substitute.

Theorem C07_parser_image_strategies :
  forall (fuel : nat) (s : strategy) (F G : formula), parser_image F ->
    run_strategy fuel (INTUITIONISTIC ++ HT ++ CLASSIC) s F = Some G -> parser_image G.
Proof. intros fuel s F G HF. exact (run_strategy_pi fuel _ s F G portfolio_classic_pi HF). Qed.
Print Assumptions C07_parser_image_strategies.

(* [portfolio_classic_opt] (Model/ClsTerm.v) = the fifteen rewrites with panics visible, the list the
   correspondence ops run *)
Theorem C07_full_classic_no_panic :
  forall (fuel : nat) (s : strategy) (F : formula), parser_image F ->
    run_strategy_opt fuel portfolio_classic_opt s F <> RPanic.
Proof. exact classic_no_panic. Qed.
Print Assumptions C07_full_classic_no_panic.

(* ... and what it returns is what the total portfolio returns, again in the parser image *)
Theorem C07_full_classic_opt_result :
  forall (fuel : nat) (s : strategy) (F G : formula), parser_image F ->
    run_strategy_opt fuel portfolio_classic_opt s F = RDone G -> parser_image G.
Proof. intros fuel s F G HF. exact (run_strategy_opt_pi fuel _ _ s F G portfolio_classic_opt_safe HF). Qed.
Print Assumptions C07_full_classic_opt_result.

(* the invariant is needed: outside it the panic-aware runner does panic while the total one does
   not (audit /work/audit/partD/s2.v) *)
Example C07_panic_outside_parser_image :
  let Fp := FQ QExists [mkvar "X" SGeneral]
              (FBin CAnd (FAtomic (ACmp (GVar "X") [])) (FAtomic (AAtom "p" [GVar "X"]))) in
  ~ parser_image Fp /\
  run_strategy_opt 5 portfolio_classic_opt Shallow Fp = RPanic /\
  exists G, run_strategy 5 (INTUITIONISTIC ++ HT ++ CLASSIC) Shallow Fp = Some G.
Proof.
  cbv zeta. split; [intros [[H _] _]; apply H; reflexivity|].
  split; [vm_compute; reflexivity|eexists; vm_compute; reflexivity].
Qed.
