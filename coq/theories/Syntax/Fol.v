(* Target language (sigma_0) abstract syntax: constructor-for-constructor mirror of
   /repo/src/syntax_tree/fol/sigma_0.rs, plus the structural helper functions defined there
   (variables, free_variables, predicates, symbols, function_constants, conjoin, disjoin,
   quantify, universal_closure).  IndexSet<T> is modelled as a duplicate-free list in
   insertion order (Base/ISet.v). *)
From Coq Require Import List Ascii String ZArith Bool.
From Anthem Require Import Base.ISet.
Import ListNotations.
Open Scope string_scope.
Open Scope list_scope.

Inductive sort := SGeneral | SInteger | SSymbol.
Inductive unop := UNeg.
Inductive binop := BAdd | BSub | BMul.

Inductive iterm :=
| INum (z : Z)
| IFun (c : string)
| IVar (x : string)
| IUn (o : unop) (t : iterm)
| IBin (o : binop) (l r : iterm).

Inductive sterm := SSym (s : string) | SFun (c : string) | SVar (x : string).

Inductive gterm :=
| GInf | GSup
| GFun (c : string)
| GVar (x : string)
| GInt (t : iterm)
| GSym (t : sterm).

Record pred := mkpred { psym : string; parity : nat }.

Inductive rel := REq | RNe | RGt | RLt | RGe | RLe.
Record guard := mkguard { grel : rel; gterm_of : gterm }.

Inductive aformula :=
| ATrue | AFalse
| AAtom (p : string) (ts : list gterm)
| ACmp (t : gterm) (gs : list guard).

Inductive quant := QForall | QExists.
Record var := mkvar { vname : string; vsort : sort }.
Record fconst := mkfconst { fcname : string; fcsort : sort }.

Inductive bconn := CAnd | COr | CImp | CRimp | CIff.

Inductive formula :=
| FAtomic (a : aformula)
| FNot (f : formula)
| FBin (c : bconn) (l r : formula)
| FQ (q : quant) (vs : list var) (f : formula).

Definition theory := list formula.

Inductive role := RAssumption | RSpec | RLemma | RDefinition | RInductiveLemma.
Inductive direction := DUniversal | DForward | DBackward.
Record aformula_annot := mkannot {
  an_role : role; an_dir : direction; an_name : string; an_formula : formula }.
Definition specification := list aformula_annot.
Inductive ug_entry :=
| UGInput (p : pred) | UGOutput (p : pred)
| UGPlaceholder (name : string) (s : sort)
| UGFormula (a : aformula_annot).
Definition user_guide := list ug_entry.

(* ---------- decidable equalities ---------- *)
Definition sort_eqb (a b : sort) : bool :=
  match a, b with SGeneral, SGeneral | SInteger, SInteger | SSymbol, SSymbol => true | _, _ => false end.
Lemma sort_eqb_spec a b : reflect (a = b) (sort_eqb a b).
Proof. destruct a, b; cbn; constructor; congruence. Qed.
Definition sort_dec (a b : sort) : {a = b} + {a <> b}.
Proof. decide equality. Defined.

Definition var_eqb (a b : var) : bool := String.eqb (vname a) (vname b) && sort_eqb (vsort a) (vsort b).
Lemma var_eqb_spec a b : reflect (a = b) (var_eqb a b).
Proof.
  destruct a as [n s], b as [m u]; unfold var_eqb; cbn.
  destruct (String.eqb_spec n m); cbn; [subst|constructor; congruence].
  destruct (sort_eqb_spec s u); constructor; congruence.
Qed.
Definition var_dec (a b : var) : {a = b} + {a <> b}.
Proof. decide equality; [apply sort_dec|apply string_dec]. Defined.

Definition pred_eqb (a b : pred) : bool := String.eqb (psym a) (psym b) && Nat.eqb (parity a) (parity b).
Lemma pred_eqb_spec a b : reflect (a = b) (pred_eqb a b).
Proof.
  destruct a as [n s], b as [m u]; unfold pred_eqb; cbn.
  destruct (String.eqb_spec n m); cbn; [subst|constructor; congruence].
  destruct (PeanoNat.Nat.eqb_spec s u); constructor; congruence.
Qed.
Definition pred_dec (a b : pred) : {a = b} + {a <> b}.
Proof. decide equality; [apply PeanoNat.Nat.eq_dec|apply string_dec]. Defined.

Definition fconst_eqb (a b : fconst) : bool := String.eqb (fcname a) (fcname b) && sort_eqb (fcsort a) (fcsort b).
Lemma fconst_eqb_spec a b : reflect (a = b) (fconst_eqb a b).
Proof.
  destruct a as [n s], b as [m u]; unfold fconst_eqb; cbn.
  destruct (String.eqb_spec n m); cbn; [subst|constructor; congruence].
  destruct (sort_eqb_spec s u); constructor; congruence.
Qed.
Definition fconst_dec (a b : fconst) : {a = b} + {a <> b}.
Proof. decide equality; [apply sort_dec|apply string_dec]. Defined.

Definition unop_dec (a b : unop) : {a = b} + {a <> b}. Proof. decide equality. Defined.
Definition binop_dec (a b : binop) : {a = b} + {a <> b}. Proof. decide equality. Defined.
Definition iterm_dec (a b : iterm) : {a = b} + {a <> b}.
Proof. decide equality; auto using Z.eq_dec, string_dec, unop_dec, binop_dec. Defined.
Definition sterm_dec (a b : sterm) : {a = b} + {a <> b}.
Proof. decide equality; auto using string_dec. Defined.
Definition gterm_dec (a b : gterm) : {a = b} + {a <> b}.
Proof. decide equality; auto using string_dec, iterm_dec, sterm_dec. Defined.
Definition rel_dec (a b : rel) : {a = b} + {a <> b}. Proof. decide equality. Defined.
Definition guard_dec (a b : guard) : {a = b} + {a <> b}.
Proof. decide equality; auto using rel_dec, gterm_dec. Defined.
Definition aformula_dec (a b : aformula) : {a = b} + {a <> b}.
Proof. decide equality; auto using string_dec, gterm_dec, guard_dec, list_eq_dec. Defined.
Definition quant_dec (a b : quant) : {a = b} + {a <> b}. Proof. decide equality. Defined.
Definition bconn_dec (a b : bconn) : {a = b} + {a <> b}. Proof. decide equality. Defined.
Definition formula_dec (a b : formula) : {a = b} + {a <> b}.
Proof. decide equality; auto using aformula_dec, quant_dec, bconn_dec, var_dec, list_eq_dec. Defined.
Definition formula_eqb (a b : formula) : bool := if formula_dec a b then true else false.
Lemma formula_eqb_spec a b : reflect (a = b) (formula_eqb a b).
Proof. unfold formula_eqb; destruct (formula_dec a b); constructor; auto. Qed.
Definition gterm_eqb (a b : gterm) : bool := if gterm_dec a b then true else false.
Definition aformula_eqb (a b : aformula) : bool := if aformula_dec a b then true else false.

(* ---------- IndexSet-style collectors (insertion order, no duplicates) ---------- *)
Fixpoint iterm_vars (t : iterm) : list var :=
  match t with
  | INum _ | IFun _ => []
  | IVar x => [mkvar x SInteger]
  | IUn _ t => iterm_vars t
  | IBin _ l r => iset_extend var_dec (iterm_vars l) (iterm_vars r)
  end.
Definition sterm_vars (t : sterm) : list var :=
  match t with SVar x => [mkvar x SSymbol] | _ => [] end.
Definition gterm_vars (t : gterm) : list var :=
  match t with
  | GInf | GSup | GFun _ => []
  | GVar x => [mkvar x SGeneral]
  | GInt t => iterm_vars t
  | GSym t => sterm_vars t
  end.

Fixpoint iterm_fconsts (t : iterm) : list fconst :=
  match t with
  | IFun c => [mkfconst c SInteger]
  | INum _ | IVar _ => []
  | IUn _ t => iterm_fconsts t
  | IBin _ l r => iset_extend fconst_dec (iterm_fconsts l) (iterm_fconsts r)
  end.
Definition sterm_fconsts (t : sterm) : list fconst :=
  match t with SFun c => [mkfconst c SSymbol] | _ => [] end.
Definition gterm_fconsts (t : gterm) : list fconst :=
  match t with
  | GFun c => [mkfconst c SGeneral]
  | GInt t => iterm_fconsts t
  | GSym t => sterm_fconsts t
  | _ => []
  end.
Definition sterm_symbols (t : sterm) : list string :=
  match t with SSym s => [s] | _ => [] end.
Definition gterm_symbols (t : gterm) : list string :=
  match t with GSym t => sterm_symbols t | _ => [] end.

Definition extend_all {A B} (dec : forall x y : B, {x = y} + {x <> y}) (f : A -> list B) (init : list B) (l : list A) : list B :=
  fold_left (fun acc x => iset_extend dec acc (f x)) l init.

Definition aformula_vars (a : aformula) : list var :=
  match a with
  | ATrue | AFalse => []
  | AAtom _ ts => extend_all var_dec gterm_vars [] ts
  | ACmp t gs => extend_all var_dec (fun g => gterm_vars (gterm_of g)) (gterm_vars t) gs
  end.
Definition aformula_preds (a : aformula) : list pred :=
  match a with AAtom p ts => [mkpred p (List.length ts)] | _ => [] end.
Definition aformula_symbols (a : aformula) : list string :=
  match a with
  | ATrue | AFalse => []
  | AAtom _ ts => extend_all string_dec gterm_symbols [] ts
  | ACmp t gs => extend_all string_dec (fun g => gterm_symbols (gterm_of g)) (gterm_symbols t) gs
  end.
Definition aformula_fconsts (a : aformula) : list fconst :=
  match a with
  | ATrue | AFalse => []
  | AAtom _ ts => extend_all fconst_dec gterm_fconsts [] ts
  | ACmp t gs => extend_all fconst_dec (fun g => gterm_fconsts (gterm_of g)) (gterm_fconsts t) gs
  end.

Fixpoint variables (f : formula) : list var :=
  match f with
  | FAtomic a => aformula_vars a
  | FNot f => variables f
  | FBin _ l r => iset_extend var_dec (variables l) (variables r)
  | FQ _ _ f => variables f
  end.
Fixpoint free_variables (f : formula) : list var :=
  match f with
  | FAtomic a => aformula_vars a
  | FNot f => free_variables f
  | FBin _ l r => iset_extend var_dec (free_variables l) (free_variables r)
  | FQ _ vs f => fold_left (fun acc v => iset_remove var_dec v acc) vs (free_variables f)
  end.
Fixpoint predicates (f : formula) : list pred :=
  match f with
  | FAtomic a => aformula_preds a
  | FNot f => predicates f
  | FBin _ l r => iset_extend pred_dec (predicates l) (predicates r)
  | FQ _ _ f => predicates f
  end.
Fixpoint symbols (f : formula) : list string :=
  match f with
  | FAtomic a => aformula_symbols a
  | FNot f => symbols f
  | FBin _ l r => iset_extend string_dec (symbols l) (symbols r)
  | FQ _ _ f => symbols f
  end.
Fixpoint function_constants (f : formula) : list fconst :=
  match f with
  | FAtomic a => aformula_fconsts a
  | FNot f => function_constants f
  | FBin _ l r => iset_extend fconst_dec (function_constants l) (function_constants r)
  | FQ _ _ f => function_constants f
  end.
Definition theory_predicates (t : theory) : list pred := extend_all pred_dec predicates [] t.

(* ---------- constructors ---------- *)
Definition ftrue := FAtomic ATrue.
Definition ffalse := FAtomic AFalse.
(* Iterator::reduce: left-nested *)
Definition reduce_bin (c : bconn) (l : list formula) (empty : formula) : formula :=
  match l with
  | [] => empty
  | x :: xs => fold_left (fun acc e => FBin c acc e) xs x
  end.
Definition conjoin (l : list formula) : formula := reduce_bin CAnd l ftrue.
Definition disjoin (l : list formula) : formula := reduce_bin COr l ffalse.
Definition quantify (f : formula) (q : quant) (vs : list var) : formula :=
  match vs with [] => f | _ => FQ q vs f end.
Definition universal_closure (f : formula) : formula := quantify f QForall (free_variables f).

Definition var_to_gterm (v : var) : gterm :=
  match vsort v with
  | SGeneral => GVar (vname v)
  | SInteger => GInt (IVar (vname v))
  | SSymbol => GSym (SVar (vname v))
  end.
Definition gterm_to_var (t : gterm) : option var :=
  match t with
  | GVar x => Some (mkvar x SGeneral)
  | GInt (IVar x) => Some (mkvar x SInteger)
  | GSym (SVar x) => Some (mkvar x SSymbol)
  | _ => None
  end.

(* EXTRACT: user_guide specification formula_eqb free_variables variables predicates symbols function_constants conjoin disjoin universal_closure theory_predicates var_to_gterm gterm_to_var *)
