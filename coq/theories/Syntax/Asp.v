(* mini-gringo abstract syntax: mirror of /repo/src/syntax_tree/asp/mini_gringo.rs with the
   structural helpers defined there. *)
From Coq Require Import List Ascii String ZArith Bool.
From Anthem Require Import Base.ISet Syntax.Fol.
Import ListNotations.
Open Scope string_scope.
Open Scope list_scope.

Inductive pterm := PInf | PNum (z : Z) | PSym (s : string) | PSup.
Inductive aunop := AUNeg.
Inductive abinop := AAdd | ASub | AMul | ADiv | AMod | AInterval.

Inductive term :=
| TPre (p : pterm)
| TVar (x : string)
| TUn (o : aunop) (t : term)
| TBin (o : abinop) (l r : term).

Record atom := mkatom { apred : string; aterms : list term }.
Inductive sign := SNone | SNeg | SDNeg.
Record literal := mklit { lsign : sign; latom : atom }.
Inductive arel := AEq | ANe | ALt | ALe | AGt | AGe.
Record comparison := mkcmp { crel : arel; clhs : term; crhs : term }.
Inductive bformula := BLit (l : literal) | BCmp (c : comparison).
Inductive head := HBasic (a : atom) | HChoice (a : atom) | HFalsity.
Record rule := mkrule { rhead : head; rbody : list bformula }.
Definition program := list rule.

Definition pterm_dec (a b : pterm) : {a = b} + {a <> b}.
Proof. decide equality; auto using Z.eq_dec, string_dec. Defined.
Definition aunop_dec (a b : aunop) : {a = b} + {a <> b}. Proof. decide equality. Defined.
Definition abinop_dec (a b : abinop) : {a = b} + {a <> b}. Proof. decide equality. Defined.
Definition term_dec (a b : term) : {a = b} + {a <> b}.
Proof. decide equality; auto using pterm_dec, string_dec, aunop_dec, abinop_dec. Defined.

(* asp variables are bare names *)
Fixpoint term_vars (t : term) : list string :=
  match t with
  | TPre _ => []
  | TVar x => [x]
  | TUn _ t => term_vars t
  | TBin _ l r => iset_extend string_dec (term_vars l) (term_vars r)
  end.
Definition pterm_fconsts (p : pterm) : list string :=
  match p with PSym s => [s] | _ => [] end.
Fixpoint term_fconsts (t : term) : list string :=
  match t with
  | TPre p => pterm_fconsts p
  | TVar _ => []
  | TUn _ t => term_fconsts t
  | TBin _ l r => iset_extend string_dec (term_fconsts l) (term_fconsts r)
  end.

Definition atom_pred (a : atom) : pred := mkpred (apred a) (List.length (aterms a)).
Definition atom_vars (a : atom) : list string := extend_all string_dec term_vars [] (aterms a).
Definition atom_fconsts (a : atom) : list string := extend_all string_dec term_fconsts [] (aterms a).

Definition cmp_vars (c : comparison) : list string :=
  iset_extend string_dec (term_vars (clhs c)) (term_vars (crhs c)).
Definition cmp_fconsts (c : comparison) : list string :=
  iset_extend string_dec (term_fconsts (clhs c)) (term_fconsts (crhs c)).

Definition bformula_vars (b : bformula) : list string :=
  match b with BLit l => atom_vars (latom l) | BCmp c => cmp_vars c end.
Definition bformula_preds (b : bformula) : list pred :=
  match b with BLit l => [atom_pred (latom l)] | BCmp _ => [] end.
Definition bformula_pos_preds (b : bformula) : list pred :=
  match b with
  | BLit (mklit SNone a) => [atom_pred a]
  | _ => []
  end.
Definition bformula_fconsts (b : bformula) : list string :=
  match b with BLit l => atom_fconsts (latom l) | BCmp c => cmp_fconsts c end.
Definition bformula_terms (b : bformula) : list term :=
  match b with
  | BLit l => iset_of_list term_dec (aterms (latom l))
  | BCmp c => iset_of_list term_dec [clhs c; crhs c]
  end.

Definition head_pred (h : head) : option pred :=
  match h with HBasic a | HChoice a => Some (atom_pred a) | HFalsity => None end.
Definition head_terms (h : head) : option (list term) :=
  match h with HBasic a | HChoice a => Some (aterms a) | HFalsity => None end.
Definition head_arity (h : head) : nat :=
  match h with HBasic a | HChoice a => List.length (aterms a) | HFalsity => 0 end.
Definition head_vars (h : head) : list string :=
  match h with HBasic a | HChoice a => atom_vars a | HFalsity => [] end.
Definition head_fconsts (h : head) : list string :=
  match h with HBasic a | HChoice a => atom_fconsts a | HFalsity => [] end.

Definition body_preds (b : list bformula) : list pred := extend_all pred_dec bformula_preds [] b.
Definition body_pos_preds (b : list bformula) : list pred := extend_all pred_dec bformula_pos_preds [] b.
Definition body_vars (b : list bformula) : list string := extend_all string_dec bformula_vars [] b.
Definition body_fconsts (b : list bformula) : list string := extend_all string_dec bformula_fconsts [] b.
Definition body_terms (b : list bformula) : list term := extend_all term_dec bformula_terms [] b.

Definition rule_preds (r : rule) : list pred :=
  iset_extend pred_dec (match head_pred (rhead r) with Some p => [p] | None => [] end) (body_preds (rbody r)).
Definition rule_vars (r : rule) : list string :=
  iset_extend string_dec (head_vars (rhead r)) (body_vars (rbody r)).
Definition rule_fconsts (r : rule) : list string :=
  iset_extend string_dec (head_fconsts (rhead r)) (body_fconsts (rbody r)).
Definition rule_terms (r : rule) : list term :=
  iset_extend term_dec
    (match head_terms (rhead r) with Some ts => iset_of_list term_dec ts | None => [] end)
    (body_terms (rbody r)).

Definition program_preds (p : program) : list pred := extend_all pred_dec rule_preds [] p.
Definition program_head_preds (p : program) : list pred :=
  fold_left (fun acc r => match head_pred (rhead r) with Some q => iset_insert pred_dec acc q | None => acc end) p [].
Definition program_vars (p : program) : list string := extend_all string_dec rule_vars [] p.
Definition program_fconsts (p : program) : list string := extend_all string_dec rule_fconsts [] p.

Definition arel_to_rel (r : arel) : rel :=
  match r with AEq => REq | ANe => RNe | AGt => RGt | ALt => RLt | AGe => RGe | ALe => RLe end.

(* EXTRACT: program program_preds program_vars program_fconsts program_head_preds rule_terms body_pos_preds arel_to_rel *)
