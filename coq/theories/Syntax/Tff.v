(* Abstract syntax of the fragment of TPTP TFF (typed first-order form) that anthem emits, as a
   TPTP reader sees it: the reader knows nothing about anthem's sorts, it sees identifiers,
   applications, typed quantifier blocks.  Also the TOKEN type of the concrete syntax and the
   byte rendering of tokens (the spacing anthem uses). *)
From Coq Require Import List Ascii String ZArith NArith Bool.
From Anthem Require Import Base.Fresh Syntax.Fol.
Import ListNotations.
Open Scope string_scope.
Open Scope list_scope.

(* the three types that occur in variable lists and declarations: $int, general, symbol *)
Inductive tff_type := TyInt | TyGeneral | TySymbol.

Definition tff_type_eqb (a b : tff_type) : bool :=
  match a, b with TyInt, TyInt | TyGeneral, TyGeneral | TySymbol, TySymbol => true | _, _ => false end.
Lemma tff_type_eqb_spec a b : reflect (a = b) (tff_type_eqb a b).
Proof. destruct a, b; cbn; constructor; congruence. Qed.

(* signatures of declared identifiers: `t: $tType`, `f: (a * b) > r` / `c: r`, `p: (a * b) > $o` / `p: $o` *)
Inductive tff_sig :=
| SigType
| SigFun (args : list tff_type) (res : tff_type)
| SigPred (args : list tff_type).

(* terms: unsigned $int numerals, variables (upper words), applications f(t1,..,tn) of a functor
   (lower word or $-word; n = 0 is a constant).  $uminus/$sum/$difference/$product,
   f__integer__/f__symbolic__, c__infimum__/c__supremum__ are ordinary functors here; their
   fixed meaning is given by the standard structure in Sem/TffSem.v. *)
Inductive tff_term :=
| TNum (n : N)
| TVar (x : string)
| TApp (f : string) (args : list tff_term).

(* formulas: atoms p(t1,..,tn) (n = 0: a proposition; $true, $false, $less.., p__less__.. are
   ordinary predicate names here), infix = and !=, ~, the five binary connectives
   & | => <= <=> (shared with Syntax/Fol.v: CAnd COr CImp CRimp CIff), ! and ? *)
Inductive tff_formula :=
| TPred (p : string) (args : list tff_term)
| TEq (l r : tff_term)
| TNeq (l r : tff_term)
| TNot (f : tff_formula)
| TBin (c : bconn) (l r : tff_formula)
| TQ (q : quant) (vs : list (string * tff_type)) (f : tff_formula).

(* ---------- problems: `tff(name, type, ident: sig).` and `tff(name, role, formula).` ---------- *)
Inductive tff_role := RoleAxiom | RoleConjecture.
Definition tff_role_eqb (a b : tff_role) : bool :=
  match a, b with RoleAxiom, RoleAxiom | RoleConjecture, RoleConjecture => true | _, _ => false end.
Record tff_decl := mkdecl { d_name : string; d_ident : string; d_sig : tff_sig }.
Record tff_named := mknamed { n_name : string; n_role : tff_role; n_formula : tff_formula }.
Record tff_problem := mktp { tp_decls : list tff_decl; tp_formulas : list tff_named }.

(* ---------- tokens ---------- *)
(* KWord: a maximal run of letters, digits, '_' and '$' that does not start with a digit
   (variables, functors, $-words, type names); KNum: an unsigned decimal numeral *)
Inductive token :=
| KWord (w : string) | KNum (n : N)
| KLPar | KRPar | KLBrack | KRBrack | KComma | KColon
| KNot | KAnd | KOr | KImp | KRimp | KIff | KEq | KNeq | KAll | KEx.

Definition conn_token (c : bconn) : token :=
  match c with CAnd => KAnd | COr => KOr | CImp => KImp | CRimp => KRimp | CIff => KIff end.
Definition quant_token (q : quant) : token := match q with QForall => KAll | QExists => KEx end.

(* byte rendering with anthem's spacing: binary connectives and the infix (in)equality are
   surrounded by single spaces, "," and ":" are followed by one space, everything else is bare *)
Definition token_str (k : token) : string :=
  match k with
  | KWord w => w | KNum n => nat_str n
  | KLPar => "(" | KRPar => ")" | KLBrack => "[" | KRBrack => "]"
  | KComma => ", " | KColon => ": "
  | KNot => "~" | KAnd => " & " | KOr => " | " | KImp => " => " | KRimp => " <= " | KIff => " <=> "
  | KEq => " = " | KNeq => " != " | KAll => "!" | KEx => "?"
  end.
Definition render (ts : list token) : string := String.concat "" (map token_str ts).

(* lexical classes of words (TPTP: upper_word = variable, lower_word = functor, $-word = defined) *)
Definition is_upper (c : ascii) : bool := let n := nat_of_ascii c in (65 <=? n)%nat && (n <=? 90)%nat.
Definition is_lower (c : ascii) : bool := let n := nat_of_ascii c in (97 <=? n)%nat && (n <=? 122)%nat.
Definition is_digit (c : ascii) : bool := let n := nat_of_ascii c in (48 <=? n)%nat && (n <=? 57)%nat.
Definition is_alnum_ (c : ascii) : bool := is_upper c || is_lower c || is_digit c || Ascii.eqb c "_"%char.
Fixpoint all_chars (p : ascii -> bool) (s : string) : bool :=
  match s with EmptyString => true | String c s' => p c && all_chars p s' end.
Definition is_upper_word (w : string) : bool :=
  match w with String c r => is_upper c && all_chars is_alnum_ r | EmptyString => false end.
Definition is_lower_word (w : string) : bool :=
  match w with String c r => is_lower c && all_chars is_alnum_ r | EmptyString => false end.
Definition is_dollar_word (w : string) : bool :=
  match w with String c r => Ascii.eqb c "$"%char && is_lower_word r | EmptyString => false end.
(* a functor position accepts lower words and $-words *)
Definition is_functor_word (w : string) : bool := is_lower_word w || is_dollar_word w.

(* EXTRACT: tff_sig tff_formula tff_problem tff_role_eqb token render is_upper_word is_lower_word is_functor_word tff_type_eqb *)
