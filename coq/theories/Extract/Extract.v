(* Extraction of the executable model to OCaml (driver: /verif/ocaml).
   Directives used: ExtrOcamlBasic (bool, option, unit, list, prod, sumbool, comparison ->
   native OCaml types) and ExtrOcamlString (ascii -> char, string -> char list).
   Z / N / positive / nat stay extracted inductives. *)
From Coq Require Import Extraction ExtrOcamlBasic ExtrOcamlString.
From Anthem Require Import Base.ISet Syntax.Fol Syntax.Asp Sem.Domain Model.Apply Model.Gamma Model.Eval.
Extraction Language OCaml.
Set Extraction AccessOpaque.
Separate Extraction
  Fol.user_guide Fol.specification Asp.program
  Fol.formula_eqb Fol.free_variables Fol.variables Fol.predicates Fol.symbols Fol.function_constants
  Fol.conjoin Fol.disjoin Fol.universal_closure
  Asp.program_preds Asp.program_vars Asp.program_fconsts Asp.program_head_preds Asp.rule_terms
  Domain.rel_sat Domain.in_sortb
  Apply.apply Apply.apply_fixpoint Apply.compose
  Gamma.gamma Gamma.gamma_theory
  Eval.ceval Eval.heval Eval.fmerge Eval.w_general Eval.w_sort.
