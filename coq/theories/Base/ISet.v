(* IndexSet / IndexMap model: duplicate-free lists in insertion order. *)
From Coq Require Import List Bool.
Import ListNotations.

Section ISet.
Context {A : Type} (dec : forall x y : A, {x = y} + {x <> y}).

Definition memb (x : A) (l : list A) : bool := if in_dec dec x l then true else false.
Lemma memb_spec x l : reflect (In x l) (memb x l).
Proof. unfold memb; destruct (in_dec dec x l); constructor; auto. Qed.

(* IndexSet::insert: append when absent *)
Definition iset_insert (l : list A) (x : A) : list A := if memb x l then l else l ++ [x].
(* IndexSet::extend *)
Definition iset_extend (l m : list A) : list A := fold_left iset_insert m l.
(* IndexSet::from_iter *)
Definition iset_of_list (l : list A) : list A := iset_extend [] l.
(* IndexSet::shift_remove *)
Fixpoint iset_remove (x : A) (l : list A) : list A :=
  match l with
  | [] => []
  | y :: ys => if dec x y then ys else y :: iset_remove x ys
  end.

Lemma in_iset_insert l x y : In y (iset_insert l x) <-> In y l \/ y = x.
Proof.
  unfold iset_insert. destruct (memb_spec x l) as [H|H].
  - split; [auto|]. intros [?| ->]; auto.
  - rewrite in_app_iff; cbn. intuition.
Qed.
Lemma in_iset_extend m : forall l y, In y (iset_extend l m) <-> In y l \/ In y m.
Proof.
  induction m as [|x m IH]; intros l y; cbn; [tauto|].
  fold (iset_extend (iset_insert l x) m). rewrite IH, in_iset_insert. intuition.
Qed.
Lemma nodup_snoc (l : list A) x : NoDup l -> ~ In x l -> NoDup (l ++ [x]).
Proof.
  induction l as [|y l IH]; cbn; intros Hl Hx.
  - constructor; [intros []|constructor].
  - inversion Hl as [|? ? Hy Hl']; subst. constructor.
    + rewrite in_app_iff; cbn. intuition.
    + apply IH; auto.
Qed.
Lemma nodup_iset_insert l x : NoDup l -> NoDup (iset_insert l x).
Proof.
  unfold iset_insert. destruct (memb_spec x l) as [H|H]; auto.
  intros Hl. apply nodup_snoc; auto.
Qed.
Lemma nodup_iset_extend m : forall l, NoDup l -> NoDup (iset_extend l m).
Proof.
  induction m as [|x m IH]; intros l Hl; cbn; auto.
  apply IH, nodup_iset_insert, Hl.
Qed.
Lemma in_iset_remove x l y : NoDup l -> (In y (iset_remove x l) <-> In y l /\ y <> x).
Proof.
  induction l as [|z l IH]; cbn; intros Hl; [tauto|].
  inversion Hl as [|? ? Hz Hl']; subst.
  destruct (dec x z) as [->|Hne].
  - split; [intros Hy; split; auto; intros ->; auto|]. intros [[->|Hy] Hn]; [congruence|auto].
  - cbn. rewrite IH by auto. split.
    + intros [->|[Hy Hn]]; auto.
    + intros [[->|Hy] Hn]; auto.
Qed.
Lemma nodup_iset_remove x l : NoDup l -> NoDup (iset_remove x l).
Proof.
  induction l as [|z l IH]; cbn; intros Hl; auto.
  inversion Hl as [|? ? Hz Hl']; subst.
  destruct (dec x z); auto. constructor; auto.
  intros Hin. apply in_iset_remove in Hin; tauto.
Qed.
End ISet.

(* EXTRACT: iset_insert iset_extend iset_of_list iset_remove memb *)
