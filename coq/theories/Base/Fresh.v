(* Decimal printing of naturals (Rust: `{}` of usize / `to_string()`), and the unbounded
   "first free candidate" searches of the code (`while taken.contains(candidate)`,
   `Variable::sequence(..).find(..).unwrap()`) as recursion on fuel.  [find_fresh_total]
   (pigeonhole + injectivity of the decimal printer) shows that fuel = |taken| is always enough,
   so the total wrappers below never hit their fallback. *)
From Coq Require Import List Ascii String ZArith NArith Bool Lia DecimalString DecimalN.
Import ListNotations.
Open Scope string_scope.

Definition nat_str (n : N) : string := NilEmpty.string_of_uint (N.to_uint n).

Lemma nat_str_inj n m : nat_str n = nat_str m -> n = m.
Proof.
  unfold nat_str; intros H.
  assert (E : NilEmpty.uint_of_string (NilEmpty.string_of_uint (N.to_uint n)) =
              NilEmpty.uint_of_string (NilEmpty.string_of_uint (N.to_uint m))) by (rewrite H; reflexivity).
  rewrite !NilEmpty.usu in E. inversion E as [E'].
  apply (f_equal N.of_uint) in E'. rewrite !DecimalN.Unsigned.of_to in E'. exact E'.
Qed.

Lemma app_inj_l (a b c : string) : a ++ b = a ++ c -> b = c.
Proof. induction a; cbn; intros H; [exact H|]. inversion H; auto. Qed.

(* first candidate  variant ++ decimal(m), m, m+1, ...  for which [bad] is false *)
Fixpoint find_fresh_by (fuel : nat) (variant : string) (bad : string -> bool) (m : N) : option (string * N) :=
  let c := variant ++ nat_str m in
  if bad c then
    match fuel with O => None | S f => find_fresh_by f variant bad (N.succ m) end
  else Some (c, m).

Definition find_fresh (fuel : nat) (variant : string) (taken : list string) (m : N) : option string :=
  option_map fst (find_fresh_by fuel variant (fun c => if in_dec string_dec c taken then true else false) m).

Lemma find_fresh_by_sound fuel v bad m c k : find_fresh_by fuel v bad m = Some (c, k) ->
  bad c = false /\ c = v ++ nat_str k /\ (m <= k)%N /\ forall j, (m <= j < k)%N -> bad (v ++ nat_str j) = true.
Proof.
  revert m; induction fuel as [|f IH]; intros m; cbn; destruct (bad (v ++ nat_str m)) eqn:E; try discriminate.
  - intros [= <- <-]. repeat split; auto; lia.
  - intros H. destruct (IH _ H) as [H1 [H2 [H3 H4]]]. repeat split; auto; [lia|].
    intros j Hj. destruct (N.eq_dec j m) as [->|]; auto. apply H4; lia.
  - intros [= <- <-]. repeat split; auto; lia.
Qed.

Fixpoint cands (v : string) (m : N) (k : nat) : list string :=
  match k with O => [] | S k' => (v ++ nat_str m) :: cands v (N.succ m) k' end.
Lemma cands_in v m k x : In x (cands v m k) -> exists j, (m <= j)%N /\ x = v ++ nat_str j.
Proof.
  revert m; induction k as [|k IH]; intros m; cbn; [tauto|].
  intros [<-|H]; [exists m; split; [lia|reflexivity]|].
  destruct (IH _ H) as [j [Hj ->]]. exists j; split; [lia|reflexivity].
Qed.
Lemma cands_nodup v m k : NoDup (cands v m k).
Proof.
  revert m; induction k as [|k IH]; intros m; cbn; constructor; auto.
  intros H. destruct (cands_in _ _ _ _ H) as [j [Hj E]].
  apply app_inj_l, nat_str_inj in E. lia.
Qed.
Lemma cands_length v m k : List.length (cands v m k) = k.
Proof. revert m; induction k; cbn; auto. Qed.

Lemma find_fresh_by_none fuel v bad m :
  find_fresh_by fuel v bad m = None -> forall x, In x (cands v m (S fuel)) -> bad x = true.
Proof.
  revert m; induction fuel as [|f IH]; intros m; cbn; destruct (bad (v ++ nat_str m)) eqn:E; try discriminate.
  - intros _ x [<-|[]]; assumption.
  - intros H x [<-|Hx]; [assumption|]. apply (IH _ H). exact Hx.
Qed.

(* if the "bad" strings are all members of a list [taken], fuel |taken| suffices *)
Theorem find_fresh_by_total v bad (taken : list string) m :
  (forall x, bad x = true -> In x taken) ->
  exists c k, find_fresh_by (List.length taken) v bad m = Some (c, k).
Proof.
  intros Hb. destruct (find_fresh_by (List.length taken) v bad m) as [[c k]|] eqn:E; [eauto|].
  pose proof (find_fresh_by_none _ _ _ _ E) as Hall.
  assert (Hincl : incl (cands v m (S (List.length taken))) taken) by (intros x Hx; apply Hb, Hall, Hx).
  pose proof (NoDup_incl_length (cands_nodup v m (S (List.length taken))) Hincl) as L.
  rewrite cands_length in L. lia.
Qed.

Theorem find_fresh_total v taken m : exists c, find_fresh (List.length taken) v taken m = Some c.
Proof.
  unfold find_fresh.
  assert (Hb : forall x, (if in_dec string_dec x taken then true else false) = true -> In x taken).
  { intros x. destruct (in_dec string_dec x taken); [auto|discriminate]. }
  destruct (find_fresh_by_total v _ taken m Hb) as [c [k E]].
  rewrite E. cbn. eauto.
Qed.

(* EXTRACT: nat_str find_fresh find_fresh_by *)
