#!/usr/bin/env python3
"""Regenerating translator (DESIGN.md §3.2):  standard_interpretation.p  ->  coq/theories/Gen/Preamble.v

Parses anthem's TFF preamble ($ANTHEM_REPO/src/verifying/problem/standard_interpretation.p) and
emits
  * preamble_lines / preamble_text : the bytes of the file (the model of `Display for Problem`
    starts with them);
  * Record tff_structure : one field per `type` declaration (carriers `general`, `symbol`, the
    embeddings, the constants, the predicates);
  * one Coq Prop `ax_<name> : tff_structure -> Prop` per `axiom`, and the list preamble_axioms;
  * preamble_decls / preamble_formulas : the same declarations and axioms as TFF syntax trees
    (Syntax/Tff.v), used by the problem model and the type checker of C09.
STRICT: anything it does not recognise is an error (exit status 1), which the check reports as a
broken tie.  Also usable as a library (props/C12.py evaluates the axioms on a finite window).
"""
import os
import re
import sys

# ------------------------------------------------------------------ lexer / parser (TFF subset)

class Bad(Exception):
    pass


TOKEN_RE = re.compile(r"\s*(?:(<=>|=>|<=|!=|[()\[\],:~&|=!?.*>])|([A-Za-z_$][A-Za-z0-9_$]*)|([0-9]+))")


def lex(text):
    pos = 0
    out = []
    text = text.rstrip()
    while pos < len(text):
        m = TOKEN_RE.match(text, pos)
        if not m:
            raise Bad(f"illegal character at {pos}: {text[pos:pos+20]!r}")
        if m.group(1):
            out.append(("p", m.group(1)))
        elif m.group(2):
            out.append(("w", m.group(2)))
        else:
            out.append(("n", m.group(3)))
        pos = m.end()
    return out


def is_upper_word(w):
    return re.fullmatch(r"[A-Z][A-Za-z0-9_]*", w) is not None


def is_functor(w):
    return re.fullmatch(r"\$?[a-z][A-Za-z0-9_]*", w) is not None


class Parser:
    """formula ::= unit | unit (& unit)+ | unit (| unit)+ | unit (=>|<=|<=>) unit
       unit ::= ~ unit | (!|?) [vars] : unit | ( formula ) | term (=|!=) term | atom"""

    def __init__(self, toks):
        self.t = toks
        self.i = 0

    def peek(self):
        return self.t[self.i] if self.i < len(self.t) else (None, None)

    def next(self):
        tok = self.peek()
        self.i += 1
        return tok

    def expect(self, p):
        k, v = self.next()
        if (k, v) != ("p", p):
            raise Bad(f"expected {p!r}, found {v!r}")

    def term(self):
        k, v = self.next()
        if k == "n":
            return ("num", int(v))
        if k != "w":
            raise Bad(f"term expected, found {v!r}")
        if is_upper_word(v):
            return ("var", v)
        if not is_functor(v):
            raise Bad(f"illegal word {v!r}")
        args = []
        if self.peek() == ("p", "("):
            self.next()
            args.append(self.term())
            while self.peek() == ("p", ","):
                self.next()
                args.append(self.term())
            self.expect(")")
        return ("app", v, args)

    def type_(self):
        k, v = self.next()
        if (k, v) in (("w", "$int"), ("w", "general"), ("w", "symbol")):
            return v
        raise Bad(f"type expected, found {v!r}")

    def unit(self):
        k, v = self.peek()
        if (k, v) == ("p", "~"):
            self.next()
            return ("not", self.unit())
        if (k, v) in (("p", "!"), ("p", "?")):
            self.next()
            self.expect("[")
            vs = []
            while True:
                k2, x = self.next()
                if k2 != "w" or not is_upper_word(x):
                    raise Bad(f"variable expected, found {x!r}")
                self.expect(":")
                vs.append((x, self.type_()))
                if self.peek() == ("p", ","):
                    self.next()
                    continue
                break
            self.expect("]")
            self.expect(":")
            return ("forall" if v == "!" else "exists", vs, self.unit())
        if (k, v) == ("p", "("):
            self.next()
            f = self.formula()
            self.expect(")")
            return f
        l = self.term()
        if self.peek() in (("p", "="), ("p", "!=")):
            op = self.next()[1]
            r = self.term()
            return ("eq" if op == "=" else "neq", l, r)
        if l[0] != "app":
            raise Bad("atom expected")
        return ("pred", l[1], l[2])

    def formula(self):
        l = self.unit()
        k, v = self.peek()
        if (k, v) in (("p", "&"), ("p", "|")):
            c = "and" if v == "&" else "or"
            while self.peek() == ("p", v):
                self.next()
                l = (c, l, self.unit())
            return l
        if (k, v) in (("p", "=>"), ("p", "<="), ("p", "<=>")):
            self.next()
            return ({"=>": "imp", "<=": "rimp", "<=>": "iff"}[v], l, self.unit())
        return l

    def signature(self):
        """type declaration body after `ident :`"""
        k, v = self.peek()
        if (k, v) == ("w", "$tType"):
            self.next()
            return ("type",)
        if (k, v) == ("w", "$o"):
            self.next()
            return ("pred", [])
        if (k, v) == ("p", "("):
            self.next()
            args = [self.type_()]
            while self.peek() == ("p", "*"):
                self.next()
                args.append(self.type_())
            self.expect(")")
            self.expect(">")
            if self.peek() == ("w", "$o"):
                self.next()
                return ("pred", args)
            return ("fun", args, self.type_())
        return ("fun", [], self.type_())


def parse_file(text, check=True):
    """-> (lines, decls [(name, ident, sig)], axioms [(name, formula)])"""
    if "\r" in text or "{" in text or "}" in text or '"' in text or "\\" in text:
        raise Bad("unexpected character in the preamble (CR, brace, quote or backslash)")
    if not text.endswith("\n"):
        raise Bad("the preamble must end with a newline")
    lines = text[:-1].split("\n")
    decls, axioms = [], []
    for ln, line in enumerate(lines, 1):
        try:
            toks = lex(line)
            p = Parser(toks)
            if p.next() != ("w", "tff"):
                raise Bad("tff( expected")
            p.expect("(")
            k, name = p.next()
            if k != "w" or not re.fullmatch(r"[a-z][A-Za-z0-9_]*", name):
                raise Bad(f"formula name expected, found {name!r}")
            p.expect(",")
            k, role = p.next()
            p.expect(",")
            if (k, role) == ("w", "type"):
                k, ident = p.next()
                if k != "w" or not is_functor(ident) or ident.startswith("$"):
                    raise Bad(f"identifier expected, found {ident!r}")
                p.expect(":")
                decls.append((name, ident, p.signature()))
            elif (k, role) == ("w", "axiom"):
                axioms.append((name, p.formula()))
            else:
                raise Bad(f"role {role!r} not supported in the preamble")
            p.expect(")")
            p.expect(".")
            if p.i != len(toks):
                raise Bad("trailing tokens")
        except Bad as b:
            raise Bad(f"line {ln}: {b}: {line}")
    if check:
        self_check(lines, decls, axioms)
    return lines, decls, axioms


# ------------------------------------------------------------------ strict self-check of the parse
# The Coq axiom list must be THE parse of the bytes.  Two independent checks:
#  (1) here: the syntax tree, printed fully parenthesised, is re-parsed to the same tree, and its
#      tokens are, apart from parentheses, exactly the tokens of the source line in the same order
#      (nothing dropped, nothing invented, nothing reordered);
#  (2) in Coq (Proofs/ProblemText.v [preamble_reads], Properties/C12text.v C12_preamble_text): the
#      specification reader Model/TffText.v [read_problem] reads [preamble_text] as exactly
#      preamble_decls / preamble_formulas -- grouping included; the build fails otherwise.

def show_term(t):
    if t[0] == "num":
        return str(t[1])
    if t[0] == "var":
        return t[1]
    if not t[2]:
        return t[1]
    return t[1] + "(" + ", ".join(show_term(a) for a in t[2]) + ")"


def show_formula(f):
    """fully parenthesised"""
    k = f[0]
    if k == "pred":
        return show_term(("app", f[1], f[2]))
    if k in ("eq", "neq"):
        return "(" + show_term(f[1]) + (" = " if k == "eq" else " != ") + show_term(f[2]) + ")"
    if k == "not":
        return "~(" + show_formula(f[1]) + ")"
    if k in ("and", "or", "imp", "rimp", "iff"):
        op = {"and": "&", "or": "|", "imp": "=>", "rimp": "<=", "iff": "<=>"}[k]
        return "(" + show_formula(f[1]) + " " + op + " " + show_formula(f[2]) + ")"
    q = "!" if k == "forall" else "?"
    return q + "[" + ", ".join(f"{x}: {ty}" for x, ty in f[1]) + "]: (" + show_formula(f[2]) + ")"


def show_sig(sig):
    if sig[0] == "type":
        return "$tType"
    if sig[0] == "pred":
        return "$o" if not sig[1] else "(" + " * ".join(sig[1]) + ") > $o"
    return sig[2] if not sig[1] else "(" + " * ".join(sig[1]) + ") > " + sig[2]


def no_parens(toks):
    return [t for t in toks if t not in (("p", "("), ("p", ")"))]


def self_check(lines, decls, axioms):
    shown = [f"tff({name}, type, {ident}: {show_sig(sg)})." for name, ident, sg in decls]
    shown += [f"tff({name}, axiom, {show_formula(f)})." for name, f in axioms]
    if len(shown) != len(lines):
        raise Bad("self-check: number of statements")
    # declarations first, then axioms, in file order (the Coq lists keep that order)
    order = [l for l in lines if ", type, " in l] + [l for l in lines if ", type, " not in l]
    if order != lines:
        raise Bad("self-check: the preamble must list its type declarations before its axioms")
    d2, a2 = parse_file("\n".join(shown) + "\n", check=False)[1:]
    if d2 != decls or a2 != axioms:
        raise Bad("self-check: the printed syntax trees do not re-parse to themselves")
    for line, sh in zip(lines, shown):
        if no_parens(lex(line)) != no_parens(lex(sh)):
            raise Bad(f"self-check: the syntax tree does not have the tokens of the line: {line}")


# ------------------------------------------------------------------ type checking (for the Coq rendering)

INT_PREDS = {"$less": "<", "$lesseq": "<=", "$greater": ">", "$greatereq": ">="}
INT_FUNS2 = {"$sum": "+", "$difference": "-", "$product": "*"}


class Sig:
    def __init__(self, decls):
        self.types = []
        self.funs = {}
        self.preds = {}
        seen = set()
        for name, ident, sig in decls:
            if ident in seen:
                raise Bad(f"{ident} declared twice in the preamble")
            seen.add(ident)
            if sig[0] == "type":
                self.types.append(ident)
            elif sig[0] == "fun":
                self.funs[ident] = (sig[1], sig[2])
            else:
                self.preds[ident] = sig[1]
        if self.types != ["general", "symbol"]:
            raise Bad(f"expected exactly the types general, symbol; found {self.types}")


def coq_type(ty):
    return {"$int": "Z", "general": "general A__", "symbol": "symbol A__"}[ty]


def term_type(sig, env, t):
    if t[0] == "num":
        return "$int"
    if t[0] == "var":
        if t[1] not in env:
            raise Bad(f"unbound variable {t[1]}")
        return env[t[1]]
    f, args = t[1], t[2]
    if f in INT_FUNS2 and len(args) == 2 or f == "$uminus" and len(args) == 1:
        for a in args:
            if term_type(sig, env, a) != "$int":
                raise Bad(f"{f}: $int argument expected")
        return "$int"
    if f not in sig.funs:
        raise Bad(f"undeclared functor {f}")
    tys, res = sig.funs[f]
    if len(tys) != len(args) or any(term_type(sig, env, a) != ty for a, ty in zip(args, tys)):
        raise Bad(f"{f}: ill-typed application")
    return res


def coq_term(sig, env, t):
    if t[0] == "num":
        return f"{t[1]}%Z"
    if t[0] == "var":
        return t[1]
    f, args = t[1], t[2]
    if f in INT_FUNS2:
        return f"({coq_term(sig, env, args[0])} {INT_FUNS2[f]} {coq_term(sig, env, args[1])})%Z"
    if f == "$uminus":
        return f"(- {coq_term(sig, env, args[0])})%Z"
    if not args:
        return f"({f} A__)"
    return "(" + f + " A__ " + " ".join(coq_term(sig, env, a) for a in args) + ")"


def coq_formula(sig, env, f):
    k = f[0]
    if k == "pred":
        p, args = f[1], f[2]
        if p == "$true" and not args:
            return "True"
        if p == "$false" and not args:
            return "False"
        if p in INT_PREDS:
            if len(args) != 2 or any(term_type(sig, env, a) != "$int" for a in args):
                raise Bad(f"{p}: two $int arguments expected")
            return f"({coq_term(sig, env, args[0])} {INT_PREDS[p]} {coq_term(sig, env, args[1])})%Z"
        if p not in sig.preds:
            raise Bad(f"undeclared predicate {p}")
        tys = sig.preds[p]
        if len(tys) != len(args) or any(term_type(sig, env, a) != ty for a, ty in zip(args, tys)):
            raise Bad(f"{p}: ill-typed atom")
        if not args:
            return f"({p} A__)"
        return "(" + p + " A__ " + " ".join(coq_term(sig, env, a) for a in args) + ")"
    if k in ("eq", "neq"):
        if term_type(sig, env, f[1]) != term_type(sig, env, f[2]):
            raise Bad("equation between different types")
        return f"({coq_term(sig, env, f[1])} {'=' if k == 'eq' else '<>'} {coq_term(sig, env, f[2])})"
    if k == "not":
        return f"(~ {coq_formula(sig, env, f[1])})"
    if k in ("and", "or", "imp", "iff"):
        op = {"and": "/\\", "or": "\\/", "imp": "->", "iff": "<->"}[k]
        return f"({coq_formula(sig, env, f[1])} {op} {coq_formula(sig, env, f[2])})"
    if k == "rimp":
        return f"({coq_formula(sig, env, f[2])} -> {coq_formula(sig, env, f[1])})"
    if k in ("forall", "exists"):
        env2 = dict(env)
        for x, ty in f[1]:
            if x in ("A__",):
                raise Bad("reserved variable name")
            env2[x] = ty
        binders = " ".join(f"({x} : {coq_type(ty)})" for x, ty in f[1])
        return f"({k} {binders}, {coq_formula(sig, env2, f[2])})"
    raise Bad(f"unknown formula node {k}")


# ------------------------------------------------------------------ TFF syntax trees (Syntax/Tff.v)

def cstr(s):
    return '"' + s + '"'


def ast_type(ty):
    return {"$int": "TyInt", "general": "TyGeneral", "symbol": "TySymbol"}[ty]


def ast_term(t):
    if t[0] == "num":
        return f"(TNum {t[1]}%N)"
    if t[0] == "var":
        return f"(TVar {cstr(t[1])})"
    return f"(TApp {cstr(t[1])} [" + "; ".join(ast_term(a) for a in t[2]) + "])"


def ast_formula(f):
    k = f[0]
    if k == "pred":
        return f"(TPred {cstr(f[1])} [" + "; ".join(ast_term(a) for a in f[2]) + "])"
    if k == "eq":
        return f"(TEq {ast_term(f[1])} {ast_term(f[2])})"
    if k == "neq":
        return f"(TNeq {ast_term(f[1])} {ast_term(f[2])})"
    if k == "not":
        return f"(TNot {ast_formula(f[1])})"
    if k in ("and", "or", "imp", "rimp", "iff"):
        c = {"and": "CAnd", "or": "COr", "imp": "CImp", "rimp": "CRimp", "iff": "CIff"}[k]
        return f"(TBin {c} {ast_formula(f[1])} {ast_formula(f[2])})"
    q = "QForall" if k == "forall" else "QExists"
    vs = "; ".join(f"({cstr(x)}, {ast_type(ty)})" for x, ty in f[1])
    return f"(TQ {q} [{vs}] {ast_formula(f[2])})"


def ast_sig(sig):
    if sig[0] == "type":
        return "SigType"
    if sig[0] == "pred":
        return "(SigPred [" + "; ".join(ast_type(t) for t in sig[1]) + "])"
    return "(SigFun [" + "; ".join(ast_type(t) for t in sig[1]) + f"] {ast_type(sig[2])})"


def field_type(sig):
    if sig[0] == "type":
        return "Type"
    if sig[0] == "pred":
        return " -> ".join([coq_field_ty(t) for t in sig[1]] + ["Prop"])
    return " -> ".join([coq_field_ty(t) for t in sig[1]] + [coq_field_ty(sig[2])])


def coq_field_ty(ty):
    return {"$int": "Z", "general": "general", "symbol": "symbol"}[ty]


def render(path_shown, lines, decls, axioms):
    sig = Sig(decls)
    out = []
    w = out.append
    w("(* GENERATED by tools/preamble2coq.py from " + path_shown)
    w("   on every build (tools/regen.py).  DO NOT EDIT: edit the .p file or the translator. *)")
    w("From Coq Require Import List String ZArith NArith.")
    w("From Anthem Require Import Syntax.Fol Syntax.Tff.")
    w("Import ListNotations.")
    w("Open Scope string_scope.")
    w("")
    w("(* the bytes of the file: every line is followed by a newline *)")
    w("Definition preamble_lines : list string := [")
    w(";\n".join("  " + cstr(l) for l in lines))
    w("].")
    w('Definition newline : string := String (Ascii.ascii_of_nat 10) "".')
    w("Definition preamble_text : string := String.concat \"\" (map (fun l => l ++ newline) preamble_lines).")
    w("(* the same bytes as ONE literal (the newlines are in the literal): Properties/C12text.v proves")
    w("   preamble_text = preamble_bytes and that the specification reader reads these bytes as")
    w("   preamble_decls / preamble_formulas below *)")
    w("Definition preamble_bytes : string :=")
    w(cstr("".join(l + "\n" for l in lines)) + ".")
    w("")
    w("(* an arbitrary structure for the declared signature ($int is always Z) *)")
    w("Record tff_structure := mk_tff_structure {")
    w(";\n".join(f"  {ident} : {field_type(s)}" for _, ident, s in decls))
    w("}.")
    w("")
    for name, f in axioms:
        w(f"Definition ax_{name} (A__ : tff_structure) : Prop :=")
        w("  " + coq_formula(sig, {}, f) + ".")
    w("")
    w("Definition preamble_axioms : list (string * (tff_structure -> Prop)) := [")
    w(";\n".join(f"  ({cstr(name)}, ax_{name})" for name, _ in axioms))
    w("].")
    w("")
    w("(* the same file as TFF syntax: declarations (formula name, identifier, signature) ... *)")
    w("Definition preamble_decls : list (string * string * tff_sig) := [")
    w(";\n".join(f"  ({cstr(name)}, {cstr(ident)}, {ast_sig(s)})" for name, ident, s in decls))
    w("].")
    w("(* ... and axioms (formula name, formula) *)")
    w("Definition preamble_formulas : list (string * tff_formula) := [")
    w(";\n".join(f"  ({cstr(name)}, {ast_formula(f)})" for name, f in axioms))
    w("].")
    w("")
    w("(* EXTRACT: preamble_text preamble_decls preamble_formulas *)")
    return "\n".join(out) + "\n"


def preamble_path():
    repo = os.environ.get("ANTHEM_REPO", "/repo")
    return os.path.join(repo, "src", "verifying", "problem", "standard_interpretation.p")


# ------------------------------------------------------------------ the pinned preamble (audit B8)
def pin_of(decls, axioms):
    """names and content hashes of the declarations and axioms: what props/C12.json pins.  The hash is
    over the parsed syntax tree (layout-insensitive)."""
    import hashlib

    def h(x):
        return hashlib.sha256(repr(x).encode()).hexdigest()[:16]
    return {"declarations": [{"name": n, "ident": i, "sha": h(sg)} for n, i, sg in decls],
            "axioms": [{"name": n, "sha": h(f)} for n, f in axioms]}


def compare_pin(pinned, current):
    """-> list of (kind, what, name); kind in removed / new / changed / reordered"""
    out = []
    for what in ("declarations", "axioms"):
        old = {e["name"]: e for e in pinned.get(what, [])}
        new = {e["name"]: e for e in current.get(what, [])}
        for n in old:
            if n not in new:
                out.append(("removed", what, n))
            elif {k: v for k, v in old[n].items()} != {k: v for k, v in new[n].items()}:
                out.append(("changed", what, n))
        for n in new:
            if n not in old:
                out.append(("new", what, n))
        if not out and [e["name"] for e in pinned.get(what, [])] != [e["name"] for e in current.get(what, [])]:
            out.append(("reordered", what, ""))
    return out


def main():
    src = preamble_path()
    if "--pin" in sys.argv:
        import json
        _, decls, axioms = parse_file(open(src).read())
        print(json.dumps(pin_of(decls, axioms), indent=1))
        return 0
    verif = os.path.dirname(os.path.dirname(os.path.abspath(__file__)))
    dst = os.path.join(verif, "coq", "theories", "Gen", "Preamble.v")
    try:
        text = open(src).read()
        lines, decls, axioms = parse_file(text)
        coq = render("<ANTHEM_REPO>/src/verifying/problem/standard_interpretation.p", lines, decls, axioms)
    except (Bad, OSError) as b:
        print(f"preamble2coq: {b}", file=sys.stderr)
        sys.exit(1)
    os.makedirs(os.path.dirname(dst), exist_ok=True)
    if not os.path.exists(dst) or open(dst).read() != coq:
        with open(dst, "w") as f:
            f.write(coq)
    return 0


if __name__ == "__main__":
    sys.exit(main())
