#!/usr/bin/env python3
"""tools/tables_fol2coq.py — regenerates coq/theories/Gen/TablesFol.v from the anthem sources.

Extracted (regex level, deliberately strict: any shape that is not recognised is an error and the
script exits 1, which bin/vlib.py reports as a broken tie):
  * src/formatting/fol/sigma_0/default.rs
      impl Precedence for Format<'_, IntegerTerm>: precedence(), associativity(), mandatory_parentheses()
      impl Precedence for Format<'_, Formula>:     precedence(), associativity(), mandatory_parentheses()
  * src/parsing/fol/sigma_0/pest.rs
      TERM_PRATT_PARSER and FORMULA_PRATT_PARSER (.op() chains)
  * pest's pratt_parser.rs (version from Cargo.lock): PREC_STEP, the initial precedence and the
    increment-before-insert of PrattParser::op, and the operand binding powers used by nud/led.
Paths: $ANTHEM_REPO (default /repo), $CARGO_HOME (default ~/.cargo).
Writes only when the content changes.  `--check` prints the text instead of writing it."""
import glob
import os
import re
import sys

REPO = os.environ.get("ANTHEM_REPO", "/repo")
VERIF = os.path.dirname(os.path.dirname(os.path.abspath(__file__)))
OUT = os.path.join(VERIF, "coq", "theories", "Gen", "TablesFol.v")


class Strict(Exception):
    pass


def die(msg):
    raise Strict(msg)


def read(path):
    if not os.path.exists(path):
        die(f"missing source file {path}")
    return open(path).read()


def strip_comments(s):
    s = re.sub(r"//[^\n]*", "", s)
    return re.sub(r"/\*.*?\*/", "", s, flags=re.S)


def block_after(text, header_re, what):
    """text of the {...} block that follows the unique match of header_re"""
    ms = list(re.finditer(header_re, text))
    if len(ms) != 1:
        die(f"{what}: expected exactly one match of /{header_re}/, found {len(ms)}")
    i = text.index("{", ms[0].end() - 1)
    depth = 0
    for j in range(i, len(text)):
        if text[j] == "{":
            depth += 1
        elif text[j] == "}":
            depth -= 1
            if depth == 0:
                return text[i + 1:j]
    die(f"{what}: unbalanced braces")


def fn_body(impl, name, ret, what, optional=False):
    ms = list(re.finditer(r"fn\s+" + name + r"\s*\(\s*&self\s*\)\s*->\s*" + ret + r"\s*\{", impl))
    if not ms:
        if optional:
            return None
        die(f"{what}: fn {name} not found")
    if len(ms) != 1:
        die(f"{what}: fn {name} found {len(ms)} times")
    return block_after(impl, r"fn\s+" + name + r"\s*\(\s*&self\s*\)\s*->\s*" + ret + r"\s*\{", what + "::" + name)


def split_top(s, sep):
    """split at separator characters that are outside (), {} and []"""
    parts, depth, cur = [], 0, []
    i = 0
    while i < len(s):
        c = s[i]
        if c in "({[":
            depth += 1
        elif c in ")}]":
            depth -= 1
        if depth == 0 and s.startswith(sep, i):
            parts.append("".join(cur))
            cur = []
            i += len(sep)
            continue
        cur.append(c)
        i += 1
    parts.append("".join(cur))
    return parts


def match_arms(body, what):
    """`match self.0 { pat => val, ... }` -> [(pattern text, value text)]"""
    m = re.fullmatch(r"\s*match\s+self\.0\s*\{(.*)\}\s*", body, re.S)
    if not m:
        die(f"{what}: body is not a single `match self.0 {{..}}`")
    arms = []
    for arm in split_top(m.group(1), ","):
        if not arm.strip():
            continue
        pv = split_top(arm, "=>")
        if len(pv) != 2:
            die(f"{what}: cannot split arm `{arm.strip()}`")
        arms.append((re.sub(r"\s+", "", pv[0]), pv[1].strip()))
    if not arms:
        die(f"{what}: no arms")
    return arms


IKINDS = ["KNumPos", "KNumNonPos", "KIFun", "KIVar", "KNeg", "KMul", "KAdd", "KSub"]
FKINDS = ["KAtomic", "KNot", "KQuant", "KAnd", "KOr", "KImp", "KRimp", "KIff"]
BINOPS = {"BinaryOperator::Multiply": "KMul", "BinaryOperator::Add": "KAdd", "BinaryOperator::Subtract": "KSub"}
CONNS = {"BinaryConnective::Conjunction": "KAnd", "BinaryConnective::Disjunction": "KOr",
         "BinaryConnective::Implication": "KImp", "BinaryConnective::ReverseImplication": "KRimp",
         "BinaryConnective::Equivalence": "KIff"}


def iterm_pattern(p, what):
    if p == "_":
        return list(IKINDS)
    simple = {"IntegerTerm::Numeral(1..)": ["KNumPos"], "IntegerTerm::Numeral(_)": ["KNumPos", "KNumNonPos"],
              "IntegerTerm::FunctionConstant(_)": ["KIFun"], "IntegerTerm::Variable(_)": ["KIVar"],
              "IntegerTerm::UnaryOperation{..}": ["KNeg"],
              "IntegerTerm::UnaryOperation{op:UnaryOperator::Negative,..}": ["KNeg"],
              "IntegerTerm::BinaryOperation{..}": ["KMul", "KAdd", "KSub"]}
    if p in simple:
        return simple[p]
    m = re.fullmatch(r"IntegerTerm::BinaryOperation\{op:([A-Za-z:|]+),\.\.\}", p)
    if m:
        out = []
        for o in m.group(1).split("|"):
            if o not in BINOPS:
                die(f"{what}: unknown binary operator `{o}`")
            out.append(BINOPS[o])
        return out
    die(f"{what}: unrecognised IntegerTerm pattern `{p}`")


def formula_pattern(p, what):
    if p == "_":
        return list(FKINDS)
    simple = {"Formula::AtomicFormula(_)": ["KAtomic"], "Formula::UnaryFormula{..}": ["KNot"],
              "Formula::QuantifiedFormula{..}": ["KQuant"],
              "Formula::BinaryFormula{..}": ["KAnd", "KOr", "KImp", "KRimp", "KIff"]}
    if p in simple:
        return simple[p]
    m = re.fullmatch(r"Formula::BinaryFormula\{connective:([A-Za-z:|]+),\.\.\}", p)
    if m:
        out = []
        for o in m.group(1).split("|"):
            if o not in CONNS:
                die(f"{what}: unknown connective `{o}`")
            out.append(CONNS[o])
        return out
    die(f"{what}: unrecognised Formula pattern `{p}`")


def table_from_arms(arms, kinds, pat_fn, val_fn, what):
    """first-match semantics; every kind must be covered"""
    tab = {}
    for pat, val in arms:
        v = val_fn(val, what)
        for alt in split_top(pat, "|"):
            for k in pat_fn(alt, what):
                tab.setdefault(k, v)
    missing = [k for k in kinds if k not in tab]
    if missing:
        die(f"{what}: kinds not covered by any arm: {missing}")
    return tab


def val_nat(v, what):
    if not re.fullmatch(r"[0-9]+", v):
        die(f"{what}: precedence value `{v}` is not a literal")
    return int(v)


def val_assoc(v, what):
    v = re.sub(r"\s+", "", v)
    if v == "Associativity::Left":
        return "Some ALeft"
    if v == "Associativity::Right":
        return "Some ARight"
    if v == "unreachable!()":
        return "None"
    die(f"{what}: associativity value `{v}` not recognised")


def assoc_table(body, kinds, pat_fn, what):
    flat = re.sub(r"\s+", "", body)
    if flat in ("Associativity::Left", "Associativity::Right"):
        v = val_assoc(flat, what)
        return {k: v for k in kinds}
    return table_from_arms(match_arms(body, what), kinds, pat_fn, val_assoc, what)


def mandatory_table(body, kinds, pat_fn, what):
    if body is None:
        return {k: False for k in kinds}, "default method of trait Precedence (not overridden)"
    flat = re.sub(r"\s+", "", body)
    if flat in ("false", "true"):
        return {k: flat == "true" for k in kinds}, "constant"
    m = re.fullmatch(r"matches!\(self\.0,(.*?),?\)", flat)
    if not m:
        die(f"{what}: body is neither a constant nor `matches!(self.0, PATTERN)`")
    tab = {k: False for k in kinds}
    for alt in split_top(m.group(1), "|"):
        for k in pat_fn(alt, what):
            tab[k] = True
    return tab, "matches!"


def default_method_is_false(mod_rs):
    """formatting/mod.rs: the default body of Precedence::mandatory_parentheses"""
    t = strip_comments(mod_rs)
    m = re.search(r"fn\s+mandatory_parentheses\s*\(\s*&self\s*\)\s*->\s*bool\s*\{\s*(\w+)\s*\}", t)
    if not m or m.group(1) != "false":
        die("formatting/mod.rs: default mandatory_parentheses() is not `false`")


FMT_UNARY = """fn fmt_unary(&self, inner: impl Precedence, f: &mut Formatter<'_>) -> fmt::Result {
if self.associativity() == Associativity::Left { self.fmt_operator(f)?; }
if inner.mandatory_parentheses() || self.precedence() < inner.precedence() { write!(f, "({inner})")?; } else { write!(f, "{inner}")?; }
if self.associativity() == Associativity::Right { self.fmt_operator(f)?; }
Ok(()) }"""
FMT_BINARY = """fn fmt_binary( &self, lhs: impl Precedence, rhs: impl Precedence, f: &mut Formatter<'_>, ) -> fmt::Result {
if lhs.mandatory_parentheses() || self.precedence() < lhs.precedence() || self.precedence() == lhs.precedence() && lhs.associativity() == Associativity::Right { write!(f, "({lhs})")?; } else { write!(f, "{lhs}")?; }
self.fmt_operator(f)?;
if rhs.mandatory_parentheses() || self.precedence() < rhs.precedence() || self.precedence() == rhs.precedence() && self.associativity() == Associativity::Left { write!(f, "({rhs})") } else { write!(f, "{rhs}") } }"""


def squash(s):
    return re.sub(r"\s+", "", s)


def check_fmt_functions(mod_rs):
    """fmt_unary / fmt_binary are transcribed by hand in Model/FolPrint.v; pin their text"""
    t = squash(strip_comments(mod_rs))
    for name, ref in (("fmt_unary", FMT_UNARY), ("fmt_binary", FMT_BINARY)):
        if squash(ref) not in t:
            die(f"formatting/mod.rs: {name} differs from the text transcribed in Model/FolPrint.v")


def pratt_chain(src, name):
    body = block_after(src, r"pub\s+static\s+ref\s+" + name + r"\s*:\s*PrattParser<Rule>\s*=\s*\{", f"pest.rs: {name}")
    uses = re.findall(r"use\s+([^;]+);", body)
    if [squash(u) for u in uses] != ["pest::pratt_parser::{Assoc::*,Op}", "Rule::*"]:
        die(f"pest.rs: {name}: unexpected `use` items {uses}")
    m2 = re.search(r"PrattParser::new\(\)(.*)$", body.strip(), re.S)
    if not m2:
        die(f"pest.rs: {name}: no PrattParser::new() chain")
    chain = squash(m2.group(1))
    levels = []
    pos = 0
    while pos < len(chain):
        if not chain.startswith(".op(", pos):
            die(f"pest.rs: {name}: unexpected text in the chain at `{chain[pos:pos + 40]}`")
        depth, j = 0, pos + 3
        while True:
            if chain[j] == "(":
                depth += 1
            elif chain[j] == ")":
                depth -= 1
                if depth == 0:
                    break
            j += 1
        inner = chain[pos + 4:j]
        ops = []
        for o in inner.split("|"):
            mi = re.fullmatch(r"Op::infix\((\w+),(Left|Right)\)", o)
            mp = re.fullmatch(r"Op::prefix\((\w+)\)", o)
            if mi:
                ops.append((mi.group(1), "AInfix A" + mi.group(2)))
            elif mp:
                ops.append((mp.group(1), "APrefix"))
            else:
                die(f"pest.rs: {name}: unrecognised operator `{o}`")
        levels.append(ops)
        pos = j + 1
    return levels


def pest_constants():
    lock = read(os.path.join(REPO, "Cargo.lock"))
    m = re.search(r'name = "pest"\nversion = "([0-9.]+)"', lock)
    if not m:
        die("Cargo.lock: pest version not found")
    ver = m.group(1)
    home = os.environ.get("CARGO_HOME", os.path.expanduser("~/.cargo"))
    cands = glob.glob(os.path.join(home, "registry", "src", "*", f"pest-{ver}", "src", "pratt_parser.rs"))
    if len(cands) != 1:
        die(f"pest-{ver}/src/pratt_parser.rs: found {len(cands)} copies")
    t = strip_comments(read(cands[0]))
    m = re.search(r"const\s+PREC_STEP\s*:\s*Prec\s*=\s*([0-9]+)\s*;", t)
    if not m:
        die("pratt_parser.rs: PREC_STEP not found")
    step = int(m.group(1))
    flat = squash(t)
    need = [
        ("new(): prec starts at PREC_STEP", "Self{prec:PREC_STEP,ops:BTreeMap::new(),"),
        ("op(): increment before insert", "pubfnop(mutself,op:Op<R>)->Self{self.prec+=PREC_STEP;"),
        ("op(): insert at self.prec", "self.ops.insert(rule,(affix,self.prec));"),
        ("parse(): expr at rbp 0", "self.expr(&mutpairs.peekable(),0)"),
        ("expr(): while rbp < lbp", "letmutlhs=self.nud(pairs);whilerbp<self.lbp(pairs){lhs=self.led(pairs,lhs);}lhs"),
        ("nud(): prefix operand at prec-1", "Some((Affix::Prefix,prec))=>{letrhs=self.expr(pairs,*prec-1);"),
        ("led(): infix operands", "Assoc::Left=>self.expr(pairs,*prec),Assoc::Right=>self.expr(pairs,*prec-1),"),
        ("lbp(): 0 at end of input", "None=>0,"),
    ]
    for what, frag in need:
        if frag not in flat:
            die(f"pratt_parser.rs (pest {ver}): expected code not found: {what}")
    return ver, step, cands[0]


TRULES = ["add", "subtract", "multiply", "negative"]
FRULES = ["equivalence", "implication", "reverse_implication", "disjunction", "conjunction", "negation", "quantification"]


def coq_rule(r):
    return "R" + "".join(w.capitalize() for w in r.split("_"))


def emit_fun(name, argty, retty, kinds, tab, fmt):
    lines = [f"Definition {name} (k : {argty}) : {retty} :=", "  match k with"]
    for k in kinds:
        lines.append(f"  | {k} => {fmt(tab[k])}")
    lines.append("  end.")
    return "\n".join(lines)


def emit_pratt(name, rty, rules, levels, step):
    tab = {}
    for i, ops in enumerate(levels):
        for rule, affix in ops:
            if rule not in rules:
                die(f"pest.rs: {name}: rule `{rule}` is not an operator rule known to the model")
            if rule in tab:
                die(f"pest.rs: {name}: rule `{rule}` registered twice")
            tab[rule] = (affix, step * (i + 2))
    lines = [f"Definition {name} (r : {rty}) : option (affix * nat) :=", "  match r with"]
    for r in rules:
        if r in tab:
            lines.append(f"  | {coq_rule(r)} => Some ({tab[r][0]}, {tab[r][1]})")
        else:
            lines.append(f"  | {coq_rule(r)} => None")
    lines.append("  end.")
    return "\n".join(lines)


def generate():
    fmt_path = os.path.join(REPO, "src", "formatting", "fol", "sigma_0", "default.rs")
    mod_path = os.path.join(REPO, "src", "formatting", "mod.rs")
    pest_path = os.path.join(REPO, "src", "parsing", "fol", "sigma_0", "pest.rs")
    fmt = strip_comments(read(fmt_path))
    # the test module has no impl Precedence; cut it off anyway
    fmt = fmt.split("#[cfg(test)]")[0]
    mod_rs = read(mod_path)
    default_method_is_false(mod_rs)
    check_fmt_functions(mod_rs)

    out = {}
    for ty, kinds, pat_fn, tag in (("IntegerTerm", IKINDS, iterm_pattern, "iterm"), ("Formula", FKINDS, formula_pattern, "formula")):
        what = f"default.rs: impl Precedence for Format<'_, {ty}>"
        impl = block_after(fmt, r"impl\s+Precedence\s+for\s+Format<'_,\s*" + ty + r">\s*\{", what)
        prec = table_from_arms(match_arms(fn_body(impl, "precedence", "usize", what), what + "::precedence"),
                               kinds, pat_fn, val_nat, what + "::precedence")
        assoc = assoc_table(fn_body(impl, "associativity", "Associativity", what), kinds, pat_fn, what + "::associativity")
        mand, how = mandatory_table(fn_body(impl, "mandatory_parentheses", "bool", what, optional=True), kinds, pat_fn,
                                    what + "::mandatory_parentheses")
        out[tag] = (prec, assoc, mand, how)

    pest = strip_comments(read(pest_path)).split("#[cfg(test)]")[0]
    term_levels = pratt_chain(pest, "TERM_PRATT_PARSER")
    formula_levels = pratt_chain(pest, "FORMULA_PRATT_PARSER")
    ver, step, pest_src = pest_constants()

    b = lambda x: "true" if x else "false"
    parts = [
        "(* GENERATED by tools/tables_fol2coq.py - do not edit; regenerated before every build.",
        "   Sources: src/formatting/fol/sigma_0/default.rs (Precedence impls of Format<IntegerTerm> and",
        "   Format<Formula>), src/formatting/mod.rs (fmt_unary/fmt_binary pinned, default mandatory_parentheses),",
        f"   src/parsing/fol/sigma_0/pest.rs (TERM_PRATT_PARSER, FORMULA_PRATT_PARSER), pest {ver} pratt_parser.rs",
        f"   (PREC_STEP = {step}; the i-th .op() call gets precedence PREC_STEP * (i + 2)). *)",
        "From Coq Require Import List.",
        "Import ListNotations.",
        "",
        "Inductive assoc := ALeft | ARight.",
        "Inductive affix := APrefix | AInfix (a : assoc).",
        "(* node kinds distinguished by the match arms of the formatter *)",
        "Inductive ikind := " + " | ".join(IKINDS) + ".",
        "Inductive fkind := " + " | ".join(FKINDS) + ".",
        "(* operator rules of the grammar that may be registered in a PrattParser *)",
        "Inductive trule := " + " | ".join(coq_rule(r) for r in TRULES) + ".",
        "Inductive frule := " + " | ".join(coq_rule(r) for r in FRULES) + ".",
        "",
        "(* ---- Format<IntegerTerm> ---- *)",
        emit_fun("fmt_iterm_prec", "ikind", "nat", IKINDS, out["iterm"][0], str),
        "(* None = unreachable!() *)",
        emit_fun("fmt_iterm_assoc", "ikind", "option assoc", IKINDS, out["iterm"][1], str),
        f"(* mandatory_parentheses: {out['iterm'][3]} *)",
        emit_fun("fmt_iterm_mandatory", "ikind", "bool", IKINDS, out["iterm"][2], b),
        "",
        "(* ---- Format<Formula> ---- *)",
        emit_fun("fmt_formula_prec", "fkind", "nat", FKINDS, out["formula"][0], str),
        "(* None = unreachable!() *)",
        emit_fun("fmt_formula_assoc", "fkind", "option assoc", FKINDS, out["formula"][1], str),
        f"(* mandatory_parentheses: {out['formula'][3]} *)",
        emit_fun("fmt_formula_mandatory", "fkind", "bool", FKINDS, out["formula"][2], b),
        "",
        "(* ---- pest PrattParser tables: rule -> (affix, precedence); None = not an operator ---- *)",
        emit_pratt("term_pratt", "trule", TRULES, term_levels, step),
        emit_pratt("formula_pratt", "frule", FRULES, formula_levels, step),
        "",
    ]
    return "\n".join(parts)


def main():
    try:
        text = generate()
    except Strict as e:
        print(f"tables_fol2coq: {e}", file=sys.stderr)
        sys.exit(1)
    if "--check" in sys.argv:
        sys.stdout.write(text)
        return
    os.makedirs(os.path.dirname(OUT), exist_ok=True)
    if not os.path.exists(OUT) or open(OUT).read() != text:
        with open(OUT, "w") as f:
            f.write(text)
        print(f"tables_fol2coq: wrote {os.path.relpath(OUT, VERIF)}")


if __name__ == "__main__":
    main()
