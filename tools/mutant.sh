#!/bin/bash
# usage: tools/mutant.sh <check-id> <name> <perl -0pe expression> <file relative to repo>  (developer helper)
# applies one mutation to a scratch worktree of the repository under test (MUTANT_REPO, default
# /work/cli-repo; create it with `git -C /repo worktree add /work/cli-repo HEAD`), runs the check with
# ANTHEM_REPO pointing at it, restores the tree.
set -u
ID=$1; NAME=$2; EXPR=$3; FILE=$4
R=${MUTANT_REPO:-/work/cli-repo}
V=$(cd "$(dirname "$0")/.." && pwd)
cd $R && git checkout -q -- . && perl -0pi -e "$EXPR" "$FILE"
if git diff --quiet; then echo "MUTANT $NAME: sed changed nothing"; exit 2; fi
cd $V && ANTHEM_REPO=$R timeout 1500 bin/check $ID > /tmp/mutant-$ID-$NAME.log 2>&1
echo "MUTANT $NAME: exit $? ; $(grep -c VIOLATION /tmp/mutant-$ID-$NAME.log) violation lines"
grep -E "^\[check\] [a-z].*|VIOLATION" /tmp/mutant-$ID-$NAME.log | grep -v "building\|re-checked\|correspondence .* 0 disagreements" | tail -6
cd $R && git checkout -q -- .
