#!/usr/bin/env python3
"""Mutation trials for C06/C09/C12 (docs/C06.md, C09.md, C12.md record the results).
usage: tools/mutants_tptp.py <scratch worktree of /repo> [mutant-id ...]
Each mutant is a textual edit of the scratch tree; the check of its property is run with
ANTHEM_REPO=<scratch>; expected: exit status 1 and a VIOLATION line.  The tree is restored after
each trial."""
import os
import subprocess
import sys
import time

VERIF = os.path.dirname(os.path.dirname(os.path.abspath(__file__)))

TPTP = "src/formatting/fol/sigma_0/tptp.rs"
PROBLEM = "src/verifying/problem/mod.rs"
PREAMBLE = "src/verifying/problem/standard_interpretation.p"
STRONG = "src/verifying/task/strong_equivalence.rs"

MUTANTS = [
    ("C06", "m1-no-parens-around-unary", TPTP,
     "Formula::UnaryFormula { .. } | Formula::BinaryFormula { .. } => true,",
     "Formula::UnaryFormula { .. } => false,\n            Formula::BinaryFormula { .. } => true,"),
    ("C06", "m2-less-lesseq-swapped", TPTP,
     'Relation::LessEqual => "$lesseq",\n            Relation::Greater => "$greater",\n            Relation::Less => "$less",',
     'Relation::LessEqual => "$less",\n            Relation::Greater => "$greater",\n            Relation::Less => "$lesseq",'),
    ("C06", "m3-general-symbol-on-integers", TPTP,
     '''                    _ => write!(
                        f,
                        "{}({}, {})",
                        Format(relation).repr_integer(),''',
     '''                    _ => write!(
                        f,
                        "{}({}, {})",
                        Format(relation).repr_general(),'''),
    ("C06", "m4-revert-a074988", TPTP,
     "Formula::AtomicFormula(AtomicFormula::Comparison(c)) => c.guards.len() > 1,",
     "Formula::AtomicFormula(AtomicFormula::Comparison(_)) => false,"),
    ("C12", "m5-less-defined-with-or", PREAMBLE,
     "(p__less__(X1, X2) <=> (p__less_equal__(X1, X2) & (X1 != X2)))",
     "(p__less__(X1, X2) <=> (p__less_equal__(X1, X2) | (X1 != X2)))"),
    ("C12", "m6-greater-def-without-neq", PREAMBLE,
     "(p__greater__(X1, X2) <=> (p__less_equal__(X2, X1) & (X1 != X2)))",
     "(p__greater__(X1, X2) <=> p__less_equal__(X2, X1))"),
    ("C12", "m7-chain-from-unsorted-symbols", PROBLEM,
     "        symbols.sort_unstable();\n", ""),
    ("C12", "m8-transition-tp-implies-hp", STRONG,
     "                lhs: hp.into(),\n                rhs: tp.into(),",
     "                lhs: tp.into(),\n                rhs: hp.into(),"),
    ("C09", "m9-skip-rename-conflicting-symbols", PROBLEM,
     ".map(|f| f.rename_conflicting_symbols(&propositional_predicates))",
     ".map(|f| { let _: &IndexSet<Predicate> = &propositional_predicates; f })"),
    ("C09", "m10-skip-create-unique-formula-names", PROBLEM,
     '''                name: format!("formula_{i}_{}", f.name),''',
     '''                name: { let _ = i; f.name },'''),
    ("C09", "m11-declare-arity-plus-one", PROBLEM,
     'Itertools::intersperse(repeat_n("general", predicate.arity), " * ").collect();',
     'Itertools::intersperse(repeat_n("general", predicate.arity + 1), " * ").collect();'),
]


def main():
    scratch = os.path.abspath(sys.argv[1])
    only = set(sys.argv[2:])
    results = []
    for prop, mid, path, old, new in MUTANTS:
        if only and mid not in only and prop not in only:
            continue
        full = os.path.join(scratch, path)
        text = open(full).read()
        if text.count(old) != 1:
            print(f"{mid}: pattern found {text.count(old)} times in {path}; SKIPPED", flush=True)
            results.append((prop, mid, "pattern-not-found", "", 0))
            continue
        open(full, "w").write(text.replace(old, new))
        t0 = time.time()
        try:
            p = subprocess.run([os.path.join(VERIF, "bin", "check"), prop], cwd=VERIF,
                               env={**os.environ, "ANTHEM_REPO": scratch}, stdout=subprocess.PIPE,
                               stderr=subprocess.STDOUT, text=True, timeout=3000)
            out, rc = p.stdout, p.returncode
        finally:
            open(full, "w").write(text)
        viol = [l for l in out.split("\n") if l.startswith("VIOLATION")]
        what = [l for l in out.split("\n") if l.startswith("[check]") and ("semantic check" in l or "differs" in l or "no longer" in l or "false in" in l or "BROKEN" in l)]
        print(f"=== {prop} {mid}: exit {rc}, {time.time()-t0:.0f}s", flush=True)
        for l in (what[:3] + viol[:2]):
            print("   ", l, flush=True)
        results.append((prop, mid, rc, (viol or ["-"])[0], time.time() - t0))
    print("\nSUMMARY")
    for prop, mid, rc, v, t in results:
        print(f"{prop} {mid}: exit={rc} {v}")


if __name__ == "__main__":
    main()
