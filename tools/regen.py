#!/usr/bin/env python3
"""Regenerating translators (DESIGN.md §3.2), run by every build before `make`
(bin/vlib.py pre_build_hooks).  Exit status != 0 = a source of /repo could not be translated."""
import os
import subprocess
import sys

here = os.path.dirname(os.path.abspath(__file__))
rc = subprocess.call([sys.executable, os.path.join(here, "preamble2coq.py")])
if rc != 0:
    sys.exit(rc)
# the generated file must be part of the project
subprocess.check_call([sys.executable, os.path.join(here, "gen_coqproject.py")])
