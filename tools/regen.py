#!/usr/bin/env python3
"""Regenerating translators (DESIGN.md §3.2): runs every tools/*2coq.py script it finds (each one
rewrites its coq/theories/Gen/*.v from the sources under $ANTHEM_REPO and exits non-zero when a
source has a shape it does not recognise).  Run by bin/vlib.py before every Coq build."""
import glob
import os
import subprocess
import sys

here = os.path.dirname(os.path.abspath(__file__))
rc = 0
for script in sorted(glob.glob(os.path.join(here, "*2coq.py"))):
    p = subprocess.run([sys.executable, script])
    if p.returncode != 0:
        print(f"regen: {os.path.basename(script)} failed (exit {p.returncode})", file=sys.stderr)
        rc = 1
sys.exit(rc)
