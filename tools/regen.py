#!/usr/bin/env python3
"""Runs every regenerating translator tools/*2coq.py (DESIGN.md §3.2) before the Coq build
(bin/vlib.py pre_build_hooks).  Each translator reads /repo sources ($ANTHEM_REPO) and rewrites its
coq/theories/Gen/*.v only when the content changes.  Any translator failing = non-zero exit."""
import glob
import os
import subprocess
import sys

here = os.path.dirname(os.path.abspath(__file__))
rc = 0
for script in sorted(glob.glob(os.path.join(here, "*2coq.py"))):
    p = subprocess.run([sys.executable, script])
    if p.returncode != 0:
        print(f"regen: {os.path.basename(script)} failed (exit {p.returncode})", file=sys.stderr)
        rc = 1
sys.exit(rc)
