#!/bin/bash
# tools/run_all_checks.sh [--tier quick|thorough] [id ...]: run the registered checks one after another
# (default: every id of MANIFEST.json), one summary line each; exit 1 if any check did.
cd "$(dirname "$0")/.."
tier=(); if [ "${1:-}" = "--tier" ]; then tier=(--tier "$2"); shift 2; fi
nargs=$#; ids=("$@"); [ ${#ids[@]} -eq 0 ] && ids=($(python3 -c "import json;print(' '.join(c['property_id'] if 'property_id' in c else c['id'] for c in json.load(open('MANIFEST.json'))['checks']))" 2>/dev/null))
[ ${#ids[@]} -eq 0 ] && ids=(C01 C02 C03 C04 C05 C06 C07 C08 C09 C10 C11 C12 C13 C14 C15 C16 C17 C18 C19 C20 CLI)
# CLI (the command-line glue, props/CLI.json) is a check but not one of the 20 properties of MANIFEST.json
[ $nargs -eq 0 ] && [ -f props/CLI.json ] && [[ ! " ${ids[*]} " =~ " CLI " ]] && ids+=(CLI)
bad=0
for c in "${ids[@]}"; do
  s=$(date +%s); out=$(bin/check "$c" "${tier[@]}" 2>&1); rc=$?
  mkdir -p work/logs; echo "$out" > "work/logs/$c.seed${VERIF_SEED:-default}.log"   # the full output of the check
  echo "$c exit=$rc $(( $(date +%s)-s ))s $(echo "$out" | grep -c '^KNOWN-FINDING') known $(echo "$out" | grep -m1 '^VIOLATION')"
  [ $rc = 0 ] || bad=1
done
exit $bad
