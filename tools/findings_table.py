#!/usr/bin/env python3
"""tools/findings_table.py: print the two tables of DESIGN.md §10.4 (repaired / recorded) from known_findings.jsonl,
the authoritative list.  `--write` replaces the text between the markers <!-- findings:begin --> / <!-- findings:end -->."""
import json, os, sys, re
V = os.path.join(os.path.dirname(os.path.abspath(__file__)), "..")
rows_fixed, rows_known = [], []
for l in open(os.path.join(V, "known_findings.jsonl")):
    l = l.strip()
    if not l:
        continue
    e = json.loads(l)
    def cell(s, n=420):
        s = re.sub(r"\s+", " ", str(s)).replace("|", "\\|")
        return s if len(s) <= n else s[:n] + " …"
    if e.get("status") == "fixed":
        what = e.get("line", "")
        what = re.sub(r"^fixed: property=\S+ \S+ ", "", what)
        rows_fixed.append(f"| {e['id']} | {e['property']} | `{e.get('commit','')}` | {cell(what)} |")
    else:
        rows_known.append(f"| {e['id']} | {e['property']}{' ('+e['part']+')' if e.get('part') else ''} | {cell(e.get('what',''))} |")
out = []
out.append(f"**Repaired in /repo** ({len(rows_fixed)}; one minimal `fix:` commit each; the 141 pinned tests pass unedited; the model follows the repaired code, the theorem is stated without the exclusion, the witness stays in `corpus/` or as a `regression` replay; a `fixed` entry suppresses nothing):\n")
out.append("| id | property | commit | what failed |\n|---|---|---|---|")
out += rows_fixed
out.append(f"\n**Recorded as known** ({len(rows_known)}; replayed on every run by their recorded input, printed as `KNOWN-FINDING`; the Coq side has a witness `Example` and the theorem excludes exactly the decidable class; any other violation is still reported):\n")
out.append("| id | property | what fails |\n|---|---|---|")
out += rows_known
text = "\n".join(out)
if "--write" in sys.argv:
    p = os.path.join(V, "DESIGN.md")
    s = open(p).read()
    a, b = "<!-- findings:begin -->", "<!-- findings:end -->"
    if a in s and b in s:
        s = s[:s.index(a) + len(a)] + "\n" + text + "\n" + s[s.index(b):]
        open(p, "w").write(s)
        print("DESIGN.md updated")
    else:
        print("markers missing", file=sys.stderr); sys.exit(1)
else:
    print(text)
