#!/usr/bin/env python3
"""Rule-firing statistics of the C07 (classic half) generators.
usage: tools/c07cls_stats.py [seed] [count]
Prints, for every op, how often the implementation's output differs from its input, split by the
shape of the input where that is informative."""
import os
import subprocess
import sys

ROOT = os.path.dirname(os.path.dirname(os.path.abspath(__file__)))
H = os.path.join(ROOT, "harness", "target", "debug", "harness")
RULES = ["remove_double_negation", "substitute_defined_variables", "restrict_quantifier_domain",
         "extend_quantifier_scope", "simplify_transitive_equality"]


def gen(op, seed, n):
    return subprocess.run([H, "gen", op, str(seed), str(n)], capture_output=True, text=True, check=True).stdout.splitlines()


def run(lines):
    p = subprocess.run([H, "run"], input="\n".join(lines) + "\n", capture_output=True, text=True, check=True)
    return p.stdout.splitlines()


def pct(a, b):
    return f"{a}/{b} = {100.0 * a / max(1, b):.1f}%"


def main():
    seed = int(sys.argv[1]) if len(sys.argv) > 1 else 1
    n = int(sys.argv[2]) if len(sys.argv) > 2 else 20000
    for r in RULES:
        op = "sc_" + r
        lines = gen(op, seed, n)
        ins = [l.split("\t", 1)[1] for l in lines]
        outs = run(lines)
        fired = [i for i in range(len(ins)) if outs[i] != ins[i]]
        print(f"{op}: fires on {pct(len(fired), len(ins))}; panics {sum(o.startswith('(panic') for o in outs)}")
        if r == "restrict_quantifier_domain":
            ex = [i for i in fired if ins[i].startswith("(exists")]
            fa = [i for i in fired if ins[i].startswith("(forall")]
            print(f"    exists-case {len(ex)}, forall-case {len(fa)}")
        if r == "extend_quantifier_scope":
            for c in ("and", "or"):
                k = [i for i in fired if ins[i].startswith("(" + c + " ")]
                print(f"    {c}: {len(k)}; result forall {sum(outs[i].startswith('(forall') for i in k)}, exists {sum(outs[i].startswith('(exists') for i in k)}")
    lines = gen("simplify_cls", seed, n)
    ins = [l.split("\t", 1)[1] for l in lines]
    outs = run(lines)
    for s in ("shallow", "recursive", "fixpoint"):
        idx = [i for i in range(len(ins)) if ins[i].startswith("(" + s + " ")]
        ch = [i for i in idx if outs[i] != ins[i]]
        nt = [i for i in idx if outs[i].startswith("(nonterminating")]
        print(f"simplify_cls {s}: changed {pct(len(ch), len(idx))}; nonterminating {len(nt)}; panics {sum(outs[i].startswith('(panic') for i in idx)}")
    # which rule has a redex at the root of the strategy formulas
    forms = [x[x.index(" ") + 1:-1] for x in ins]
    for r in RULES:
        o = run([f"sc_{r}\t{f}" for f in forms])
        print(f"    root redex of {r}: {pct(sum(o[i] != forms[i] for i in range(len(forms))), len(forms))}")
    lines = gen("sem_simplify_full_classic", seed, n)
    ch = nt = pn = 0
    for l in lines:
        arg = l.split("\t", 1)[1]
        # ((strategy F) (strategy G)) | ((strategy F) (nonterminating)) | ((strategy F) (panic))
        if arg.endswith("(nonterminating))"):
            nt += 1
        elif arg.endswith("(panic))"):
            pn += 1
        else:
            half = (len(arg) - 3) // 2
            if arg[1:1 + half + 1].strip() != arg[1 + half + 1:-1].strip():
                ch += 1
    print(f"full classic portfolio (INTUITIONISTIC ++ HT ++ CLASSIC): changed {pct(ch, len(lines))}; nonterminating {nt}; panics {pn}")


if __name__ == "__main__":
    main()
