#!/usr/bin/env python3
"""tools/status_table.py: regenerate the per-property status table of DESIGN.md §10.3 from what the checks
themselves recorded: evidence/<id>.json (theorems with their Print Assumptions output, case counts, known
findings reproduced) and props/<id>.json (parts, correspondence and semantic ops).  Prints markdown."""
import json, os, sys
V = os.path.join(os.path.dirname(os.path.abspath(__file__)), "..")
def load(p):
    return json.load(open(os.path.join(V, p)))
def parts(cfg):
    if "parts" in cfg:
        out = []
        for p in cfg["parts"]:
            out += parts(load(f"props/{p}.json"))
        return out
    return [cfg]
man = load("MANIFEST.json")
rows = []
for chk in man["checks"]:
    pid = chk["property_id"]
    cfg = load(f"props/{pid}.json")
    try:
        ev = load(f"evidence/{pid}.json")
    except Exception:
        ev = {}
    cov = ev.get("coverage", {})
    ths = cov.get("samples", []) if isinstance(cov.get("samples"), list) else []
    names, axioms = [], set()
    for t in ths:
        if isinstance(t, dict) and "theorem" in t:
            for a in t.get("axioms", []):
                axioms.add(a.split(":")[0].strip())
    names = [t for t in cov.get("theorems", []) if isinstance(t, str)]
    for tb in cov.get("trusted_base", []):
        if isinstance(tb, str) and "Classical_Prop.classic" in tb:
            axioms.add("Classical_Prop.classic")
    ps = parts(cfg)
    corr = []; sem = []
    for p in ps:
        corr += [c["op"] for c in p.get("corr", [])]
        sem += [s["op"] for s in p.get("sem", [])]
    def uniq(l):
        o = []
        for x in l:
            if x not in o: o.append(x)
        return o
    corr, sem = uniq(corr), uniq(sem)
    kf = cov.get("known_findings_reproduced", [])
    shown = f"{len(names)}: " + ", ".join(f"`{n}`" for n in names[:40]) + (", …" if len(names) > 40 else "")
    rows.append((pid, chk["level_claimed"]["category"],
                 shown, ", ".join(sorted(axioms)) or "none",
                 f"{cov.get('correspondence_cases', 0)} corr ({', '.join('`'+c+'`' for c in corr[:8])}{', …' if len(corr) > 8 else ''}); "
                 f"{cov.get('semantic_cases', 0)} sem ({', '.join('`'+s+'`' for s in sem[:6])}{', …' if len(sem) > 6 else ''})",
                 str(len(kf)), f"{ev.get('wall_s', '?')}"))
print("| id | level | parts | theorems checked on every run (Print Assumptions parsed) | axioms | cases per quick run | known findings reproduced | wall s |")
print("|---|---|---|---|---|---|---|---|")
for r in rows:
    print("| " + " | ".join(r) + " |")
