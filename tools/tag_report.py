#!/usr/bin/env python3
"""tools/tag_report.py [--n N] [--seed S] [part ...]: for every corr entry of props/<part>.json generate N cases
(default: min(quick, 3000)) with the seed the check would use, run the implementation, and print the counts of the
entry's tags / in_tags / out_tags / @features; `ZERO` marks a count of 0, `MUST` a must_hit name.
Used to decide which tags can be advertised (must_hit) and to fill docs/GENERATORS.md."""
import argparse, glob, json, os, sys
sys.path.insert(0, os.path.join(os.path.dirname(os.path.abspath(__file__)), "..", "bin"))
import vlib

ap = argparse.ArgumentParser()
ap.add_argument("--n", type=int, default=0)
ap.add_argument("--seed", type=int, default=1)
ap.add_argument("--all-features", action="store_true", help="list every feature the harness reports, not only the named ones")
ap.add_argument("parts", nargs="*")
args = ap.parse_args()
parts = args.parts or sorted(os.path.basename(p)[:-5] for p in glob.glob(os.path.join(vlib.VERIF, "props", "*.json")))
for part in parts:
    cfg = json.load(open(os.path.join(vlib.VERIF, "props", part + ".json")))
    vlib.PART = cfg.get("part_id", cfg.get("id", part))
    for spec in cfg.get("corr", []):
        op = spec["op"]
        n = args.n or min(spec.get("quick", 1000), 3000)
        lines = vlib.corpus_lines([op]) + vlib.generate(op, args.seed, n)
        inputs = [l.split("\t", 1)[1] for l in lines]
        impl = vlib.run_lines(vlib.HARNESS_EXE, lines, env=spec.get("env"))
        tags = spec.get("tags", [])
        must = spec.get("must_hit", [])
        h = vlib.tag_histogram(inputs, tags)
        feats = vlib.feature_histogram(op, inputs, impl, [t for t in tags + must if t.startswith("@")] + (["@"] if args.all_features else []))
        if not args.all_features:
            feats = {k: v for k, v in feats.items() if k in tags or k in must}
        feats.pop("@", None)
        h.update(feats)
        for k, v in vlib.substring_histogram(inputs, spec.get("in_tags", [])).items():
            h["in:" + k] = v
        for k, v in vlib.substring_histogram(impl, spec.get("out_tags", [])).items():
            h["out:" + k] = v
        top = {}
        for i in inputs:
            top[i] = top.get(i, 0) + 1
        t, c = max(top.items(), key=lambda kv: kv[1])
        print(f"{part}/{op}: {len(lines)} cases; most frequent input {100.0 * c / len(lines):.1f}% {t[:40]!r}")
        for k, v in h.items():
            m = " MUST" if (k in must or k.split(":", 1)[-1] in must) else ""
            z = " ZERO" if v == 0 else ""
            print(f"    {k}: {v}{m}{z}")
