#!/usr/bin/env python3
"""Regenerating translator (DESIGN.md §3.2) for the operator tables of property C14.

Reads, from the anthem working tree ($ANTHEM_REPO, default /repo):
  * src/formatting/asp/mini_gringo/default.rs : `impl Precedence for Format<'_, Term>`:
      the match arms of precedence() / associativity() / mandatory_parentheses()
      (mandatory_parentheses falls back to the trait default in src/formatting/mod.rs);
  * src/parsing/asp/mini_gringo/pest.rs       : the `.op(...)` chain of PRATT_PARSER;
and writes coq/theories/Gen/TablesAsp.v (association lists over Model/AspTableTypes.v).

Regex-level and deliberately strict: any shape that is not recognised is an error (exit 2), which
the check reports as a broken tie.  The file is rewritten only when its content changes.
"""
import os
import re
import sys

V = os.path.dirname(os.path.dirname(os.path.abspath(__file__)))
REPO = os.environ.get("ANTHEM_REPO", "/repo")
OUT = os.path.join(V, "coq", "theories", "Gen", "TablesAsp.v")


class Unrecognised(Exception):
    pass


def strip_comments(src):
    src = re.sub(r"/\*.*?\*/", "", src, flags=re.S)
    return re.sub(r"//[^\n]*", "", src)


def block_after(src, start):
    """src[start] must be '{'; returns the text between it and its matching '}'."""
    assert src[start] == "{"
    depth = 0
    for i in range(start, len(src)):
        if src[i] == "{":
            depth += 1
        elif src[i] == "}":
            depth -= 1
            if depth == 0:
                return src[start + 1:i]
    raise Unrecognised("unbalanced braces")


def impl_block(src, header_re, what):
    ms = list(re.finditer(header_re, src))
    if len(ms) != 1:
        raise Unrecognised(f"{what}: expected exactly one `{header_re}`, found {len(ms)}")
    return block_after(src, ms[0].end() - 1)


def fn_body(block, name, ret):
    ms = list(re.finditer(r"fn\s+" + name + r"\s*\(\s*&self\s*\)\s*->\s*" + ret + r"\s*\{", block))
    if not ms:
        return None
    if len(ms) != 1:
        raise Unrecognised(f"fn {name}: found {len(ms)} definitions")
    return block_after(block, ms[0].end() - 1)


def split_top(s, sep):
    parts, depth, cur = [], 0, ""
    for ch in s:
        if ch in "({[":
            depth += 1
        elif ch in ")}]":
            depth -= 1
        if ch == sep and depth == 0:
            parts.append(cur)
            cur = ""
        else:
            cur += ch
    parts.append(cur)
    return parts


UNOPS = {"Negative": "AUNeg"}
BINOPS = {"Add": "AAdd", "Subtract": "ASub", "Multiply": "AMul", "Divide": "ADiv", "Modulo": "AMod",
          "Interval": "AInterval"}


def pattern(p):
    """One alternative of a match-arm pattern (whitespace removed) -> list of Coq tpat terms."""
    m = re.fullmatch(r"Term::PrecomputedTerm\(PrecomputedTerm::Numeral\((-?\d+)\.\.\)\)", p)
    if m:
        return [f"PatNumeralFrom ({m.group(1)})%Z"]
    if p == "Term::PrecomputedTerm(_)":
        return ["PatPrecomputedAny"]
    if p == "Term::Variable(_)":
        return ["PatVariableAny"]
    if p == "_":
        return ["PatAny"]
    m = re.fullmatch(r"Term::UnaryOperation\{(?:op:([A-Za-z:|]+),)?\.\.\}", p)
    if m:
        ops = m.group(1)
        names = list(UNOPS) if ops is None else [x for x in ops.split("|")]
        out = []
        for n in names:
            if ops is not None:
                if not n.startswith("UnaryOperator::"):
                    raise Unrecognised(f"operator `{n}` in pattern `{p}`")
                n = n[len("UnaryOperator::"):]
            if n not in UNOPS:
                raise Unrecognised(f"unary operator `{n}` in pattern `{p}`")
            out.append(f"PatUnary {UNOPS[n]}")
        return out
    m = re.fullmatch(r"Term::BinaryOperation\{(?:op:([A-Za-z:|]+),)?\.\.\}", p)
    if m:
        ops = m.group(1)
        names = list(BINOPS) if ops is None else [x for x in ops.split("|")]
        out = []
        for n in names:
            if ops is not None:
                if not n.startswith("BinaryOperator::"):
                    raise Unrecognised(f"operator `{n}` in pattern `{p}`")
                n = n[len("BinaryOperator::"):]
            if n not in BINOPS:
                raise Unrecognised(f"binary operator `{n}` in pattern `{p}`")
            out.append(f"PatBinary {BINOPS[n]}")
        return out
    raise Unrecognised(f"match-arm pattern `{p}`")


def arms(body, value, what):
    """Function body -> ordered list of (tpat, value) Coq terms.  `value` maps a Rust value token."""
    b = re.sub(r"\s+", "", body)
    m = re.fullmatch(r"matchself\.0\{(.*)\}", b)
    if not m:
        # a body that is a single value
        return [("PatAny", value(b, what))]
    rest = m.group(1)
    out = []
    while rest:
        m = re.match(r"(.+?)=>([A-Za-z0-9_:]+)(?:,|$)", rest)
        if not m:
            raise Unrecognised(f"{what}: match arm `{rest[:80]}`")
        v = value(m.group(2), what)
        for alt in split_top(m.group(1), "|"):
            for p in pattern(alt):
                out.append((p, v))
        rest = rest[m.end():]
    if not out:
        raise Unrecognised(f"{what}: no match arm")
    return out


def v_nat(tok, what):
    if not re.fullmatch(r"\d+", tok):
        raise Unrecognised(f"{what}: value `{tok}` is not an unsigned literal")
    return str(int(tok))


def v_assoc(tok, what):
    if tok == "Associativity::Left":
        return "ALeft"
    if tok == "Associativity::Right":
        return "ARight"
    raise Unrecognised(f"{what}: value `{tok}`")


def v_bool(tok, what):
    if tok in ("true", "false"):
        return tok
    raise Unrecognised(f"{what}: value `{tok}`")


RULES = {"negative": "RNegative", "add": "RAdd", "subtract": "RSubtract", "multiply": "RMultiply",
         "divide": "RDivide", "modulo": "RModulo", "interval": "RInterval"}


def pratt_levels(src):
    s = re.sub(r"\s+", "", strip_comments(src))
    ms = list(re.finditer(r"pubstaticrefPRATT_PARSER:PrattParser<Rule>=\{", s))
    if len(ms) != 1:
        raise Unrecognised(f"PRATT_PARSER: expected one definition, found {len(ms)}")
    body = block_after(s, ms[0].end() - 1)
    m = re.fullmatch(r"usepest::pratt_parser::\{Assoc::\*,Op\};useRule::\*;PrattParser::new\(\)(.*)", body)
    if not m:
        raise Unrecognised("PRATT_PARSER: body is not `use ..; use Rule::*; PrattParser::new()...`")
    chain = m.group(1)
    levels = []
    while chain:
        if not chain.startswith(".op("):
            raise Unrecognised(f"PRATT_PARSER: expected `.op(` at `{chain[:60]}`")
        depth, end = 0, None
        for i in range(3, len(chain)):
            if chain[i] == "(":
                depth += 1
            elif chain[i] == ")":
                depth -= 1
                if depth == 0:
                    end = i
                    break
        if end is None:
            raise Unrecognised("PRATT_PARSER: unbalanced parentheses")
        inner = chain[4:end]
        lvl = []
        for alt in split_top(inner, "|"):
            m = re.fullmatch(r"Op::infix\(([a-z_]+),(Left|Right)\)", alt)
            if m:
                rule, aff = m.group(1), "Infix " + ("ALeft" if m.group(2) == "Left" else "ARight")
            else:
                m = re.fullmatch(r"Op::(prefix|postfix)\(([a-z_]+)\)", alt)
                if not m:
                    raise Unrecognised(f"PRATT_PARSER: operator `{alt}`")
                rule, aff = m.group(2), m.group(1).capitalize()
            if rule not in RULES:
                raise Unrecognised(f"PRATT_PARSER: grammar rule `{rule}` is not a term operator")
            lvl.append(f"({RULES[rule]}, {aff})")
        levels.append(lvl)
        chain = chain[end + 1:]
    if not levels:
        raise Unrecognised("PRATT_PARSER: empty operator chain")
    return levels


def generate():
    fmt = strip_comments(open(os.path.join(REPO, "src/formatting/asp/mini_gringo/default.rs")).read())
    trait = strip_comments(open(os.path.join(REPO, "src/formatting/mod.rs")).read())
    pest = open(os.path.join(REPO, "src/parsing/asp/mini_gringo/pest.rs")).read()

    blk = impl_block(fmt, r"impl\s+Precedence\s+for\s+Format<'_,\s*Term>\s*\{", "default.rs")
    body = fn_body(blk, "precedence", "usize")
    if body is None:
        raise Unrecognised("default.rs: Format<Term>::precedence not found")
    prec = arms(body, v_nat, "precedence")
    body = fn_body(blk, "associativity", "Associativity")
    if body is None:
        raise Unrecognised("default.rs: Format<Term>::associativity not found")
    assoc = arms(body, v_assoc, "associativity")
    body = fn_body(blk, "mandatory_parentheses", "bool")
    origin = "default.rs"
    if body is None:
        tblk = impl_block(trait, r"pub\s+trait\s+Precedence\s*:\s*Display\s*\{", "formatting/mod.rs")
        body = fn_body(tblk, "mandatory_parentheses", "bool")
        origin = "trait default in formatting/mod.rs"
        if body is None:
            raise Unrecognised("formatting/mod.rs: default mandatory_parentheses not found")
    mand = arms(body, v_bool, "mandatory_parentheses")

    # the generic printing algorithm itself is transcribed by hand (Model/AspPrint.v); make sure the
    # functions the transcription follows are still there in the shape it assumes
    tblk = impl_block(trait, r"pub\s+trait\s+Precedence\s*:\s*Display\s*\{", "formatting/mod.rs")
    t = re.sub(r"\s+", "", tblk)
    for needle in (
        "ifinner.mandatory_parentheses()||self.precedence()<inner.precedence(){",
        "iflhs.mandatory_parentheses()||self.precedence()<lhs.precedence()"
        "||self.precedence()==lhs.precedence()&&lhs.associativity()==Associativity::Right{",
        "ifrhs.mandatory_parentheses()||self.precedence()<rhs.precedence()"
        "||self.precedence()==rhs.precedence()&&self.associativity()==Associativity::Left{",
    ):
        if needle not in t:
            raise Unrecognised("formatting/mod.rs: fmt_unary/fmt_binary parenthesisation test changed: " + needle[:70])

    levels = pratt_levels(pest)

    def lst(items, per_line=1):
        return "[ " + ";\n    ".join(items) + " ]"

    out = []
    out.append("(* GENERATED by tools/tables_asp2coq.py -- do not edit.  Regenerated before every build from\n"
               "   src/formatting/asp/mini_gringo/default.rs (impl Precedence for Format<'_, Term>),\n"
               "   src/formatting/mod.rs (trait defaults) and src/parsing/asp/mini_gringo/pest.rs (PRATT_PARSER). *)\n")
    out.append("From Coq Require Import List ZArith.\nFrom Anthem Require Import Syntax.Asp Model.AspTableTypes.\nImport ListNotations.\n")
    out.append("(* Format<Term>::precedence(): match arms in source order *)\n"
               "Definition asp_fmt_precedence : list (tpat * nat) :=\n  " + lst([f"({p}, {v})" for p, v in prec]) + ".\n")
    out.append("(* Format<Term>::associativity() *)\n"
               "Definition asp_fmt_associativity : list (tpat * assoc) :=\n  " + lst([f"({p}, {v})" for p, v in assoc]) + ".\n")
    out.append(f"(* Format<Term>::mandatory_parentheses()  [{origin}] *)\n"
               "Definition asp_fmt_mandatory_parentheses : list (tpat * bool) :=\n  " + lst([f"({p}, {v})" for p, v in mand]) + ".\n")
    out.append("(* PRATT_PARSER: the .op(...) chain in source order *)\n"
               "Definition asp_pratt_levels : list (list (oprule * affix)) :=\n  "
               + lst(["[" + "; ".join(l) + "]" for l in levels]) + ".\n")
    return "\n".join(out)


def main():
    try:
        text = generate()
    except Unrecognised as e:
        print(f"tables_asp2coq: UNRECOGNISED SOURCE SHAPE: {e}", file=sys.stderr)
        sys.exit(2)
    except OSError as e:
        print(f"tables_asp2coq: cannot read source: {e}", file=sys.stderr)
        sys.exit(2)
    os.makedirs(os.path.dirname(OUT), exist_ok=True)
    if not os.path.exists(OUT) or open(OUT).read() != text:
        with open(OUT, "w") as f:
            f.write(text)
        print(f"tables_asp2coq: wrote {os.path.relpath(OUT, V)}")


if __name__ == "__main__":
    main()
