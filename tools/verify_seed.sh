#!/bin/bash
# tools/verify_seed.sh <worktree-with-seed_out> : confirm a seeded change independently:
#  patch applies, builds, existing tests still pass (only the known ui failure), demo fails with the
#  change and passes without it.  Prints a summary; exit 0 iff all confirmed.
set -u
W="$1"; cd "$W" || exit 2
export CARGO_NET_OFFLINE=true
P=seed_out/patch.diff
ok=1
say() { echo "[verify_seed] $*"; }
git checkout -q -- . 2>/dev/null; rm -f tests/zz_demo_test.rs
git apply --check "$P" || { say "patch does not apply"; exit 1; }
git apply "$P"
cargo build --offline >/dev/null 2>&1 || { say "BUILD FAILS with patch"; exit 1; }
say "build ok"
T=$(cargo test --offline --no-fail-fast 2>&1)
fails=$(echo "$T" | grep -E "^test [^ ]+ \.\.\. FAILED" | grep -v "translate::tau_star::translate_examples" | wc -l)
passed=$(echo "$T" | grep -E "^test result" | head -1)
say "tests with patch: $passed ; unexpected failures: $fails"
[ "$fails" = 0 ] || ok=0
run_demo() {
  if [ -f seed_out/demo.sh ]; then
    ( bash seed_out/demo.sh >/tmp/seed_demo_$$.out 2>&1 ); rc=$?
  elif [ -f seed_out/demo_test.rs ]; then
    cp seed_out/demo_test.rs tests/zz_demo_test.rs
    ( cargo test --offline --test zz_demo_test >/tmp/seed_demo_$$.out 2>&1 ); rc=$?
    rm -f tests/zz_demo_test.rs
  else
    rc=99
  fi
  tail -3 /tmp/seed_demo_$$.out | sed 's/^/    /'; rm -f /tmp/seed_demo_$$.out
  return $rc
}
run_demo; with=$?
say "demo WITH patch exit=$with (expected non-zero)"
[ "$with" != 0 ] && [ "$with" != 99 ] || ok=0
git apply -R "$P"; cargo build --offline >/dev/null 2>&1
run_demo; without=$?
say "demo WITHOUT patch exit=$without (expected 0)"
[ "$without" = 0 ] || ok=0
git apply "$P"; cargo build --offline >/dev/null 2>&1
[ $ok = 1 ] && say "CONFIRMED" || say "NOT CONFIRMED"
[ $ok = 1 ]
