#!/usr/bin/env python3
"""Regenerates MANIFEST.json from props/*.json (claimed) and tools/manifest_meta.json."""
import json, os, glob
V = os.path.dirname(os.path.dirname(os.path.abspath(__file__)))
meta = json.load(open(os.path.join(V, "tools", "manifest_meta.json")))
props = [json.loads(l) for l in open(os.path.join(V, "properties.jsonl"))]
claimed = {os.path.basename(p)[:-5] for p in glob.glob(os.path.join(V, "props", "C*.json"))}
checks = []
na = []
for p in props:
    pid = p["id"]
    cfgp = os.path.join(V, "props", pid + ".json")
    cfg = json.load(open(cfgp)) if os.path.exists(cfgp) else {}
    if pid in claimed and "manifest" in cfg:
        m = cfg["manifest"]
        checks.append({
            "property_id": pid,
            "quick_cmd": f"bin/check {pid} --tier quick",
            "thorough_cmd": f"bin/check {pid} --tier thorough",
            "evidence_file": f"evidence/{pid}.json",
            "replay_cmd_template": f"bin/check {pid} --replay {{path}}",
            "engine": "coq-model+correspondence",
            "level_claimed": {"category": m.get("category", "proof"), "text": m["text"], "design_ref": m.get("design_ref", "DESIGN.md §5 " + pid)},
            "level_note": m["note"],
            "technique": m["technique"],
        })
    else:
        na.append({"property_id": pid, "reason": meta["not_applicable"].get(pid, "check not built yet in this revision (planned: Coq model + theorem, DESIGN.md §5)")})
man = {
    "version": 1,
    "setup_cmd": "bin/setup",
    "hooks": meta["hooks"],
    "engines": meta["engines"],
    "checks": checks,
    "notes": meta["notes"],
    "not_applicable": na,
}
json.dump(man, open(os.path.join(V, "MANIFEST.json"), "w"), indent=1)
print("claimed:", [c["property_id"] for c in checks])
