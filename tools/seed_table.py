#!/usr/bin/env python3
"""Prints the markdown table of seeded changes: property, what it does / needs, last detection."""
import json, os, glob
V = os.path.dirname(os.path.dirname(os.path.abspath(__file__)))
rows = []
for d in sorted(glob.glob(os.path.join(V, "seeded", "*"))):
    sid = os.path.basename(d)
    try:
        m = json.load(open(os.path.join(d, "meta.json")))
    except Exception:
        m = {}
    summ = (m.get("summary") or "").replace("\n", " ").replace("|", "/")[:170]
    need = (m.get("needs_to_manifest") or "").replace("\n", " ").replace("|", "/")[:150]
    det = "not run"
    p = os.path.join(d, "detection.log")
    if os.path.exists(p):
        last = [l for l in open(p) if l.strip()][-1]
        if "VIOLATION" in last:
            det = "caught" + (" (no failing input)" if "no-failing-input-found" in last else " with failing input")
        else:
            det = "MISSED (exit 0)"
        det += " by " + last.split("check=")[1].split()[0]
    rows.append(f"| {sid} | {summ} | {need} | {det} |")
print("| seed | change | needs | result of the latest run |\n|---|---|---|---|")
print("\n".join(rows))
