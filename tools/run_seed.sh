#!/bin/bash
# tools/run_seed.sh <seed-id> <check-id>... : apply seeded/<seed-id>/patch.diff to a scratch worktree
# of /repo (outside /repo and /verif), run the given checks against it (ANTHEM_REPO), record the
# outcome in seeded/<seed-id>/detection.log, and remove the worktree with its build output.
# VERIF_SEED_BASE=<commit of /repo> applies the patch to that commit instead of HEAD.
set -u
S="$1"; shift
V="$(cd "$(dirname "$0")/.." && pwd)"
W="/var/tmp/verif-seed-$S-$$"
git -C /repo worktree add -q --detach "$W" "${VERIF_SEED_BASE:-HEAD}" || exit 2
trap 'git -C /repo worktree remove --force "$W" >/dev/null 2>&1; rm -rf "$W"' EXIT
git -C "$W" apply "$V/seeded/$S/patch.diff" || { echo "patch does not apply"; exit 2; }
for C in "$@"; do
  out=$(cd "$V" && ANTHEM_REPO="$W" VERIF_EVIDENCE_DIR="$V/work/seed-evidence" VERIF_REPLAY_DIR="$V/work/seed-replay" bin/check "$C" 2>&1); rc=$?
  line=$(echo "$out" | grep -m1 "^VIOLATION" || true)
  echo "$(date -u +%FT%TZ) seed=$S check=$C exit=$rc ${line:-no-violation-line}" | tee -a "$V/seeded/$S/detection.log"
done
# leave the harness pointing at /repo again
(cd "$V" && python3 -c "import sys; sys.path.insert(0,'bin'); import vlib; vlib.build_harness()" >/dev/null 2>&1)
