#!/bin/bash
# tools/run_all_seeds.sh [seed-id ...]: run every seeded change (default: all) against the check of its
# property; results are appended to seeded/<id>/detection.log and summarised on stdout.
cd "$(dirname "$0")/.."
ids=("$@"); [ ${#ids[@]} -eq 0 ] && ids=($(ls seeded))
for s in "${ids[@]}"; do
  c=${s%%_*}
  tools/run_seed.sh "$s" "$c" 2>&1 | tail -1 | cut -c1-200
done
