import subprocess, json, re, tempfile, sys
path=sys.argv[1]
def get(stage): return json.loads(subprocess.run(f"git show :{stage}:{path}",shell=True,capture_output=True,text=True).stdout)
b,h,t=get(1),get(2),get(3)
def split(s): return re.sub(r'([.;:,]) ', r'\1\n', s)
def merge3(bb,hh,tt):
    d=tempfile.mkdtemp()
    for n,x in (("b",bb),("h",hh),("t",tt)): open(f"{d}/{n}","w").write(split(x)+"\n")
    r=subprocess.run(["git","merge-file","-p",f"{d}/h",f"{d}/b",f"{d}/t"],capture_output=True,text=True)
    return r.returncode, r.stdout.rstrip("\n").replace("\n"," ")
def mergeval(bv,hv,tv,name):
    if hv==tv: return hv
    if hv==bv: return tv
    if tv==bv: return hv
    if isinstance(hv,str) and isinstance(tv,str):
        rc,e=merge3(bv if isinstance(bv,str) else "",hv,tv); print(name,"rc",rc)
        if rc: print(e[:1500])
        return e
    if isinstance(hv,dict) and isinstance(tv,dict):
        out={}
        for k in list(hv.keys())+[k for k in tv if k not in hv]:
            out[k]=mergeval((bv or {}).get(k) if isinstance(bv,dict) else None, hv.get(k,tv.get(k)), tv.get(k,hv.get(k)), name+"."+k)
        return out
    if isinstance(hv,list) and isinstance(tv,list):
        out=list(hv)
        for x in tv:
            if x not in out and (not isinstance(bv,list) or x not in bv): out.append(x)
        print(name,"list union")
        return out
    print(name,"CONFLICT kept ours"); return hv
json.dump(mergeval(b,h,t,path),open(path,"w"),indent=1)
