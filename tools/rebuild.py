#!/usr/bin/env python3
"""Developer helper: rebuild the model driver and the harness (prints the build error if any)."""
import sys, os
sys.path.insert(0, os.path.join(os.path.dirname(os.path.dirname(os.path.abspath(__file__))), "bin"))
import vlib
try:
    vlib.build_driver(); vlib.build_harness()
except vlib.Broken as b:
    print(b.what); print(b.detail); sys.exit(1)
