#!/bin/bash
# tools/merge_branch.sh <branch> <message>: merge a builder branch; standard resolution of the shared files:
# MANIFEST.json regenerated, evidence/* taken from the branch (regenerated later), known_findings.jsonl and
# detection logs and corpus union-merged, DESIGN.md union-merged (check rows afterwards).  Other conflicts are listed.
cd "$(dirname "$0")/.."
B="$1"; M="$2"
git merge --no-ff --no-commit "$B" >/tmp/merge_$B.log 2>&1
U=$(git diff --name-only --diff-filter=U)
left=""
for f in $U; do
  case "$f" in
    MANIFEST.json) git checkout --theirs "$f"; git add "$f";;
    evidence/*) git checkout --theirs "$f" 2>/dev/null || git rm -q --cached "$f"; git add "$f" 2>/dev/null;;
    known_findings.jsonl|seeded/*/detection.log|corpus/*|DESIGN.md)
       git show :1:"$f" > /tmp/mb_base 2>/dev/null || : > /tmp/mb_base
       git show :2:"$f" > /tmp/mb_ours; git show :3:"$f" > /tmp/mb_theirs
       git merge-file --union -p /tmp/mb_ours /tmp/mb_base /tmp/mb_theirs > "$f"; git add "$f";;
    *) left="$left $f";;
  esac
done
echo "merged $B; unresolved:$left"
[ -z "$left" ] && { python3 tools/mkmanifest.py >/dev/null; git add -A; git commit -qm "$M"; echo committed; }
