/* Stand-in for the `vampire` executable (C10 runtime tie, see props/C10.py and docs/C10.md).
 *
 * Environment:
 *   FAKE_VAMPIRE_DIR   per-run directory.  Contains `plan` (text, one line per planned problem):
 *                          <fnv64-hex of the problem text> <delay_ms> <mode> <exit_code> x<stdout hex> x<stderr hex>
 *                      mode: exit   = write the outputs, exit with <exit_code>
 *                            kill   = write the outputs, then die by SIGKILL
 *                      and receives, for every invocation, two files in `got/`:
 *                          <id>.in    the bytes read from stdin
 *                          <id>.args  argv[1..], one per line
 *   FAKE_VAMPIRE_DEFAULT=theorem   problems that are not in the plan are answered `SZS status Theorem`
 *                      after (hash mod 60) ms instead of `SZS status Error for unplanned`.
 *   FAKE_VAMPIRE_NOREAD=1   exit(1) at once without reading stdin or writing anything but a marker.
 *
 * A problem that is not in the plan is answered with `SZS status Error for unplanned` and recorded
 * all the same, so that a problem text that differs from the --save-problems file is noticed.
 */
#include <errno.h>
#include <fcntl.h>
#include <signal.h>
#include <stdint.h>
#include <stdio.h>
#include <stdlib.h>
#include <string.h>
#include <sys/stat.h>
#include <time.h>
#include <unistd.h>

static unsigned char *read_all(int fd, size_t *len) {
    size_t cap = 1 << 16, n = 0;
    unsigned char *buf = malloc(cap);
    for (;;) {
        if (n == cap) { cap *= 2; buf = realloc(buf, cap); }
        ssize_t r = read(fd, buf + n, cap - n);
        if (r < 0) { if (errno == EINTR) continue; break; }
        if (r == 0) break;
        n += (size_t)r;
    }
    *len = n;
    return buf;
}

static void write_all(int fd, const unsigned char *p, size_t n) {
    while (n > 0) {
        ssize_t w = write(fd, p, n);
        if (w < 0) { if (errno == EINTR) continue; return; }
        p += w; n -= (size_t)w;
    }
}

static uint64_t fnv64(const unsigned char *p, size_t n) {
    uint64_t h = 0xcbf29ce484222325ULL;
    for (size_t i = 0; i < n; i++) { h ^= p[i]; h *= 0x100000001b3ULL; }
    return h;
}

static size_t unhex(const char *s, unsigned char *out) {
    size_t n = 0;
    if (*s == 'x') s++;
    while (s[0] && s[1]) {
        unsigned v; sscanf(s, "%2x", &v); out[n++] = (unsigned char)v; s += 2;
    }
    return n;
}

static void put_file(const char *dir, const char *id, const char *ext, const unsigned char *p, size_t n) {
    char tmp[4096], fin[4096];
    snprintf(tmp, sizeof tmp, "%s/got/.%s.%s.tmp", dir, id, ext);
    snprintf(fin, sizeof fin, "%s/got/%s.%s", dir, id, ext);
    int fd = open(tmp, O_WRONLY | O_CREAT | O_TRUNC, 0644);
    if (fd < 0) return;
    write_all(fd, p, n);
    close(fd);
    rename(tmp, fin);
}

int main(int argc, char **argv) {
    const char *dir = getenv("FAKE_VAMPIRE_DIR");
    if (!dir) { fprintf(stderr, "fake vampire: FAKE_VAMPIRE_DIR not set\n"); return 2; }
    char id[128];
    struct timespec ts; clock_gettime(CLOCK_REALTIME, &ts);
    snprintf(id, sizeof id, "%ld_%ld%09ld", (long)getpid(), (long)ts.tv_sec, (long)ts.tv_nsec);
    char path[4096];
    snprintf(path, sizeof path, "%s/got", dir);
    mkdir(path, 0755);

    /* arguments */
    {
        char args[8192]; size_t k = 0;
        for (int i = 1; i < argc && k + strlen(argv[i]) + 2 < sizeof args; i++) {
            k += (size_t)sprintf(args + k, "%s\n", argv[i]);
        }
        put_file(dir, id, "args", (unsigned char *)args, k);
    }
    if (getenv("FAKE_VAMPIRE_NOREAD")) {
        put_file(dir, id, "noread", (const unsigned char *)"", 0);
        return 1;
    }

    size_t len; unsigned char *in = read_all(0, &len);
    put_file(dir, id, "in", in, len);
    uint64_t h = fnv64(in, len);
    char hex[32]; snprintf(hex, sizeof hex, "%016llx", (unsigned long long)h);

    /* plan lookup */
    snprintf(path, sizeof path, "%s/plan", dir);
    FILE *f = fopen(path, "r");
    long delay = 0; int code = 0; char mode[16] = "exit";
    unsigned char *out = NULL, *err = NULL; size_t nout = 0, nerr = 0; int found = 0;
    if (f) {
        size_t cap = 1 << 20; char *line = malloc(cap);
        while (fgets(line, (int)cap, f)) {
            if (strncmp(line, hex, 16) == 0 && line[16] == ' ') {
                char *so = malloc(cap), *se = malloc(cap);
                so[0] = se[0] = 0;
                if (sscanf(line + 17, "%ld %15s %d %s %s", &delay, mode, &code, so, se) >= 3) {
                    out = malloc(strlen(so) / 2 + 1); nout = unhex(so, out);
                    err = malloc(strlen(se) / 2 + 1); nerr = unhex(se, err);
                    found = 1;
                }
                break;
            }
        }
        fclose(f);
    }
    if (!found) {
        const char *dflt = getenv("FAKE_VAMPIRE_DEFAULT");
        const char *msg = "% SZS status Error for unplanned\n";
        if (dflt && strcmp(dflt, "theorem") == 0) {
            /* every problem is a theorem, after a delay that depends on the problem text */
            msg = "% SZS status Theorem for any\n";
            delay = (long)(h % 60);
        }
        out = (unsigned char *)msg; nout = strlen(msg);
    }
    if (delay > 0) {
        struct timespec d = { delay / 1000, (delay % 1000) * 1000000L };
        nanosleep(&d, NULL);
    }
    write_all(1, out, nout);
    write_all(2, err, nerr);
    if (strcmp(mode, "kill") == 0) kill(getpid(), SIGKILL);
    return code;
}
