"""C18 (first half), classic portfolio: the real fixpoint loop over INTUITIONISTIC ++ HT ++ CLASSIC
must return, and along the run of the REAL code the termination measure of Model/ClsTerm.v
(theorem C18_measure_cls) must decrease lexicographically from pass to pass.

The harness replays `Apply::apply_fixpoint` pass by pass (bound: 400 extra passes, 200 000 nodes)
and prints `(passes n G (trace (size mu gen qn scope def) ..))`; `(nonterminating n)` is a
violation with the input as the failing input; so is a trace that does not decrease (the theorem
is about the model: a non-decreasing trace of the implementation means model and code differ in a
way that matters for termination).  `(apply-fixpoint-differs n G)` - the replay converged after n passes but the real
`Formula::apply_fixpoint`, run afterwards on the same input, returned G - is a violation with the input
as the failing input (the semantic op `sem_classic_passes` additionally shows that G is not a fixpoint).
`(toolarge n)` is not a violation (the result of substituting a
chain of definitions is exponentially large; the loop still terminates) but it is counted.
The hook fills the evidence: histogram of pass counts, maximum growth factor (largest intermediate
size / input size, terms included), maximum of passes / (mu + 1), and how often each component of
the tuple decided a step."""
import re

COMPONENTS = ["mu", "m_gen", "m_qn", "m_scope", "m_def"]


def parse_trace(out):
    tr = out[out.rindex("(trace"):]
    return [tuple(int(x) for x in e.split()) for e in re.findall(r"\(([0-9 ]+)\)", tr)]


def extra(ctx, cfg, results):
    for op, (lines, impl, model) in results.items():
        if op not in ("classic_passes", "classic_only_passes"):
            continue
        inputs = [l.split("\t", 1)[1] for l in lines]
        passes = {}
        decided = {c: 0 for c in COMPONENTS}
        bad_nt, bad_trace, toolarge, panics = [], [], 0, 0
        bad_fix = []
        max_growth = (0.0, None)
        max_ratio = (0.0, None)
        max_passes = (0, None)
        for i, o in enumerate(impl):
            if o.startswith("(nonterminating"):
                bad_nt.append(i)
                continue
            if o.startswith("(apply-fixpoint-differs"):
                bad_fix.append(i)
                continue
            if o.startswith("(toolarge"):
                toolarge += 1
                continue
            if o.startswith("(panic"):
                panics += 1
                continue
            if not o.startswith("(passes "):
                continue
            n = int(o.split(" ", 2)[1])
            passes[n] = passes.get(n, 0) + 1
            ents = parse_trace(o)
            if len(ents) != n:
                bad_trace.append(i)
                continue
            s0, mu0 = ents[0][0], ents[0][1]
            g = max(e[0] for e in ents) / max(1, s0)
            if g > max_growth[0]:
                max_growth = (g, inputs[i])
            r = n / (mu0 + 1)
            if r > max_ratio[0]:
                max_ratio = (r, inputs[i])
            if n > max_passes[0]:
                max_passes = (n, inputs[i])
            for a, b in zip(ents, ents[1:]):
                ta, tb = a[1:], b[1:]
                if not tb < ta:
                    bad_trace.append(i)
                    break
                k = next(j for j in range(5) if ta[j] != tb[j])
                decided[COMPONENTS[k]] += 1
        d = ctx.distribution.setdefault(op, {})
        d["passes_of_the_real_loop"] = {str(k): passes[k] for k in sorted(passes)}
        d["max_passes"] = {"passes": max_passes[0], "input": (max_passes[1] or "")[:400]}
        d["max_growth_factor"] = {"factor": round(max_growth[0], 2), "input": (max_growth[1] or "")[:400]}
        d["max_passes_over_mu_plus_1"] = {"ratio": round(max_ratio[0], 3), "input": (max_ratio[1] or "")[:400]}
        d["steps_decided_by_component"] = decided
        d["toolarge"] = toolarge
        d["panics"] = panics
        if bad_nt:
            i = min(bad_nt, key=lambda k: len(inputs[k]))
            ctx.violation(f"the fixpoint strategy with the classic portfolio does not terminate on an input of `{op}` (400 extra passes of the real Apply::apply still change the formula)",
                          {"kind": "correspondence", "op": op, "input": inputs[i], "implementation": impl[i], "model": model[i],
                           "nonterminating_cases": len(bad_nt)}, True)
        if bad_fix:
            # the replay converged after n passes, the real Formula::apply_fixpoint (called on the same
            # input afterwards) returned another formula: the loop of /repo is not the loop of the model
            i = min(bad_fix, key=lambda k: len(inputs[k]))
            ctx.violation(f"the real Apply::apply_fixpoint does not return the fixpoint that iterating the real Apply::apply reaches on an input of `{op}` "
                          "(its result is not simplified to a fixpoint: simplifying it again changes it)",
                          {"kind": "correspondence", "op": op, "input": inputs[i], "implementation": impl[i], "model": model[i],
                           "sem_op": "sem_" + op, "cases": len(bad_fix)}, True)
        d["apply_fixpoint_differs"] = len(bad_fix)
        if bad_trace:
            i = min(bad_trace, key=lambda k: len(inputs[k]))
            ctx.violation(f"the termination measure (mu, m_gen, m_qn, m_scope, m_def) does not decrease along the real run of `{op}`",
                          {"kind": "correspondence", "op": op, "input": inputs[i], "implementation": impl[i], "model": model[i],
                           "cases": len(bad_trace)}, True)
        if len(impl) >= 2000:
            for c in COMPONENTS:
                # m_qn is auxiliary (it makes m_scope a congruence); no rewrite of the portfolio
                # removes a quantifier node without decreasing mu, so it never decides a step
                if decided[c] == 0 and c != "m_qn":
                    ctx.notes.append(f"generator weakness ({op}): no step was decided by {c}")
            if max_passes[0] < 10:
                ctx.notes.append(f"generator weakness ({op}): no case needed 10 passes")
