"""C18 (first half), classic portfolio: the real fixpoint loop over INTUITIONISTIC ++ HT ++ CLASSIC
must return, and along the run of the REAL code the termination measure of Model/ClsTerm.v
(theorem C18_measure_cls) must decrease lexicographically from pass to pass.

The harness replays `Apply::apply_fixpoint` pass by pass (bound: 400 extra passes, 200 000 nodes)
and prints `(passes n G (trace (size mu gen qn scope def) ..))`; `(nonterminating n)` is a
violation with the input as the failing input; so is a trace that does not decrease (the theorem
is about the model: a non-decreasing trace of the implementation means model and code differ in a
way that matters for termination).  `(apply-fixpoint-differs n G)` - the replay converged after n passes but the real
`Formula::apply_fixpoint`, run afterwards on the same input, returned G - is a violation with the input
as the failing input (the semantic op `sem_classic_passes` additionally shows that G is not a fixpoint).
`(toolarge n)` is not a violation (the result of substituting a
chain of definitions is exponentially large; the loop still terminates) but it is counted.
The hook fills the evidence: histogram of pass counts, maximum growth factor (largest intermediate
size / input size, terms included), maximum of passes / (mu + 1), and how often each component of
the tuple decided a step."""
import os
import re
import sys

sys.path.insert(0, os.path.dirname(os.path.abspath(__file__)))
import clilib
import c16lib
from clilib import vlib, log

COMPONENTS = ["mu", "m_gen", "m_qn", "m_scope", "m_def"]


def parse_trace(out):
    tr = out[out.rindex("(trace"):]
    return [tuple(int(x) for x in e.split()) for e in re.findall(r"\(([0-9 ]+)\)", tr)]


def _twice(job):
    """`anthem simplify --portfolio P --strategy fixpoint` on a text, then on its own output"""
    exe, scratch, idx, portfolio, text = job
    f1 = clilib.write(os.path.join(scratch, f"t{idx}_{portfolio}.spec"), text)
    argv = [exe, "simplify", "--portfolio", portfolio, "--strategy", "fixpoint"]
    r1 = clilib.run(argv + [f1], timeout=60)
    if r1.timed_out or r1.rc != 0:
        return ("first", r1.rc, r1.out, b"", r1.timed_out)
    f2 = clilib.write(os.path.join(scratch, f"t{idx}_{portfolio}.once.spec"), r1.out)
    r2 = clilib.run(argv + [f2], timeout=60)
    os.remove(f1)
    os.remove(f2)
    return ("both", r2.rc, r1.out, r2.out, r2.timed_out)


def cli_idempotence(ctx):
    """The idempotence oracle of C18 on the REAL BINARY's outputs: `simplify --strategy fixpoint` applied to
    its own output must print it unchanged (the demo of the property).  Inputs: printed trees of the
    many-pass families (13 and more passes) and of the redex-rich theory generator (harness ops
    gen_text_deep / gen_text_theory).  A difference is a violation if the first output reads back as the
    tree it was printed from (otherwise the second run started from another tree: a printer / parser
    class of C15, counted as an artefact)."""
    thorough = ctx.tier == "thorough"
    exe = clilib.anthem_exe()
    texts = []
    for op, n in (("gen_text_deep", 1500 if thorough else 160), ("gen_text_theory", 6000 if thorough else 500)):
        for ln in vlib.generate(op, ctx.seed, n):
            texts.append((op, c16lib.sx_unstring(ln.split("\t", 1)[1])))
    jobs = []
    with clilib.Scratch("C18idem") as scratch:
        for i, (op, t) in enumerate(texts):
            for pf in (("classic", "ht") if op == "gen_text_deep" or i % 3 == 0 else ("classic",)):
                jobs.append((exe, scratch, i, pf, t))
        outs = clilib.pmap(_twice, jobs)
    dist = {"texts": len(texts), "runs": len(jobs), "first_run_rejected": 0, "idempotent": 0, "artefacts": 0, "changed_by_first_run": 0}
    suspects = []
    for job, (stage, rc, o1, o2, timed_out) in zip(jobs, outs):
        ctx.evaluations += 1
        if stage == "first":
            dist["first_run_rejected"] += 1      # crashes and hangs are C16's business
            continue
        if o1 != job[4]:
            dist["changed_by_first_run"] += 1
            ctx.nontrivial.add((job[3], job[4]))
        if rc == 0 and not timed_out and o1 == o2:
            dist["idempotent"] += 1
        else:
            suspects.append((job, rc, o1, o2))
    if suspects:
        rt = vlib.run_lines(vlib.HARNESS_EXE, ["text_theory_roundtrip\t" + c16lib.sx(o1) for _, _, o1, _ in suspects])
        bad = [(j, rc, o1, o2) for (j, rc, o1, o2), r in zip(suspects, rt) if r.startswith("(ok")]
        dist["artefacts"] = len(suspects) - len(bad)
        bad.sort(key=lambda b: len(b[0][4]))
        for (exe_, _, _, pf, text), rc, o1, o2 in bad[:1]:
            ctx.violation(f"`anthem simplify --portfolio {pf} --strategy fixpoint` does not return a fixpoint: simplifying its output again changes it",
                          {"kind": "custom-idem", "argv": ["simplify", "--portfolio", pf, "--strategy", "fixpoint"], "portfolio": pf,
                           "input_text": text.decode("utf8", "replace"), "simplified_once": o1.decode("utf8", "replace")[:3000],
                           "simplified_twice": o2.decode("utf8", "replace")[:3000], "second_run_exit": rc, "cases": len(bad)}, True)
    ctx.distribution["cli_fixpoint_idempotence"] = dist
    log(f"C18 idempotence of `simplify --strategy fixpoint` on the binary's own output: {dist}")


def replay(ctx, cfg, r):
    import json
    print(json.dumps(r, indent=1)[:5000])
    exe = clilib.anthem_exe()
    with clilib.Scratch("C18idem-replay") as scratch:
        stage, rc, o1, o2, timed_out = _twice((exe, scratch, 0, r["portfolio"], r["input_text"].encode()))
    print("simplified once: ", o1[:1500])
    print("simplified twice:", o2[:1500])
    if stage == "both" and (o1 != o2 or rc != 0):
        print(f"VIOLATION property={ctx.prop} replay=(re-run)")
        sys.exit(1)
    print("replay: the output is a fixpoint now")
    sys.exit(0)


def extra(ctx, cfg, results):
    cli_idempotence(ctx)
    for op, (lines, impl, model) in results.items():
        if op not in ("classic_passes", "classic_only_passes"):
            continue
        inputs = [l.split("\t", 1)[1] for l in lines]
        passes = {}
        decided = {c: 0 for c in COMPONENTS}
        bad_nt, bad_trace, toolarge, panics = [], [], 0, 0
        bad_fix = []
        max_growth = (0.0, None)
        max_ratio = (0.0, None)
        max_passes = (0, None)
        for i, o in enumerate(impl):
            if o.startswith("(nonterminating"):
                bad_nt.append(i)
                continue
            if o.startswith("(apply-fixpoint-differs"):
                bad_fix.append(i)
                continue
            if o.startswith("(toolarge"):
                toolarge += 1
                continue
            if o.startswith("(panic"):
                panics += 1
                continue
            if not o.startswith("(passes "):
                continue
            n = int(o.split(" ", 2)[1])
            passes[n] = passes.get(n, 0) + 1
            ents = parse_trace(o)
            if len(ents) != n:
                bad_trace.append(i)
                continue
            s0, mu0 = ents[0][0], ents[0][1]
            g = max(e[0] for e in ents) / max(1, s0)
            if g > max_growth[0]:
                max_growth = (g, inputs[i])
            r = n / (mu0 + 1)
            if r > max_ratio[0]:
                max_ratio = (r, inputs[i])
            if n > max_passes[0]:
                max_passes = (n, inputs[i])
            for a, b in zip(ents, ents[1:]):
                ta, tb = a[1:], b[1:]
                if not tb < ta:
                    bad_trace.append(i)
                    break
                k = next(j for j in range(5) if ta[j] != tb[j])
                decided[COMPONENTS[k]] += 1
        d = ctx.distribution.setdefault(op, {})
        d["passes_of_the_real_loop"] = {str(k): passes[k] for k in sorted(passes)}
        d["max_passes"] = {"passes": max_passes[0], "input": (max_passes[1] or "")[:400]}
        d["max_growth_factor"] = {"factor": round(max_growth[0], 2), "input": (max_growth[1] or "")[:400]}
        d["max_passes_over_mu_plus_1"] = {"ratio": round(max_ratio[0], 3), "input": (max_ratio[1] or "")[:400]}
        d["steps_decided_by_component"] = decided
        d["toolarge"] = toolarge
        d["panics"] = panics
        if bad_nt:
            i = min(bad_nt, key=lambda k: len(inputs[k]))
            ctx.violation(f"the fixpoint strategy with the classic portfolio does not terminate on an input of `{op}` (400 extra passes of the real Apply::apply still change the formula)",
                          {"kind": "correspondence", "op": op, "input": inputs[i], "implementation": impl[i], "model": model[i],
                           "nonterminating_cases": len(bad_nt)}, True)
        if bad_fix:
            # the replay converged after n passes, the real Formula::apply_fixpoint (called on the same
            # input afterwards) returned another formula: the loop of /repo is not the loop of the model
            i = min(bad_fix, key=lambda k: len(inputs[k]))
            ctx.violation(f"the real Apply::apply_fixpoint does not return the fixpoint that iterating the real Apply::apply reaches on an input of `{op}` "
                          "(its result is not simplified to a fixpoint: simplifying it again changes it)",
                          {"kind": "correspondence", "op": op, "input": inputs[i], "implementation": impl[i], "model": model[i],
                           "sem_op": "sem_" + op, "cases": len(bad_fix)}, True)
        d["apply_fixpoint_differs"] = len(bad_fix)
        if bad_trace:
            i = min(bad_trace, key=lambda k: len(inputs[k]))
            ctx.violation(f"the termination measure (mu, m_gen, m_qn, m_scope, m_def) does not decrease along the real run of `{op}`",
                          {"kind": "correspondence", "op": op, "input": inputs[i], "implementation": impl[i], "model": model[i],
                           "cases": len(bad_trace)}, True)
        if len(impl) >= 2000:
            for c in COMPONENTS:
                # m_qn is auxiliary (it makes m_scope a congruence); no rewrite of the portfolio
                # removes a quantifier node without decreasing mu, so it never decides a step
                if decided[c] == 0 and c != "m_qn":
                    ctx.notes.append(f"generator weakness ({op}): no step was decided by {c}")
            if max_passes[0] < 10:
                ctx.notes.append(f"generator weakness ({op}): no case needed 10 passes")
