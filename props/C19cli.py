"""C19cli: `anthem verify` under all 8 flag combinations against Model/CliVerify.v (props/CLIverify.py) as a part of C19."""
import os
import sys

sys.path.insert(0, os.path.dirname(os.path.abspath(__file__)))
from CLIverify import extra, replay  # noqa: E402,F401
