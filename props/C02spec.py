"""C02spec hook: the guard of the semantic oracle `sem_c02_spec`, counted.

`sem_c02_spec` evaluates the statement of C02 on specification-vs-program tasks inside decidable
classes (ocaml/driver/ops_c02spec.ml, GUARD).  Every run records which fraction of the generated
cases each class excludes (evidence: input_distribution.external_decompose_spec.oracle_classes and a
note), so a generator or guard change that silently starves the oracle is visible."""
import vlib


def extra(ctx, cfg, results):
    op = "external_decompose_spec"
    if op not in results:
        return
    lines, impl, _ = results[op]
    sl = [f"sem_c02_spec_class\t({l.split(chr(9), 1)[1]} {o})" for l, o in zip(lines, impl)
          if not (o.startswith("(harness-error") or o.startswith("(process-died"))]
    outs = vlib.run_lines(vlib.DRIVER_EXE, sl)
    hist = {}
    for o in outs:
        k = o[len('(class "'):-2] if o.startswith('(class "') else "driver-error"
        hist[k] = hist.get(k, 0) + 1
    total = max(1, len(outs))
    ctx.distribution.setdefault(op, {})["oracle_classes"] = hist
    ev = hist.get("evaluated", 0)
    excluded = {k: v for k, v in hist.items() if k not in ("evaluated", "not-accepted")}
    ctx.notes.append(
        f"sem_c02_spec: {ev} of {total} generated cases evaluated ({100.0 * ev / total:.1f} %); "
        f"not accepted by anthem: {hist.get('not-accepted', 0)}; excluded by the guard: "
        + (", ".join(f"{k} {v} ({100.0 * v / total:.1f} %)" for k, v in sorted(excluded.items())) or "none"))
    vlib.log("sem_c02_spec classes: " + ", ".join(f"{k}={v}" for k, v in sorted(hist.items())))
    if ev * 2 < total:
        ctx.violation("sem_c02_spec evaluates fewer than half of the generated specification tasks (generator or guard degraded)",
                      {"kind": "semantic-error", "classes": hist}, False)
