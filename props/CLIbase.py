"""CLIbase: the analyze / parse / simplify / translate families of the CLI glue check (props/CLI.py) as a part of CLI."""
import os
import sys

sys.path.insert(0, os.path.dirname(os.path.abspath(__file__)))
from CLI import extra, replay  # noqa: E402,F401
