"""C18 (first half): the real fixpoint loop must return, and simplifying its result again must
return it unchanged.  The harness reports a loop that has not converged after 3000 passes as
`(nonterminating 3000)`; both that and an `again = false` flag are violations with the input
formula as the failing input."""


def extra(ctx, cfg, results):
    for op, (lines, impl, model) in results.items():
        inputs = [l.split("\t", 1)[1] for l in lines]
        bad_nt = [i for i, o in enumerate(impl) if o.startswith("(nonterminating")]
        if bad_nt:
            i = min(bad_nt, key=lambda k: len(inputs[k]))
            ctx.violation(f"the fixpoint strategy does not terminate on an input of `{op}` (real Apply::apply passes keep changing the formula)",
                          {"kind": "correspondence", "op": op, "input": inputs[i], "implementation": impl[i], "model": model[i],
                           "nonterminating_cases": len(bad_nt)}, True)
        if op == "fixpoint_ht":
            passes = {}
            bad_again = []
            for i, o in enumerate(impl):
                if o.startswith("(fix "):
                    n = o.split(" ", 2)[1]
                    passes[n] = passes.get(n, 0) + 1
                    if o.endswith(" false)"):
                        bad_again.append(i)
            ctx.distribution.setdefault(op, {})["passes_of_the_real_loop"] = passes
            if bad_again:
                i = min(bad_again, key=lambda k: len(inputs[k]))
                ctx.violation("simplifying the result of the fixpoint strategy again changed it",
                              {"kind": "correspondence", "op": op, "input": inputs[i], "implementation": impl[i], "model": model[i],
                               "cases": len(bad_again)}, True)
            if len(impl) >= 500 and not any(int(k) >= 3 for k in passes):
                ctx.notes.append("generator weakness: no case needed 3 passes")
