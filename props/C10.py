"""C10 runtime tie: end-to-end `anthem verify` runs against a stand-in `vampire`.

For each task (fixed examples + generated strong-equivalence pairs):
  1. a pre-run with --no-proof-search --save-problems yields the problem files;
  2. several planned runs: every problem text is assigned an outcome (raw stdout/stderr bytes, exit
     code or SIGKILL, delay), the number of prover instances is drawn from 1..8 (sometimes 0 =
     auto), and anthem is run with the stand-in first (and only) in PATH;
  3. compared:  the printed verdict and every printed per-problem status  vs  the Coq model
     (driver op `fan_in`, i.e. Model/Prover.fan_in over `prove` of the planned bytes, fed with the
     arrivals in the order anthem printed them);  the bytes each prover instance received  vs  the
     --save-problems files (each exactly once);  the prover's arguments;  distinct problem names.
Run-level scenarios: no `vampire` in PATH; a prover that exits without reading its input; a worker
thread that dies (problem whose TPTP rendering panics in debug builds).
"""
import os
import re
import sys

sys.path.insert(0, os.path.dirname(os.path.abspath(__file__)))
import clilib
from clilib import vlib, log, bump

STATUS_WORDS = ["Theorem", "CounterSatisfiable", "ContradictoryAxioms", "Timeout", "MemoryOut", "GaveUp", "Error"]

FIXED = [
    ("strong/successor", "strong", ["strong_equivalence/successor/successor.1.lp", "strong_equivalence/successor/successor.2.lp"], []),
    ("strong/squares", "strong", ["strong_equivalence/squares/squares.1.lp", "strong_equivalence/squares/squares.2.lp"], []),
    ("strong/bounds", "strong", ["strong_equivalence/bounds/bounds.1.lp", "strong_equivalence/bounds/bounds.2.lp"], []),
    ("strong/transitive", "strong", ["strong_equivalence/transitive/transitive.1.lp", "strong_equivalence/transitive/transitive.2.lp"], ["--decomposition", "independent"]),
    ("strong/choice", "strong", ["strong_equivalence/choice/choice.1.lp", "strong_equivalence/choice/choice.2.lp"], []),
    ("strong/trivial", "strong", ["strong_equivalence/trivial/trivial.1.lp", "strong_equivalence/trivial/trivial.2.lp"], ["--direction", "forward"]),
    ("external/cover-spec", "external", ["external_equivalence/cover/cover.1.lp", "external_equivalence/cover/cover.spec", "external_equivalence/cover/cover.ug"], []),
    ("external/cover-1v2", "external", ["external_equivalence/cover/cover.1.lp", "external_equivalence/cover/cover.2.lp", "external_equivalence/cover/cover.ug"], []),
    ("external/coloring", "external", ["external_equivalence/coloring/coloring.lp", "external_equivalence/coloring/coloring.spec", "external_equivalence/coloring/coloring.ug"], []),
    ("external/propositional", "external", ["external_equivalence/trivial/propositional"], []),
    ("external/first_order", "external", ["external_equivalence/trivial/first_order"], []),
    ("external/division", "external", ["external_equivalence/division"], ["--direction", "backward"]),
    ("external/primes-simple", "external", ["external_equivalence/primes/simple"], []),
    ("external/orphan", "external", ["external_equivalence/orphan/orphan.1.lp", "external_equivalence/orphan/orphan.2.lp", "external_equivalence/orphan/orphan.b.ug"], []),
]

NOISE_HEAD = [b"", b"% Running in auto input_syntax mode. Trying TPTP\n", b"% Refutation found. Thanks to Tanya!\n",
              b"% (4242)Success in time 0.012 s\n% ------\n", "% données ✓\n".encode()]
NOISE_TAIL = [b"", b"% SZS output start Proof for x\n1. $false\n% SZS output end Proof for x\n", b"% Termination reason: Refutation\n", b"\n"]

# the outcome kinds of the property text (+ variants); each is (stdout, stderr, exit code, mode)
def make_outcome(r, kind):
    head, tail = r.choice(NOISE_HEAD), r.choice(NOISE_TAIL)
    name = r.choice([b"problem", b"forward_0", b"", b"x_1"])
    line = lambda w: b"% SZS status " + w + b" for " + name + b"\n"
    if kind in STATUS_WORDS:
        return head + line(kind.encode()) + tail, r.choice([b"", b"warning: x\n"]), 0, "exit"
    if kind == "theorem_then_other":      # leftmost line wins
        return head + line(b"Theorem") + line(r.choice([b"Timeout", b"GaveUp", b"Satisfiable"])) + tail, b"", 0, "exit"
    if kind == "other_then_theorem":
        return head + line(r.choice([b"Timeout", b"GaveUp", b"CounterSatisfiable"])) + line(b"Theorem") + tail, b"", 0, "exit"
    if kind == "unknown_word":
        w = r.choice([b"Satisfiable", b"Unsatisfiable", b"theorem", b"Theorems", b"Theorem_1", b"Unknown", b"TimeOut"])
        return head + line(w) + tail, b"", 0, "exit"
    if kind == "no_status":
        body = r.choice([b"", b"% Refutation not found\n", b"SZS status Theorem\n", b"SZS status Theorem for", b"SZS  status Theorem for x\n",
                         b"szs status Theorem for x\n", "SZS status Théorème for x\n".encode(), b"SZS status: Theorem for x\n",
                         b"SZS status Theorem\nfor x\n"])
        return head + body, b"", 0, "exit"
    if kind == "non_utf8_stdout":
        return head + r.choice([b"\xff\xfe", b"\xc0\x80", b"\xed\xa0\x80", b"\xe2\x9c"]) + b"\n" + line(b"Theorem"), b"", 0, "exit"
    if kind == "non_utf8_stderr":
        return head + line(b"Theorem"), b"noise \xff\n", 0, "exit"
    if kind == "nonzero_exit":            # crash without a verdict
        return head + b"% Time limit reached!\n", b"Segmentation fault\n", r.choice([1, 2, 3, 101, 134, 139, 255]), "exit"
    if kind == "killed":
        return head, b"", 0, "kill"
    if kind == "nonzero_exit_after_theorem":   # anthem ignores the exit status (TODO in vampire.rs)
        return head + line(b"Theorem"), b"", r.choice([1, 3, 134]), "exit"
    if kind == "killed_after_theorem":
        return head + line(b"Theorem"), b"", 0, "kill"
    raise ValueError(kind)


FAIL_KINDS = ["CounterSatisfiable", "ContradictoryAxioms", "Timeout", "MemoryOut", "GaveUp", "Error",
              "unknown_word", "no_status", "non_utf8_stdout", "non_utf8_stderr", "nonzero_exit", "killed", "other_then_theorem"]
PASS_KINDS = ["Theorem", "Theorem", "Theorem", "theorem_then_other", "nonzero_exit_after_theorem", "killed_after_theorem"]

RESULT_RE = re.compile(r"^> Proving (.+) ended (with a SZS status|without a SZS status|with an error)$")
SUBMIT_RE = re.compile(r"^> Proving (\S+)\.\.\.$")


def hexs(b):
    return "x" + b.hex()


def parse_stdout(text):
    """-> (submitted names in order, arrivals [(name|None, kind, detail)], verdict|None)"""
    lines = text.split("\n")
    sub, arrivals, verdict = [], [], None
    i = 0
    while i < len(lines):
        ln = lines[i]
        m = SUBMIT_RE.match(ln)
        if m:
            sub.append(m.group(1))
        m = RESULT_RE.match(ln)
        if m:
            name, how = m.group(1), m.group(2)
            if how == "with a SZS status":
                st = lines[i + 1] if i + 1 < len(lines) else ""
                arrivals.append((name, "status", st[len("Status: "):] if st.startswith("Status: ") else "?" + st))
                i += 1
            else:
                j = i + 1
                while j < len(lines) and not lines[j].startswith("Error: ") and not RESULT_RE.match(lines[j]):
                    j += 1
                detail = lines[j][len("Error: "):] if j < len(lines) and lines[j].startswith("Error: ") else "?"
                arrivals.append((None if how == "with an error" else name, "nostatus" if how != "with an error" else "error", detail))
        if ln.startswith("> Success!"):
            verdict = True
        elif ln.startswith("> Failure!"):
            verdict = False
        i += 1
    return sub, arrivals, verdict


def printed_of_model(res):
    """model run_result (wire text) -> what anthem prints for it"""
    m = re.match(r'^\(reported \(ok (\w+)\)\)$', res)
    if m:
        return ("status", m.group(1))
    if res == '(reported (err "Missing"))':
        return ("nostatus", "the status of verifying this problem is missing")
    m = re.match(r'^\(reported \(err "Unknown" "(.*)"\)\)$', res)
    if m:
        return ("nostatus", "the status of verifying this problem is not recognized: `" + m.group(1) + "`")
    m = re.match(r'^\(failed "(\w+)"\)$', res)
    if m:
        return ("error", {"Spawn": "unable to spawn vampire as a child process", "Write": "unable to write to vampire's stdin",
                          "Wait": "unable to wait for vampire", "ConvertOutput": "unable to convert output"}[m.group(1)])
    return ("?", res)


def split_sexps(s):
    """top-level elements of a wire-format list"""
    assert s.startswith("(") and s.endswith(")")
    out, depth, cur, instr, esc = [], 0, "", False, False
    for ch in s[1:-1]:
        if instr:
            cur += ch
            if esc:
                esc = False
            elif ch == "\\":
                esc = True
            elif ch == '"':
                instr = False
            continue
        if ch == '"':
            instr = True
            cur += ch
        elif ch == "(":
            depth += 1
            cur += ch
        elif ch == ")":
            depth -= 1
            cur += ch
        elif ch == " " and depth == 0:
            if cur:
                out.append(cur)
            cur = ""
        else:
            cur += ch
    if cur:
        out.append(cur)
    return out


def extra(ctx, cfg, results):
    exe = clilib.anthem_exe()
    fake = clilib.fake_vampire_dir()
    nopath = clilib.empty_path_dir()
    thorough = ctx.tier == "thorough"
    plans_per_task = 120 if thorough else 26
    n_generated = 60 if thorough else 12
    dist = {"verdict": {}, "instances": {}, "kinds": {}, "problems_per_task": {}, "scenario": {},
            "arrival_order_differs_from_submission": 0, "runs": 0, "prover_invocations": 0}
    with clilib.Scratch("C10") as scratch:
        r0 = clilib.rng(ctx, "tasks")
        tasks = []
        for name, eq, files, flags in FIXED:
            tasks.append((name, eq, [clilib.example(f) for f in files], flags))
        for g in range(n_generated):
            d = os.path.join(scratch, f"gen{g}")
            ar = {}
            a = clilib.gen_program(r0, arity_of=ar)
            b = clilib.gen_program(r0, arity_of=ar)
            clilib.write(os.path.join(d, "a.lp"), a)
            clilib.write(os.path.join(d, "b.lp"), b)
            flags = r0.choice([[], ["--decomposition", "independent"], ["--no-simplify"], ["--direction", "backward"]])
            tasks.append((f"generated/{g}", "strong", [os.path.join(d, "a.lp"), os.path.join(d, "b.lp")], flags))

        # 1. pre-runs
        def prerun(t):
            name, eq, files, flags = t
            d = os.path.join(scratch, "pre", name.replace("/", "_"))
            os.makedirs(d)
            rr = clilib.run([exe, "verify", "--equivalence", eq, "--no-proof-search", "--save-problems", d] + flags + files)
            probs = {}
            if rr.rc == 0:
                for fn in sorted(os.listdir(d)):
                    probs[fn[:-2]] = open(os.path.join(d, fn), "rb").read()
            return rr, probs

        pre = clilib.pmap(prerun, tasks)
        jobs = []
        for t, (rr, probs) in zip(tasks, pre):
            if rr.crashed:
                ctx.violation("anthem crashed while generating problems", {"kind": "custom-cli", "task": t[0], "files": t[2], "stderr": rr.err.decode("latin1")[-800:]}, True)
                continue
            if rr.rc == 0 and not probs:
                # a task without any problem: the verdict is (vacuously) Success with no prover run
                r = clilib.rng(ctx, "plans/" + t[0])
                jobs.append(("plan", t, probs, 0, r.getrandbits(48)))
                bump(dist["problems_per_task"], "0")
                continue
            if rr.rc != 0 or len(probs) > 24:
                bump(dist["scenario"], "task skipped (rejected or > 24 problems)")
                ctx.notes.append(f"task {t[0]} skipped: rc={rr.rc}, {len(probs)} problems; {rr.err.decode('latin1').strip().splitlines()[-1][:160] if rr.err.strip() else ''}")
                continue
            bump(dist["problems_per_task"], str(len(probs)))
            r = clilib.rng(ctx, "plans/" + t[0])
            for i in range(plans_per_task):
                jobs.append(("plan", t, probs, i, r.getrandbits(48)))
            jobs.append(("missing-executable", t, probs, 0, r.getrandbits(48)))
            if r.random() < 0.5 or thorough:
                jobs.append(("noread", t, probs, 0, r.getrandbits(48)))
        # the dying-worker scenario (finding F10, repaired by 3e60422).  The worker died of finding F3b (isize::MIN rendered
        # to TPTP, debug build); since F3b is repaired too, the run takes the "rendering defect is gone" branch of run_job
        dead = os.path.join(scratch, "dead")
        clilib.write(os.path.join(dead, "a.lp"), "p(-9223372036854775808).\n")
        clilib.write(os.path.join(dead, "b.lp"), "p(-9223372036854775808). q :- q.\n")
        for n in ([1, 2, 3, 8] if not thorough else [1, 2, 3, 4, 5, 6, 7, 8]):
            jobs.append(("dead-worker", ("dead-worker", "strong", [os.path.join(dead, "a.lp"), os.path.join(dead, "b.lp")], []), {}, n, n))

        def do(job):
            try:
                return run_job(ctx, exe, fake, nopath, scratch, job)
            except Exception as e:  # a bug of the hook must not look like a pass
                import traceback
                return {"job": job[0], "task": job[1][0], "hook_error": traceback.format_exc()}

        outs = clilib.pmap(do, jobs)
        for o in outs:
            dist["runs"] += 1
            if "hook_error" in o:
                ctx.violation("C10 hook failed on a case", {"kind": "custom-cli", **o}, False)
                continue
            ctx.evaluations += 1
            dist["prover_invocations"] += o.get("invocations", 0)
            bump(dist["scenario"], o["scenario"])
            bump(dist["instances"], str(o.get("instances")))
            bump(dist["verdict"], str(o.get("printed_verdict")))
            for k in o.get("kinds", []):
                bump(dist["kinds"], k)
            if o.get("order_differs"):
                dist["arrival_order_differs_from_submission"] += 1
            if o.get("nontrivial"):
                ctx.nontrivial.add(o["key"])
            if sum(1 for x in ctx.samples if "planned_outcomes" in x) < 3 and o["scenario"] == "plan" and o.get("kinds"):
                ctx.samples.insert(0, {"task": o["task"], "instances": o["instances"], "planned_outcomes": o["kinds"],
                                    "arrival_order": o.get("arrival_names"), "printed_verdict": o.get("printed_verdict"),
                                    "model_verdict": o.get("model_verdict")})
            for what, detail in o.get("violations", []):
                payload = {"kind": "custom-cli", "scenario": o["scenario"], "task": o["task"], "files": o["files"], "flags": o["flags"],
                           "instances": o.get("instances"), "plan": o.get("plan_text"), "detail": detail,
                           "job": o.get("job")}
                ctx.violation(what, payload, True)
        ctx.distribution["cli_verify_with_stand_in_prover"] = dist
        log(f"C10 CLI runs: {dist['runs']} anthem runs, {dist['prover_invocations']} stand-in prover invocations, "
            f"verdicts {dist['verdict']}, {dist['arrival_order_differs_from_submission']} runs with arrival order != submission order")
        need = set(FAIL_KINDS + PASS_KINDS)
        missing = [k for k in need if k not in dist["kinds"]]
        if missing:
            ctx.notes.append(f"outcome kinds not exercised in this run: {missing}")


def run_job(ctx, exe, fake, nopath, scratch, job):
    scenario, (tname, eq, files, flags), probs, idx, seed = job
    import random
    r = random.Random(seed)
    d = os.path.join(scratch, "run", f"{tname.replace('/', '_')}-{scenario}-{idx}")
    os.makedirs(os.path.join(d, "save"))
    out = {"scenario": scenario, "task": tname, "files": files, "flags": flags, "violations": [], "kinds": [],
           "job": {"scenario": scenario, "task": tname, "equivalence": eq, "flags": flags, "idx": idx, "seed": seed,
                   "files": [{"path": f, "content": (open(f, "rb").read().decode("latin1") if os.path.isfile(f) else None)} for f in files]}}
    V = out["violations"]
    names = sorted(probs)
    env = {"FAKE_VAMPIRE_DIR": d, "PATH": fake}
    tl, cores = r.choice([1, 5, 60, 300]), r.choice([1, 1, 2, 4])
    if scenario == "dead-worker":
        n = idx
        cmd = [exe, "verify", "--equivalence", eq, "--no-timing", "-n", str(n)] + files
        rr = clilib.run(cmd, env=env, timeout=30)
        out.update({"instances": n, "key": f"dead/{n}", "nontrivial": True})
        text = rr.out.decode("utf8", "replace")
        sub, arrivals, verdict = parse_stdout(text)
        out["printed_verdict"] = verdict
        out["invocations"] = len([f for f in os.listdir(os.path.join(d, "got"))]) // 2 if os.path.isdir(os.path.join(d, "got")) else 0
        worker_died = b"panicked at" in rr.err
        if rr.timed_out:
            V.append(("verify hangs when a prover worker dies", {"stderr": rr.err.decode("latin1")[-500:]}))
        elif worker_died and n == 1:
            # sequential: the panic is in the main thread; there must be no verdict at all
            out["model_verdict"] = None
            if verdict is not None:
                V.append(("a verdict was printed although proving panicked", {"stdout_tail": text[-400:]}))
        elif worker_died:
            out["model_verdict"] = False   # C10_dead_worker
            out["kinds"] = ["worker_died"]
            if verdict is not False:
                V.append(("verify reports Success (or nothing) although a prover worker died without delivering a result",
                          {"printed_verdict": verdict, "results_received": len(arrivals), "submitted": len(sub), "stdout_tail": text[-400:]}))
        else:
            # the rendering defect is gone: every problem reaches the stand-in, which answers Error (unplanned)
            out["model_verdict"] = False
            if verdict is not False:
                V.append(("verify reports Success for unplanned problems", {"stdout_tail": text[-400:]}))
        return out

    n = r.choice([1, 1, 2, 2, 3, 4, 5, 6, 7, 8, 8, 0])
    out["instances"] = n
    plan = {}
    plan_lines = []
    if scenario == "plan":
        mode = r.random()
        fail_one = FAIL_KINDS[idx % len(FAIL_KINDS)]
        for k, nm in enumerate(names):
            h = clilib.fnv64(probs[nm])
            if h in plan:
                continue
            if mode < 0.35:
                kind = r.choice(PASS_KINDS)
            elif mode < 0.75:
                kind = r.choice(PASS_KINDS)
                if k == (idx // len(FAIL_KINDS) + seed) % max(1, len(names)):
                    kind = fail_one
            else:
                kind = r.choice(FAIL_KINDS + PASS_KINDS)
            so, se, code, md = make_outcome(r, kind)
            delay = r.choice([0, 0, 5, 20, 40, 80, 120])
            plan[h] = (kind, so, se, code, md)
            plan_lines.append(f"{h:016x} {delay} {md} {code} {hexs(so)} {hexs(se)}")
        clilib.write(os.path.join(d, "plan"), "\n".join(plan_lines) + "\n")
        out["plan_text"] = plan_lines
    if scenario == "missing-executable":
        env["PATH"] = nopath
    if scenario == "noread":
        env["FAKE_VAMPIRE_NOREAD"] = "1"
    cmd = [exe, "verify", "--equivalence", eq, "--no-timing", "-n", str(n), "-t", str(tl), "-m", str(cores),
           "--save-problems", os.path.join(d, "save")] + flags + files
    rr = clilib.run(cmd, env=env, timeout=60)
    text = rr.out.decode("utf8", "replace")
    sub, arrivals, verdict = parse_stdout(text)
    out["printed_verdict"] = verdict
    out["key"] = f"{tname}/{scenario}/{idx}/{n}"
    if rr.crashed or rr.rc != 0:
        V.append(("verify crashed or failed during proof search", {"rc": rr.rc, "timed_out": rr.timed_out, "stderr": rr.err.decode("latin1")[-600:]}))
        return out
    # names: distinct, and exactly the saved files
    saved = {}
    for fn in sorted(os.listdir(os.path.join(d, "save"))):
        saved[fn[:-2]] = open(os.path.join(d, "save", fn), "rb").read()
    if len(set(sub)) != len(sub):
        V.append(("two problems of one task carry the same name", {"names": sub}))
    if sorted(sub) != sorted(saved):
        V.append(("the problems announced differ from the files written by --save-problems", {"announced": sub, "files": sorted(saved)}))
    if saved != probs:
        V.append(("--save-problems wrote different files in two runs of the same task", {"first": sorted(probs), "second": sorted(saved)}))
    # what the prover received
    got_dir = os.path.join(d, "got")
    got, args = [], []
    if os.path.isdir(got_dir):
        for fn in sorted(os.listdir(got_dir)):
            p = os.path.join(got_dir, fn)
            if fn.endswith(".in"):
                got.append(open(p, "rb").read())
            elif fn.endswith(".args"):
                args.append(open(p).read().split("\n")[:-1])
    out["invocations"] = len(args)
    if scenario in ("plan",):
        if sorted(got) != sorted(saved.values()):
            extra_in = [g for g in got if g not in saved.values()]
            V.append(("the prover did not receive exactly the --save-problems texts, each once",
                      {"prover_invocations": len(got), "problems": len(saved),
                       "first_unexpected_input_head": extra_in[0][:300].decode("latin1") if extra_in else None}))
        want = ["--mode", "casc", "--time_limit", str(tl), "--cores", str(cores)]
        badargs = [a for a in args if a != want]
        if badargs:
            V.append(("the prover was started with unexpected arguments", {"expected": want, "got": badargs[0]}))
    if scenario == "missing-executable" and args:
        V.append(("a prover ran although PATH has no vampire", {}))
    # the model's verdict for the arrivals in the order anthem saw them
    if len(arrivals) != len(sub):
        pass  # (a dead worker) - the model is told only about the arrivals
    index = {nm: k for k, nm in enumerate(sub)}
    used = set()
    events = []
    unnamed = []
    for pos, (nm, kind, detail) in enumerate(arrivals):
        if nm is not None and nm in index and index[nm] not in used:
            used.add(index[nm])
            events.append([index[nm], pos])
        else:
            unnamed.append(pos)
            events.append([None, pos])

    def outcome_of(k, printed_kind):
        if scenario == "missing-executable":
            return "(notstarted)"
        if scenario == "noread":
            return "(pipebroke)" if printed_kind == "error" else "(exited x x 1)"
        kind, so, se, code, md = plan[clilib.fnv64(saved[sub[k]])]
        return f"(exited {hexs(so)} {hexs(se)} {code})"

    # arrivals without a name (prover errors): give them the not-yet-used problems whose model result is an error first
    free = [k for k in range(len(sub)) if k not in used]
    if scenario == "plan":
        def is_err(k):
            kind = plan[clilib.fnv64(saved[sub[k]])][0]
            return kind in ("non_utf8_stdout", "non_utf8_stderr")
        free.sort(key=lambda k: (not is_err(k), k))
    for ev in events:
        if ev[0] is None and free:
            ev[0] = free.pop(0)
    events = [ev for ev in events if ev[0] is not None]
    line = "fan_in\t(" + str(len(sub)) + "".join(f" ({k} {outcome_of(k, arrivals[pos][1])})" for k, pos in events) + ")"
    ans = vlib.run_lines(vlib.DRIVER_EXE, [line])[0]
    if not ans.startswith("(true") and not ans.startswith("(false"):
        V.append(("model driver could not evaluate the plan", {"answer": ans[:300]}))
        return out
    parts = split_sexps(ans)
    model_verdict = parts[0] == "true"
    out["model_verdict"] = model_verdict
    if scenario == "plan":
        out["kinds"] = [plan[clilib.fnv64(saved[nm])][0] for nm in sub]
    else:
        out["kinds"] = [scenario]
    out["arrival_names"] = [a[0] for a in arrivals]
    out["order_differs"] = [a[0] for a in arrivals if a[0]] != [s for s in sub if s in {a[0] for a in arrivals}]
    out["nontrivial"] = verdict is not None
    if verdict is None:
        V.append(("no verdict line was printed", {"stdout_tail": text[-400:]}))
    elif verdict != model_verdict:
        V.append((f"anthem printed {'Success' if verdict else 'Failure'} where the model's verdict for the same prover outcomes is "
                  f"{'Success' if model_verdict else 'Failure'}",
                  {"model": ans[:1500], "arrivals": arrivals, "submitted": sub}))
    if len(arrivals) != len(sub):
        V.append(("the number of results differs from the number of problems although no worker died",
                  {"results": len(arrivals), "submitted": len(sub), "stderr": rr.err.decode("latin1")[-300:]}))
    if scenario in ("plan", "missing-executable"):
        for (k, pos), res in zip(events, parts[1:]):
            want = printed_of_model(res)
            have = (arrivals[pos][1], arrivals[pos][2])
            if want != have:
                V.append(("the status anthem printed for a problem differs from the model's reading of the prover output",
                          {"problem": sub[k], "printed": have, "model": res, "expected_print": want}))
                break
    return out


def replay(ctx, cfg, r):
    """Re-run one recorded CLI case: same files, same plan (derived from the recorded seed), same instances."""
    import json
    job = r.get("job")
    if not job:
        print(json.dumps(r, indent=1)[:4000])
        print(f"VIOLATION property={ctx.prop} replay=(recorded; no job to re-run)")
        sys.exit(1)
    exe = clilib.anthem_exe()
    fake = clilib.fake_vampire_dir()
    with clilib.Scratch("C10-replay") as scratch:
        files = []
        for k, f in enumerate(job["files"]):
            if f["content"] is None:
                files.append(f["path"])       # a directory of the shipped examples
            else:
                files.append(clilib.write(os.path.join(scratch, "in", str(k), os.path.basename(f["path"])), f["content"].encode("latin1")))
        pre = os.path.join(scratch, "pre")
        os.makedirs(pre)
        probs = {}
        if job["scenario"] != "dead-worker":
            clilib.run([exe, "verify", "--equivalence", job["equivalence"], "--no-proof-search", "--save-problems", pre] + job["flags"] + files)
            for fn in sorted(os.listdir(pre)):
                probs[fn[:-2]] = open(os.path.join(pre, fn), "rb").read()
        o = run_job(ctx, exe, fake, clilib.empty_path_dir(), scratch,
                    (job["scenario"], (job["task"], job["equivalence"], files, job["flags"]), probs, job["idx"], job["seed"]))
        print("scenario:", o["scenario"], " instances:", o.get("instances"))
        print("planned outcomes:", o.get("kinds"))
        print("printed verdict:", o.get("printed_verdict"), " model verdict:", o.get("model_verdict"))
        for what, detail in o["violations"]:
            print("FAILS:", what)
            print(json.dumps(detail, indent=1, default=str)[:2000])
        if o["violations"]:
            print(f"VIOLATION property={ctx.prop} replay=(re-run)")
            sys.exit(1)
    print("replay: no longer fails")
    sys.exit(0)
