"""C10 runtime tie: end-to-end `anthem verify` runs against a stand-in `vampire`.

For each task (fixed examples + generated strong-equivalence pairs):
  1. a pre-run with --no-proof-search --save-problems yields the problem files;
  2. several planned runs: every problem text is assigned an outcome (raw stdout/stderr bytes, exit
     code or SIGKILL, delay), the number of prover instances is drawn from 1..8 (sometimes 0 =
     auto), and anthem is run with the stand-in first (and only) in PATH;
  3. compared:  the printed verdict and every printed per-problem status  vs  the Coq model
     (driver op `fan_in`, i.e. Model/Prover.fan_in over `prove` of the planned bytes, fed with the
     arrivals in the order anthem printed them);  the bytes each prover instance received  vs  the
     --save-problems files (each exactly once);  the prover's arguments;  distinct problem names.
  4. the END of every run - the line `> Proving ended with R results for S problems` (printed iff a
     worker died), the verdict line and the exit status - vs the run-level model (driver op
     `verify_end`, Model/VerdictRun.v); the prover's arguments, the number of instances and the
     choice sequential / thread pool vs the driver op `prover_config`.
Run-level scenarios: no `vampire` in PATH; a prover that exits without reading its input;
`worker_died`: `Vampire::prove` panics for chosen problems (hook `verif::prover_fault` of /repo,
cargo feature `verif`, environment variables ANTHEM_VERIF_PROVER_PANIC_BEFORE/_AFTER; a second
binary built with --features verif is used for this scenario only), every position, instances
1..4 and auto, both decompositions;  `options`: values of -n / -t / -m (0, 1, huge, not a usize)
under several CPU affinities.
"""
import os
import re
import sys

sys.path.insert(0, os.path.dirname(os.path.abspath(__file__)))
import clilib
from clilib import vlib, log, bump, Broken

STATUS_WORDS = ["Theorem", "CounterSatisfiable", "ContradictoryAxioms", "Timeout", "MemoryOut", "GaveUp", "Error"]

FIXED = [
    ("strong/successor", "strong", ["strong_equivalence/successor/successor.1.lp", "strong_equivalence/successor/successor.2.lp"], []),
    ("strong/squares", "strong", ["strong_equivalence/squares/squares.1.lp", "strong_equivalence/squares/squares.2.lp"], []),
    ("strong/bounds", "strong", ["strong_equivalence/bounds/bounds.1.lp", "strong_equivalence/bounds/bounds.2.lp"], []),
    ("strong/transitive", "strong", ["strong_equivalence/transitive/transitive.1.lp", "strong_equivalence/transitive/transitive.2.lp"], ["--decomposition", "independent"]),
    ("strong/choice", "strong", ["strong_equivalence/choice/choice.1.lp", "strong_equivalence/choice/choice.2.lp"], []),
    ("strong/trivial", "strong", ["strong_equivalence/trivial/trivial.1.lp", "strong_equivalence/trivial/trivial.2.lp"], ["--direction", "forward"]),
    ("external/cover-spec", "external", ["external_equivalence/cover/cover.1.lp", "external_equivalence/cover/cover.spec", "external_equivalence/cover/cover.ug"], []),
    ("external/cover-1v2", "external", ["external_equivalence/cover/cover.1.lp", "external_equivalence/cover/cover.2.lp", "external_equivalence/cover/cover.ug"], []),
    ("external/coloring", "external", ["external_equivalence/coloring/coloring.lp", "external_equivalence/coloring/coloring.spec", "external_equivalence/coloring/coloring.ug"], []),
    ("external/propositional", "external", ["external_equivalence/trivial/propositional"], []),
    ("external/first_order", "external", ["external_equivalence/trivial/first_order"], []),
    ("external/division", "external", ["external_equivalence/division"], ["--direction", "backward"]),
    ("external/primes-simple", "external", ["external_equivalence/primes/simple"], []),
    ("external/orphan", "external", ["external_equivalence/orphan/orphan.1.lp", "external_equivalence/orphan/orphan.2.lp", "external_equivalence/orphan/orphan.b.ug"], []),
]

NOISE_HEAD = [b"", b"% Running in auto input_syntax mode. Trying TPTP\n", b"% Refutation found. Thanks to Tanya!\n",
              b"% (4242)Success in time 0.012 s\n% ------\n", "% données ✓\n".encode()]
NOISE_TAIL = [b"", b"% SZS output start Proof for x\n1. $false\n% SZS output end Proof for x\n", b"% Termination reason: Refutation\n", b"\n"]

# the outcome kinds of the property text (+ variants); each is (stdout, stderr, exit code, mode)
def make_outcome(r, kind):
    head, tail = r.choice(NOISE_HEAD), r.choice(NOISE_TAIL)
    name = r.choice([b"problem", b"forward_0", b"", b"x_1"])
    line = lambda w: b"% SZS status " + w + b" for " + name + b"\n"
    if kind in STATUS_WORDS:
        return head + line(kind.encode()) + tail, r.choice([b"", b"warning: x\n"]), 0, "exit"
    if kind == "theorem_then_other":      # leftmost line wins
        return head + line(b"Theorem") + line(r.choice([b"Timeout", b"GaveUp", b"Satisfiable"])) + tail, b"", 0, "exit"
    if kind == "other_then_theorem":
        return head + line(r.choice([b"Timeout", b"GaveUp", b"CounterSatisfiable"])) + line(b"Theorem") + tail, b"", 0, "exit"
    if kind == "unknown_word":
        w = r.choice([b"Satisfiable", b"Unsatisfiable", b"theorem", b"Theorems", b"Theorem_1", b"Unknown", b"TimeOut"])
        return head + line(w) + tail, b"", 0, "exit"
    if kind == "no_status":
        body = r.choice([b"", b"% Refutation not found\n", b"SZS status Theorem\n", b"SZS status Theorem for", b"SZS  status Theorem for x\n",
                         b"szs status Theorem for x\n", "SZS status Théorème for x\n".encode(), b"SZS status: Theorem for x\n",
                         b"SZS status Theorem\nfor x\n"])
        return head + body, b"", 0, "exit"
    if kind == "non_utf8_stdout":
        return head + r.choice([b"\xff\xfe", b"\xc0\x80", b"\xed\xa0\x80", b"\xe2\x9c"]) + b"\n" + line(b"Theorem"), b"", 0, "exit"
    if kind == "non_utf8_stderr":
        return head + line(b"Theorem"), b"noise \xff\n", 0, "exit"
    if kind == "nonzero_exit":            # crash without a verdict
        return head + b"% Time limit reached!\n", b"Segmentation fault\n", r.choice([1, 2, 3, 101, 134, 139, 255]), "exit"
    if kind == "killed":
        return head, b"", 0, "kill"
    if kind == "nonzero_exit_after_theorem":   # anthem ignores the exit status (TODO in vampire.rs)
        return head + line(b"Theorem"), b"", r.choice([1, 3, 134]), "exit"
    if kind == "killed_after_theorem":
        return head + line(b"Theorem"), b"", 0, "kill"
    raise ValueError(kind)


FAIL_KINDS = ["CounterSatisfiable", "ContradictoryAxioms", "Timeout", "MemoryOut", "GaveUp", "Error",
              "unknown_word", "no_status", "non_utf8_stdout", "non_utf8_stderr", "nonzero_exit", "killed", "other_then_theorem"]
PASS_KINDS = ["Theorem", "Theorem", "Theorem", "theorem_then_other", "nonzero_exit_after_theorem", "killed_after_theorem"]

RESULT_RE = re.compile(r"^> Proving (.+) ended (with a SZS status|without a SZS status|with an error)$")
SUBMIT_RE = re.compile(r"^> Proving (\S+)\.\.\.$")
COUNT_RE = re.compile(r"^> Proving ended with (\d+) results for (\d+) problems$")
HOOK_VARS = {"before": "ANTHEM_VERIF_PROVER_PANIC_BEFORE", "after": "ANTHEM_VERIF_PROVER_PANIC_AFTER"}


def hexs(b):
    return "x" + b.hex()


def parse_stdout(text):
    """-> (names announced in order, arrivals [(name|None, kind, detail)], verdict|None, info)
    info: count = (R, S) of the line `> Proving ended with R results for S problems` or None; the exact count and
    verdict lines; interleaved = a result was printed before the last problem was announced (the lazy iterator
    of the sequential case; None when fewer than two problems were announced or no result was printed)"""
    lines = text.split("\n")
    sub, arrivals, verdict = [], [], None
    info = {"count": None, "count_line": None, "verdict_line": None, "interleaved": None}
    first_result, last_submit = None, None
    i = 0
    while i < len(lines):
        ln = lines[i]
        m = SUBMIT_RE.match(ln)
        if m:
            sub.append(m.group(1))
            last_submit = i
        m = RESULT_RE.match(ln)
        if m:
            if first_result is None:
                first_result = i
            name, how = m.group(1), m.group(2)
            if how == "with a SZS status":
                st = lines[i + 1] if i + 1 < len(lines) else ""
                arrivals.append((name, "status", st[len("Status: "):] if st.startswith("Status: ") else "?" + st))
                i += 1
            else:
                j = i + 1
                while j < len(lines) and not lines[j].startswith("Error: ") and not RESULT_RE.match(lines[j]):
                    j += 1
                detail = lines[j][len("Error: "):] if j < len(lines) and lines[j].startswith("Error: ") else "?"
                arrivals.append((None if how == "with an error" else name, "nostatus" if how != "with an error" else "error", detail))
        m = COUNT_RE.match(ln)
        if m:
            info["count"] = (int(m.group(1)), int(m.group(2)))
            info["count_line"] = ln
        if ln.startswith("> Success!"):
            verdict = True
            info["verdict_line"] = ln
        elif ln.startswith("> Failure!"):
            verdict = False
            info["verdict_line"] = ln
        i += 1
    if len(sub) >= 2 and first_result is not None:
        info["interleaved"] = first_result < last_submit
    return sub, arrivals, verdict, info


def printed_of_model(res):
    """model run_result (wire text) -> what anthem prints for it"""
    m = re.match(r'^\(reported \(ok (\w+)\)\)$', res)
    if m:
        return ("status", m.group(1))
    if res == '(reported (err "Missing"))':
        return ("nostatus", "the status of verifying this problem is missing")
    m = re.match(r'^\(reported \(err "Unknown" "(.*)"\)\)$', res)
    if m:
        return ("nostatus", "the status of verifying this problem is not recognized: `" + m.group(1) + "`")
    m = re.match(r'^\(failed "(\w+)"\)$', res)
    if m:
        return ("error", {"Spawn": "unable to spawn vampire as a child process", "Write": "unable to write to vampire's stdin",
                          "Wait": "unable to wait for vampire", "ConvertOutput": "unable to convert output"}[m.group(1)])
    return ("?", res)


def split_sexps(s):
    """top-level elements of a wire-format list"""
    assert s.startswith("(") and s.endswith(")")
    out, depth, cur, instr, esc = [], 0, "", False, False
    for ch in s[1:-1]:
        if instr:
            cur += ch
            if esc:
                esc = False
            elif ch == "\\":
                esc = True
            elif ch == '"':
                instr = False
            continue
        if ch == '"':
            instr = True
            cur += ch
        elif ch == "(":
            depth += 1
            cur += ch
        elif ch == ")":
            depth -= 1
            cur += ch
        elif ch == " " and depth == 0:
            if cur:
                out.append(cur)
            cur = ""
        else:
            cur += ch
    if cur:
        out.append(cur)
    return out




def sx_str(s):
    return '"' + s.replace("\\", "\\\\").replace('"', '\\"') + '"'


def parse_model_end(ans):
    """(end (count "l")|(nocount) (verdict "l")|(noverdict) <exit> <results>) -> dict"""
    parts = split_sexps(ans)
    if not parts or parts[0] != "end" or len(parts) != 5:
        return None
    unq = lambda x: bytes(x[x.index('"') + 1:x.rindex('"')], "latin1").decode("unicode_escape") if '"' in x else None
    return {"count_line": unq(parts[1]), "verdict_line": unq(parts[2]), "exit": int(parts[3]), "results": int(parts[4])}


USIZE_TEXT = re.compile(r"^\+?[0-9]+$")      # what <usize as FromStr> reads (clap's value parser for usize)


def usize_of_text(t):
    """the number an option value denotes, None when usize::from_str refuses the text (sign, blank, letters, empty).
    Too large a number is left to the model (options_ok)."""
    return int(t) if USIZE_TEXT.match(t) else None


def hook_present():
    """the fault-injection hook of /repo (fixes/hook-c10.diff; cargo feature `verif`)"""
    f = os.path.join(vlib.REPO, "src", "verif.rs")
    return os.path.isfile(f) and "fn prover_fault" in open(f).read()


def affinity_prefix(cpus):
    import shutil
    return [shutil.which("taskset") or "/usr/bin/taskset", "-c", ",".join(map(str, cpus))] if cpus else []


def calibrate(exe, fake, scratch, cpus, tag):
    """num_cpus::get() as seen by an anthem process with the given CPU affinity: the --cores argument of `-m 0`"""
    d = os.path.join(scratch, "cal-" + tag)
    os.makedirs(d)
    a = clilib.write(os.path.join(d, "a.lp"), "p :- q.\n")
    b = clilib.write(os.path.join(d, "b.lp"), "p :- q, q.\n")
    rr = clilib.run(affinity_prefix(cpus) + [exe, "verify", "--equivalence", "strong", "--no-timing", "-n", "1", "-m", "0", a, b],
                    env={"FAKE_VAMPIRE_DIR": d, "PATH": fake, "FAKE_VAMPIRE_DEFAULT": "theorem"}, timeout=30)
    seen = set()
    g = os.path.join(d, "got")
    for fn in (os.listdir(g) if os.path.isdir(g) else []):
        if fn.endswith(".args"):
            a = open(os.path.join(g, fn)).read().split("\n")
            if "--cores" in a:
                seen.add(a[a.index("--cores") + 1])
    if len(seen) != 1 or not next(iter(seen)).isdigit():
        raise Broken("harness: could not calibrate num_cpus::get() (no prover invocation recorded)", rr.err.decode("latin1")[-800:])
    return int(next(iter(seen)))


def expected_ncpu(exe, fake, scratch, cpus, tag):
    """-> (the value the model is given for num_cpus::get(), the value observed through `-m 0`).
    Without a cgroup CPU quota num_cpus::get() is the size of the affinity set of the process: that is what the
    model is given (independent of anthem); with a quota the observed value has to be taken."""
    seen = calibrate(exe, fake, scratch, cpus, tag)
    if cgroup_quota() is None:
        return (len(cpus) if cpus else len(os.sched_getaffinity(0))), seen
    return seen, seen


def cgroup_quota():
    try:
        q = open("/sys/fs/cgroup/cpu.max").read().split()
        return None if q[0] == "max" else float(q[0]) / float(q[1])
    except Exception:
        return None


OPTION_TEXTS_N = ["0", "1", "2", "3", "9", "64", "300", "+4", "007"]
OPTION_TEXTS_T = ["0", "1", "60", "4294967296", "9223372036854775808", "18446744073709551615", "+5", "000"]
OPTION_TEXTS_M = ["0", "1", "3", "16", "17", "1000", "18446744073709551615", "+2"]
OPTION_TEXTS_BAD = ["18446744073709551616", "99999999999999999999999", "-1", "-0", "abc", "", "1.5", "1e3", " 1", "0x10", "١"]


def extra(ctx, cfg, results):
    exe = clilib.anthem_exe()
    fake = clilib.fake_vampire_dir()
    nopath = clilib.empty_path_dir()
    thorough = ctx.tier == "thorough"
    plans_per_task = 120 if thorough else 26
    n_generated = 60 if thorough else 12
    dist = {"verdict": {}, "instances": {}, "kinds": {}, "problems_per_task": {}, "scenario": {},
            "arrival_order_differs_from_submission": 0, "runs": 0, "prover_invocations": 0,
            "worker_died": {"runs": 0, "pool": 0, "sequential": 0, "position_of_first_dead_problem": {}, "dead_per_run": {},
                            "stage": {}, "decomposition": {}, "instances": {}, "others_all_theorem": 0},
            "options": {"accepted": 0, "rejected": 0, "sequential": 0, "pool": 0, "ncpu": {}, "instances_value": {}}}
    have_hook = hook_present()
    exe_verif = None
    if have_hook:
        exe_verif = clilib.anthem_exe("verif")
    with clilib.Scratch("C10") as scratch:
        # num_cpus::get() for the affinities used
        allcpus = sorted(os.sched_getaffinity(0))
        affs = {"all": None}
        if len(allcpus) >= 3:
            affs["3"] = allcpus[:3]
        if len(allcpus) >= 2:
            affs["1"] = allcpus[-1:]
        ncpu = {}
        for k, v in affs.items():
            ncpu[k], seen = expected_ncpu(exe, fake, scratch, v, k)
            if seen != ncpu[k]:
                ctx.violation("`-m 0`: the --cores argument handed to the prover differs from num_cpus::get() = the size of the CPU affinity set of the process",
                              {"kind": "custom-cli", "affinity": v, "observed": seen, "expected": ncpu[k],
                               "command": "verify --equivalence strong -n 1 -m 0 a.lp b.lp  (a.lp: `p :- q.`, b.lp: `p :- q, q.`)"}, True)
        dist["options"]["ncpu"] = dict(ncpu)

        r0 = clilib.rng(ctx, "tasks")
        tasks = []
        for name, eq, files, flags in FIXED:
            tasks.append((name, eq, [clilib.example(f) for f in files], flags))
        for g in range(n_generated):
            d = os.path.join(scratch, f"gen{g}")
            ar = {}
            a = clilib.gen_program(r0, arity_of=ar)
            b = clilib.gen_program(r0, arity_of=ar)
            clilib.write(os.path.join(d, "a.lp"), a)
            clilib.write(os.path.join(d, "b.lp"), b)
            flags = r0.choice([[], ["--decomposition", "independent"], ["--no-simplify"], ["--direction", "backward"]])
            tasks.append((f"generated/{g}", "strong", [os.path.join(d, "a.lp"), os.path.join(d, "b.lp")], flags))
        # the tasks of the worker_died scenario: every task without a --decomposition flag, under both decompositions
        died_tasks = []
        for name, eq, files, flags in tasks:
            if "--decomposition" not in flags:
                for dec in ("independent", "sequential"):
                    died_tasks.append((f"{name}@{dec}", eq, files, flags + ["--decomposition", dec]))

        # 1. pre-runs
        def prerun(t):
            name, eq, files, flags = t
            d = os.path.join(scratch, "pre", name.replace("/", "_"))
            os.makedirs(d)
            rr = clilib.run([exe, "verify", "--equivalence", eq, "--no-proof-search", "--save-problems", d] + flags + files)
            probs = {}
            if rr.rc == 0:
                for fn in sorted(os.listdir(d)):
                    probs[fn[:-2]] = open(os.path.join(d, fn), "rb").read()
            return rr, probs

        pre = clilib.pmap(prerun, tasks + died_tasks)
        pre_died = pre[len(tasks):]
        pre = pre[:len(tasks)]
        jobs = []
        small_tasks = []
        for t, (rr, probs) in zip(tasks, pre):
            if rr.crashed:
                ctx.violation("anthem crashed while generating problems", {"kind": "custom-cli", "task": t[0], "files": t[2], "stderr": rr.err.decode("latin1")[-800:]}, True)
                continue
            if rr.rc == 0 and not probs:
                # a task without any problem: the verdict is (vacuously) Success with no prover run
                r = clilib.rng(ctx, "plans/" + t[0])
                jobs.append(("plan", t, probs, 0, r.getrandbits(48), {"ncpu": ncpu["all"]}))
                bump(dist["problems_per_task"], "0")
                continue
            if rr.rc != 0 or len(probs) > 24:
                bump(dist["scenario"], "task skipped (rejected or > 24 problems)")
                ctx.notes.append(f"task {t[0]} skipped: rc={rr.rc}, {len(probs)} problems; {rr.err.decode('latin1').strip().splitlines()[-1][:160] if rr.err.strip() else ''}")
                continue
            bump(dist["problems_per_task"], str(len(probs)))
            if 2 <= len(probs) <= 6:
                small_tasks.append((t, probs))
            r = clilib.rng(ctx, "plans/" + t[0])
            for i in range(plans_per_task):
                jobs.append(("plan", t, probs, i, r.getrandbits(48), {"ncpu": ncpu["all"]}))
            jobs.append(("missing-executable", t, probs, 0, r.getrandbits(48), {"ncpu": ncpu["all"]}))
            if r.random() < 0.5 or thorough:
                jobs.append(("noread", t, probs, 0, r.getrandbits(48), {"ncpu": ncpu["all"]}))

        # 2. option values: -n / -t / -m over 0, 1, huge, other spellings, not a usize; three CPU affinities
        ro = clilib.rng(ctx, "options")
        if small_tasks:
            triples = []
            for a in OPTION_TEXTS_N:
                triples.append((a, ro.choice(OPTION_TEXTS_T), ro.choice(OPTION_TEXTS_M)))
            for a in OPTION_TEXTS_T:
                triples.append((ro.choice(OPTION_TEXTS_N), a, ro.choice(OPTION_TEXTS_M)))
            for a in OPTION_TEXTS_M:
                triples.append((ro.choice(OPTION_TEXTS_N), ro.choice(OPTION_TEXTS_T), a))
                triples.append(("0", ro.choice(OPTION_TEXTS_T), a))          # automatic number of instances
            for a in OPTION_TEXTS_BAD:
                k = ro.randrange(3)
                tr = [ro.choice(OPTION_TEXTS_N), ro.choice(OPTION_TEXTS_T), ro.choice(OPTION_TEXTS_M)]
                tr[k] = a
                triples.append(tuple(tr))
            for _ in range(200 if thorough else 20):
                triples.append((ro.choice(OPTION_TEXTS_N), ro.choice(OPTION_TEXTS_T), ro.choice(OPTION_TEXTS_M)))
            for i, (n_, t_, m_) in enumerate(triples):
                t, probs = small_tasks[i % len(small_tasks)]
                aff = list(affs)[i % len(affs)]
                jobs.append(("options", t, probs, i, ro.getrandbits(48),
                             {"n": n_, "t": t_, "m": m_, "cpus": affs[aff], "ncpu": ncpu[aff]}))

        # 3. worker_died (finding F10, repaired by 3e60422): `prove` panics for chosen problems
        if not have_hook:
            ctx.violation("internal: the worker_died scenario cannot run: the tree under test has no `verif::prover_fault` "
                          "(apply fixes/hook-c10.diff to the repository)", {"kind": "custom-cli", "repo": vlib.REPO}, False)
        else:
            rd = clilib.rng(ctx, "worker_died")
            cands = [(t, probs) for t, (rr, probs) in zip(died_tasks, pre_died) if rr.rc == 0 and 1 <= len(probs) <= 8]
            by_dec = {"independent": [c for c in cands if c[0][0].endswith("@independent")],
                      "sequential": [c for c in cands if c[0][0].endswith("@sequential")]}
            chosen = []
            per_dec = 12 if thorough else 3
            for dec, cs in by_dec.items():
                # prefer tasks with several problems; always one shipped example and generated ones
                cs = sorted(cs, key=lambda c: (-min(len(c[1]), 4), rd.random()))
                chosen += cs[:per_dec]
            idx = 0
            for t, probs in chosen:
                S = len(probs)
                for n in ([1, 2, 3, 4, 0] if thorough else [1, 2, 3, 4]):
                    sets = [[k] for k in range(S)]                     # every position
                    if S >= 2:
                        sets.append(sorted(rd.sample(range(S), rd.randint(2, S))))
                    sets.append(list(range(S)))                        # every worker dies
                    for ks in sets:
                        for stage in (["before", "after"] if thorough else [("before", "after")[(idx + n) % 2]]):
                            m_ = "1" if n != 0 else rd.choice(["1", "0", "3"])
                            jobs.append(("worker_died", t, probs, idx, rd.getrandbits(48),
                                         {"n": str(n), "m": m_, "positions": ks, "stage": stage, "ncpu": ncpu["all"]}))
                            idx += 1

        def do(job):
            try:
                return run_job(ctx, exe_verif if job[0] == "worker_died" else exe, fake, nopath, scratch, job)
            except Exception as e:  # a bug of the hook must not look like a pass
                import traceback
                return {"job": job[0], "task": job[1][0], "hook_error": traceback.format_exc()}

        outs = clilib.pmap(do, jobs)
        for o in outs:
            dist["runs"] += 1
            if "hook_error" in o:
                ctx.violation("C10 hook failed on a case", {"kind": "custom-cli", **o}, False)
                continue
            ctx.evaluations += 1
            dist["prover_invocations"] += o.get("invocations", 0)
            bump(dist["scenario"], o["scenario"])
            bump(dist["instances"], str(o.get("instances")))
            bump(dist["verdict"], str(o.get("printed_verdict")))
            for k in o.get("kinds", []):
                bump(dist["kinds"], k)
            if o.get("order_differs"):
                dist["arrival_order_differs_from_submission"] += 1
            if o.get("nontrivial"):
                ctx.nontrivial.add(o["key"])
            wd = o.get("worker_died")
            if wd:
                w = dist["worker_died"]
                w["runs"] += 1
                w["pool" if wd["pool"] else "sequential"] += 1
                bump(w["position_of_first_dead_problem"], str(wd["first"]))
                bump(w["dead_per_run"], str(wd["dead"]))
                bump(w["stage"], wd["stage"])
                bump(w["decomposition"], wd["decomposition"])
                bump(w["instances"], str(o.get("instances")))
                if wd["others_all_theorem"]:
                    w["others_all_theorem"] += 1
                if sum(1 for x in ctx.samples if "dead_problems" in x) < 2 and wd["pool"] and wd["others_all_theorem"]:
                    ctx.samples.insert(0, {"task": o["task"], "instances": o["instances"], "dead_problems": wd["names"], "stage": wd["stage"],
                                        "last_lines": wd["last_lines"], "exit_status": wd["rc"]})
            op = o.get("options")
            if op:
                w = dist["options"]
                w["accepted" if op["accepted"] else "rejected"] += 1
                if op["accepted"]:
                    w["sequential" if op["sequential"] else "pool"] += 1
                    bump(w["instances_value"], str(op["instances"]))
            if sum(1 for x in ctx.samples if "planned_outcomes" in x) < 3 and o["scenario"] == "plan" and o.get("kinds"):
                ctx.samples.insert(0, {"task": o["task"], "instances": o["instances"], "planned_outcomes": o["kinds"],
                                    "arrival_order": o.get("arrival_names"), "printed_verdict": o.get("printed_verdict"),
                                    "model_verdict": o.get("model_verdict")})
            for what, detail in o.get("violations", []):
                payload = {"kind": "custom-cli", "scenario": o["scenario"], "task": o["task"], "files": o["files"], "flags": o["flags"],
                           "instances": o.get("instances"), "plan": o.get("plan_text"), "detail": detail,
                           "job": o.get("job")}
                ctx.violation(what, payload, True)
        ctx.distribution["cli_verify_with_stand_in_prover"] = dist
        log(f"C10 CLI runs: {dist['runs']} anthem runs, {dist['prover_invocations']} stand-in prover invocations, "
            f"verdicts {dist['verdict']}, {dist['arrival_order_differs_from_submission']} runs with arrival order != submission order; "
            f"worker_died: {dist['worker_died']['pool']} pool + {dist['worker_died']['sequential']} sequential runs; "
            f"options: {dist['options']['accepted']} accepted, {dist['options']['rejected']} rejected")
        need = set(FAIL_KINDS + PASS_KINDS)
        missing = [k for k in need if k not in dist["kinds"]]
        if missing:
            ctx.notes.append(f"outcome kinds not exercised in this run: {missing}")
        # the scenarios must have reached their branches
        if have_hook:
            w = dist["worker_died"]
            if dist["kinds"].get("worker_died", 0) == 0 or w["pool"] == 0 or w["sequential"] == 0 or w["others_all_theorem"] == 0 \
                    or len(w["decomposition"]) < 2:
                ctx.violation("internal: the worker_died scenario did not reach the branch `received != submitted` "
                              "(no run in which a prover worker died was observed)", {"kind": "custom-cli", "evidence": w}, False)
        if small_tasks and (dist["options"]["rejected"] == 0 or dist["options"]["sequential"] == 0 or dist["options"]["pool"] == 0):
            ctx.violation("internal: the option-value stream did not reach all of accepted-sequential / accepted-pool / rejected",
                          {"kind": "custom-cli", "evidence": dist["options"]}, False)


def run_job(ctx, exe, fake, nopath, scratch, job):
    scenario, (tname, eq, files, flags), probs, idx, seed, params = job
    import random
    r = random.Random(seed)
    d = os.path.join(scratch, "run", f"{tname.replace('/', '_')}-{scenario}-{idx}")
    os.makedirs(os.path.join(d, "save"))
    out = {"scenario": scenario, "task": tname, "files": files, "flags": flags, "violations": [], "kinds": [],
           "job": {"scenario": scenario, "task": tname, "equivalence": eq, "flags": flags, "idx": idx, "seed": seed, "params": params,
                   "files": [{"path": f, "content": (open(f, "rb").read().decode("latin1") if os.path.isfile(f) else None)} for f in files]}}
    V = out["violations"]
    names = sorted(probs)
    env = {"FAKE_VAMPIRE_DIR": d, "PATH": fake}
    tl, cores = str(r.choice([1, 5, 60, 300])), str(r.choice([1, 1, 2, 4]))
    n = str(r.choice([1, 1, 2, 2, 3, 4, 5, 6, 7, 8, 8, 0]))
    if scenario in ("options", "worker_died"):
        n, cores = params["n"], params["m"]
        tl = params.get("t", tl)
    ncpu = params["ncpu"]
    prefix = affinity_prefix(params.get("cpus"))

    # ---- what the model says about the option values
    vals = [usize_of_text(x) for x in (tl, n, cores)]
    if any(v is None for v in vals):
        config = "(rejected)"          # not a numeral: refused by usize::from_str (outside the model)
    else:
        config = vlib.run_lines(vlib.DRIVER_EXE, [f"prover_config\t({vals[0]} {vals[1]} {vals[2]} {ncpu})"])[0]
    out["instances"] = n
    out["key"] = f"{tname}/{scenario}/{idx}/{n}"
    if config == "(rejected)":
        cmd = prefix + [exe, "verify", "--equivalence", eq, "--no-timing", "-n", n, "-t", tl, "-m", cores] + flags + files
        if scenario != "options":
            raise RuntimeError("rejected option values outside the options scenario")
        rr = clilib.run(cmd, env=env, timeout=60)
        out["options"] = {"accepted": False}
        out["kinds"] = ["option_value_rejected"]
        out["nontrivial"] = True
        got_dir = os.path.join(d, "got")
        if rr.rc != 2 or rr.out != b"" or b"error:" not in rr.err or os.path.isdir(got_dir):
            V.append(("an option value that is not a usize is not refused with exit status 2 and an error message",
                      {"n": n, "t": tl, "m": cores, "rc": rr.rc, "timed_out": rr.timed_out, "stdout_head": rr.out[:300].decode("latin1"),
                       "stderr": rr.err.decode("latin1")[-400:], "prover_started": os.path.isdir(got_dir)}))
        return out
    cparts = split_sexps(config)
    if cparts[0] != "ok":
        V.append(("model: the option values make Vampire::instances panic", {"config": config}))
        return out
    model_instances, model_seq = int(cparts[1]), cparts[2] == "seq"
    model_argv = [bytes(x[1:-1], "latin1").decode("unicode_escape") for x in split_sexps(cparts[3])]
    out["instances"] = model_instances if scenario != "plan" else n

    # ---- worker_died: which problems, in submission order
    order = None
    dead = []
    if scenario == "worker_died":
        # the submission order: a reference run with one instance and no fault (the sequential iterator announces lazily)
        dref = os.path.join(d, "ref")
        os.makedirs(dref)
        ref = clilib.run([exe, "verify", "--equivalence", eq, "--no-timing", "-n", "1"] + flags + files,
                         env={"FAKE_VAMPIRE_DIR": dref, "PATH": fake, "FAKE_VAMPIRE_DEFAULT": "theorem"}, timeout=60)
        order = parse_stdout(ref.out.decode("utf8", "replace"))[0]
        if sorted(order) != names:
            V.append(("the problems announced differ from the files written by --save-problems", {"announced": order, "files": names}))
            return out
        dead = [order[k] for k in params["positions"]]
        env[HOOK_VARS[params["stage"]]] = ",".join(dead)

    # ---- the plan
    plan = {}
    plan_lines = []
    if scenario in ("plan", "options", "worker_died"):
        mode = r.random()
        if scenario == "worker_died":
            mode = 0.0 if r.random() < 0.7 else 0.9      # mostly: every other problem is proven (the case F10 got wrong)
        elif scenario == "options":
            mode = 0.0 if r.random() < 0.5 else 0.5
        fail_one = FAIL_KINDS[idx % len(FAIL_KINDS)]
        for k, nm in enumerate(names):
            h = clilib.fnv64(probs[nm])
            if h in plan:
                continue
            if mode < 0.35:
                kind = r.choice(PASS_KINDS)
            elif mode < 0.75:
                kind = r.choice(PASS_KINDS)
                if k == (idx // len(FAIL_KINDS) + seed) % max(1, len(names)):
                    kind = fail_one
            else:
                kind = r.choice(FAIL_KINDS + PASS_KINDS)
            if nm in dead and params["stage"] == "after" and kind in ("non_utf8_stdout", "non_utf8_stderr"):
                kind = "Theorem"      # (the hook's second site is behind the conversion of the output: an Err returns before it)
            so, se, code, md = make_outcome(r, kind)
            delay = r.choice([0, 0, 5, 20, 40, 80, 120])
            plan[h] = (kind, so, se, code, md)
            plan_lines.append(f"{h:016x} {delay} {md} {code} {hexs(so)} {hexs(se)}")
        clilib.write(os.path.join(d, "plan"), "\n".join(plan_lines) + "\n")
        out["plan_text"] = plan_lines
    if scenario == "missing-executable":
        env["PATH"] = nopath
    if scenario == "noread":
        env["FAKE_VAMPIRE_NOREAD"] = "1"

    cmd = prefix + [exe, "verify", "--equivalence", eq, "--no-timing", "-n", n, "-t", tl, "-m", cores,
                    "--save-problems", os.path.join(d, "save")] + flags + files
    rr = clilib.run(cmd, env=env, timeout=60)
    text = rr.out.decode("utf8", "replace")
    sub, arrivals, verdict, info = parse_stdout(text)
    out["printed_verdict"] = verdict
    expect_panic = bool(dead) and model_seq
    if expect_panic:
        if rr.rc != 101 or rr.timed_out or b"verif hook: the prover worker of problem" not in rr.err:
            V.append(("one prover instance: `prove` panicked in the main thread but the process did not end with exit status 101",
                      {"rc": rr.rc, "timed_out": rr.timed_out, "stderr": rr.err.decode("latin1")[-400:], "stdout_tail": text[-300:]}))
            return out
    elif (rr.crashed and not dead) or rr.timed_out or rr.rc != 0:
        # (with a dead worker the panic message of the worker thread is on stderr: that alone is not a crash)
        V.append(("verify hangs when a prover worker dies" if dead and rr.timed_out else "verify crashed or failed during proof search",
                  {"rc": rr.rc, "timed_out": rr.timed_out, "stderr": rr.err.decode("latin1")[-600:]}))
        return out
    if dead and not model_seq and b"verif hook: the prover worker of problem" not in rr.err:
        # (the messages of concurrent panics interleave on stderr: they are not counted)
        V.append(("internal: the fault-injection hook did not fire", {"dead": dead, "stderr": rr.err.decode("latin1")[-600:]}))
        return out
    # names: distinct, and exactly the saved files
    saved = {}
    for fn in sorted(os.listdir(os.path.join(d, "save"))):
        saved[fn[:-2]] = open(os.path.join(d, "save", fn), "rb").read()
    if order is None:
        order = sub
    announced_want = order if not expect_panic else order[:min(order.index(x) for x in dead) + 1]
    if len(set(sub)) != len(sub):
        V.append(("two problems of one task carry the same name", {"names": sub}))
    if sorted(order) != sorted(saved) or sub != announced_want:
        V.append(("the problems announced differ from the files written by --save-problems", {"announced": sub, "expected": announced_want, "files": sorted(saved)}))
        return out
    if saved != probs:
        V.append(("--save-problems wrote different files in two runs of the same task", {"first": sorted(probs), "second": sorted(saved)}))
    # sequential or thread pool, as the model says for these option values
    if info["interleaved"] is not None and info["interleaved"] != model_seq:
        V.append(("the number of prover instances anthem used differs from the model: " +
                  ("results were printed before all problems were announced (sequential), the model says thread pool" if info["interleaved"]
                   else "all problems were announced before the first result (thread pool), the model says sequential"),
                  {"n": n, "m": cores, "ncpu": ncpu, "model": config}))
    if scenario == "options":
        out["options"] = {"accepted": True, "sequential": model_seq, "instances": model_instances}
    # what the prover received
    got_dir = os.path.join(d, "got")
    got, args = [], []
    if os.path.isdir(got_dir):
        for fn in sorted(os.listdir(got_dir)):
            p = os.path.join(got_dir, fn)
            if fn.endswith(".in"):
                got.append(open(p, "rb").read())
            elif fn.endswith(".args"):
                args.append(open(p).read().split("\n")[:-1])
    out["invocations"] = len(args)
    if scenario in ("plan", "options", "worker_died"):
        # the problems that must have reached the prover
        if not dead:
            reach = list(order)
        elif not model_seq:
            reach = [x for x in order if x not in dead] if params["stage"] == "before" else list(order)
        else:
            first = min(order.index(x) for x in dead)
            reach = order[:first] if params["stage"] == "before" else order[:first + 1]
        if sorted(got) != sorted(saved[x] for x in reach):
            extra_in = [g for g in got if g not in saved.values()]
            V.append(("the prover did not receive exactly the --save-problems texts, each once",
                      {"prover_invocations": len(got), "problems_expected_to_reach_the_prover": reach,
                       "first_unexpected_input_head": extra_in[0][:300].decode("latin1") if extra_in else None}))
        badargs = [a for a in args if a != model_argv]
        if badargs:
            V.append(("the prover was started with arguments that differ from the model's", {"expected": model_argv, "got": badargs[0]}))
    if scenario == "missing-executable" and args:
        V.append(("a prover ran although PATH has no vampire", {}))
    # the model's verdict for the arrivals in the order anthem saw them
    index = {nm: k for k, nm in enumerate(order)}
    used = set()
    events = []
    for pos, (nm, kind, detail) in enumerate(arrivals):
        if nm is not None and nm in index and index[nm] not in used and nm not in dead:
            used.add(index[nm])
            events.append([index[nm], pos])
        elif nm is not None:
            V.append(("a result was printed for a problem twice, for an unknown problem, or for a problem whose worker died",
                      {"name": nm, "arrivals": arrivals, "dead": dead}))
            return out
        else:
            events.append([None, pos])

    def outcome_of(k, printed_kind):
        if scenario == "missing-executable":
            return "(notstarted)"
        if scenario == "noread":
            return "(pipebroke)" if printed_kind == "error" else "(exited x x 1)"
        kind, so, se, code, md = plan[clilib.fnv64(saved[order[k]])]
        return f"(exited {hexs(so)} {hexs(se)} {code})"

    # arrivals without a name (prover errors): give them the not-yet-used problems whose model result is an error first
    free = [k for k in range(len(order)) if k not in used and order[k] not in dead]
    if expect_panic:
        free = [k for k in free if k < min(order.index(x) for x in dead)]
    if plan:
        def is_err(k):
            kind = plan[clilib.fnv64(saved[order[k]])][0]
            return kind in ("non_utf8_stdout", "non_utf8_stderr")
        free.sort(key=lambda k: (not is_err(k), k))
    for ev in events:
        if ev[0] is None and free:
            ev[0] = free.pop(0)
    if any(ev[0] is None for ev in events):
        V.append(("more results were printed than problems could have delivered", {"arrivals": arrivals, "submitted": order, "dead": dead}))
        return out
    evtext = "".join(f" ({k} {outcome_of(k, arrivals[pos][1])})" for k, pos in events)
    if model_seq:
        # one instance: the results come in submission order
        ks = [k for k, pos in events]
        if ks != sorted(ks):
            V.append(("one prover instance: the results were not printed in submission order", {"arrivals": arrivals, "submitted": order}))
        fate = {k: outcome_of(k, arrivals[pos][1]) for k, pos in events}
        first = min([order.index(x) for x in dead] + [len(order)])
        fates = [fate.get(k, "(died)" if order[k] in dead else None) for k in range(len(order) if not dead else first + 1)]
        if any(f is None for f in fates):
            endline = None
        else:
            endline = "verify_end\t(seq " + " ".join(fates) + ")"
    else:
        endline = "verify_end\t(pool " + str(len(order)) + evtext + ")"
    lines_ = ["fan_in\t(" + str(len(order)) + evtext + ")"] + ([endline] if endline else [])
    answers = vlib.run_lines(vlib.DRIVER_EXE, lines_)
    ans = answers[0]
    if not ans.startswith("(true") and not ans.startswith("(false"):
        V.append(("model driver could not evaluate the plan", {"answer": ans[:300]}))
        return out
    parts = split_sexps(ans)
    model_verdict = parts[0] == "true"
    out["model_verdict"] = model_verdict if not expect_panic else None
    if plan:
        out["kinds"] = [plan[clilib.fnv64(saved[nm])][0] for nm in order if nm not in dead]
    else:
        out["kinds"] = [scenario]
    out["arrival_names"] = [a[0] for a in arrivals]
    out["order_differs"] = [a[0] for a in arrivals if a[0]] != [s for s in order if s in {a[0] for a in arrivals}]
    out["nontrivial"] = verdict is not None or expect_panic
    # ---- the end of the run against the run-level model
    mend = parse_model_end(answers[1]) if endline else None
    last_lines = [ln for ln in text.split("\n") if ln.startswith("> Proving ended with") or ln.startswith("> Success") or ln.startswith("> Failure")]
    if mend is None:
        V.append(("the results printed do not fit the submission order of one prover instance (a problem without a result before the last one)",
                  {"arrivals": arrivals, "submitted": order, "dead": dead, "model": answers[1:] }))
    else:
        have = {"count_line": info["count_line"], "verdict_line": info["verdict_line"], "exit": rr.rc, "results": len(arrivals)}
        if have != mend:
            what = "the end of the run differs from the model: "
            if have["verdict_line"] != mend["verdict_line"]:
                if mend["verdict_line"] is None:
                    what = "a verdict was printed although proving panicked in the main thread"
                elif have["verdict_line"] is None:
                    what = "no verdict line was printed"
                else:
                    what = (f"anthem printed {'Success' if verdict else 'Failure'} where the model's verdict for the same prover outcomes is "
                            f"{'Success' if model_verdict else 'Failure'}")
                    if dead:
                        what = "verify reports Success although a prover worker died without delivering a result"
            elif have["count_line"] != mend["count_line"]:
                what += "the line `> Proving ended with R results for S problems`"
            elif have["exit"] != mend["exit"]:
                what += "exit status"
            else:
                what += "number of results printed"
            V.append((what, {"printed": have, "model": mend, "arrivals": arrivals, "submitted": order, "dead": dead,
                             "fan_in": ans[:1200], "stdout_tail": text[-300:]}))
    if dead:
        # the oracle of the scenario, stated without the model
        S, R = len(order), len(order) - len(dead)
        first = min(order.index(x) for x in dead)
        if model_seq:
            ok = rr.rc == 101 and verdict is None and info["count"] is None and len(arrivals) == first
        else:
            ok = rr.rc == 0 and verdict is False and info["count"] == (R, S) and len(arrivals) == R
        if not ok and not V:
            V.append(("worker_died: the run does not end as the scenario requires (Failure, `R results for S problems`, exit status 0; "
                      "one instance: exit status 101 without a verdict)",
                      {"sequential": model_seq, "rc": rr.rc, "verdict": verdict, "count": info["count"], "expected_count": (R, S), "results": len(arrivals)}))
        others_all = all(plan[clilib.fnv64(saved[x])][0] in PASS_KINDS for x in order if x not in dead)
        out["kinds"] = out["kinds"] + ["worker_died"]
        out["worker_died"] = {"pool": not model_seq, "first": first, "dead": len(dead), "stage": params["stage"], "names": dead,
                              "decomposition": flags[flags.index("--decomposition") + 1] if "--decomposition" in flags else "default",
                              "others_all_theorem": others_all, "last_lines": last_lines, "rc": rr.rc}
    elif len(arrivals) != len(order):
        V.append(("the number of results differs from the number of problems although no worker died",
                  {"results": len(arrivals), "submitted": len(order), "stderr": rr.err.decode("latin1")[-300:]}))
    if scenario in ("plan", "missing-executable", "options", "worker_died"):
        for (k, pos), res in zip(events, parts[1:]):
            want = printed_of_model(res)
            have = (arrivals[pos][1], arrivals[pos][2])
            if want != have:
                V.append(("the status anthem printed for a problem differs from the model's reading of the prover output",
                          {"problem": order[k], "printed": have, "model": res, "expected_print": want}))
                break
    return out


def replay_known(ctx, e):
    """known_findings.jsonl entries of C10 with a `cmd`: run it (behind the entry's `prefix`, e.g. prlimit) with the
    stand-in prover answering Theorem for every problem; the finding is still there while the process crashes
    without a verdict line, with the recorded message on stderr."""
    import shutil
    exe = clilib.anthem_exe()
    fake = clilib.fake_vampire_dir()
    prefix = list(e.get("prefix", []))
    if prefix:
        prefix[0] = shutil.which(prefix[0]) or prefix[0]
        if not os.path.isfile(prefix[0]):
            return False, f"cannot replay: `{e['prefix'][0]}` is not installed"
    with clilib.Scratch("C10-known-" + e["id"]) as scratch:
        f = clilib.write(os.path.join(scratch, e.get("input_name", "input.lp")), e["input_text"])
        argv = [a.replace("{input}", f) for a in e["cmd"]]
        rr = clilib.run(prefix + [exe] + argv, env={"FAKE_VAMPIRE_DIR": scratch, "PATH": fake, "FAKE_VAMPIRE_DEFAULT": "theorem"},
                        timeout=e.get("timeout_s", 60))
    verdict = parse_stdout(rr.out.decode("utf8", "replace"))[2]
    still = verdict is None and (rr.crashed or rr.rc != 0) and e.get("stderr_contains", "").encode() in rr.err
    return still, f"exit {rr.rc}, verdict {verdict}, stderr {rr.err[-200:].decode('latin1')!r}"


def replay(ctx, cfg, r):
    """Re-run one recorded CLI case: same files, same plan (derived from the recorded seed), same instances."""
    import json
    job = r.get("job")
    if not job:
        print(json.dumps(r, indent=1)[:4000])
        print(f"VIOLATION property={ctx.prop} replay=(recorded; no job to re-run)")
        sys.exit(1)
    exe = clilib.anthem_exe("verif" if job["scenario"] == "worker_died" else None)
    fake = clilib.fake_vampire_dir()
    with clilib.Scratch("C10-replay") as scratch:
        files = []
        for k, f in enumerate(job["files"]):
            if f["content"] is None:
                files.append(f["path"])       # a directory of the shipped examples
            else:
                files.append(clilib.write(os.path.join(scratch, "in", str(k), os.path.basename(f["path"])), f["content"].encode("latin1")))
        pre = os.path.join(scratch, "pre")
        os.makedirs(pre)
        probs = {}
        clilib.run([exe, "verify", "--equivalence", job["equivalence"], "--no-proof-search", "--save-problems", pre] + job["flags"] + files)
        for fn in sorted(os.listdir(pre)):
            probs[fn[:-2]] = open(os.path.join(pre, fn), "rb").read()
        params = dict(job.get("params") or {})
        params["ncpu"] = expected_ncpu(exe, fake, scratch, params.get("cpus"), "replay")[0]
        o = run_job(ctx, exe, fake, clilib.empty_path_dir(), scratch,
                    (job["scenario"], (job["task"], job["equivalence"], files, job["flags"]), probs, job["idx"], job["seed"], params))
        print("scenario:", o["scenario"], " instances:", o.get("instances"), " parameters:", {k: v for k, v in params.items()})
        print("planned outcomes:", o.get("kinds"))
        if o.get("worker_died"):
            print("problems whose worker dies:", o["worker_died"]["names"], " last lines:", o["worker_died"]["last_lines"], " exit status:", o["worker_died"]["rc"])
        print("printed verdict:", o.get("printed_verdict"), " model verdict:", o.get("model_verdict"))
        for what, detail in o["violations"]:
            print("FAILS:", what)
            print(json.dumps(detail, indent=1, default=str)[:2000])
        if o["violations"]:
            print(f"VIOLATION property={ctx.prop} replay=(re-run)")
            sys.exit(1)
    print("replay: no longer fails")
    sys.exit(0)
