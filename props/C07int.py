"""C07 (intuitionistic half): rule-firing statistics for the evidence file."""


def _formula_of(op, inp):
    # simplify_* inputs are `(strategy formula)`
    if op.startswith("simplify_"):
        return inp[inp.index(" ") + 1:-1]
    return inp


RULES = ["evaluate_comparisons", "apply_negation_definition", "apply_negation_definition_inverse",
         "apply_reverse_implication_definition", "apply_reverse_implication_definition_inverse",
         "apply_equivalence_definition", "apply_equivalence_definition_inverse", "remove_identities",
         "remove_annihilations", "remove_idempotences", "remove_orphaned_variables",
         "remove_empty_quantifications", "join_nested_quantifiers"]


def extra(ctx, cfg, results):
    fired = {}
    for op, (lines, impl, _model) in results.items():
        if op == "si_profile":
            counts = [0] * len(RULES)
            for o in impl:
                if o.startswith("(fired"):
                    for i, b in enumerate(o.strip("()").split()[1:]):
                        if b == "true" and i < len(counts):
                            counts[i] += 1
            d = {RULES[i]: counts[i] for i in range(len(RULES))}
            ctx.distribution.setdefault(op, {})["formulas_in_which_the_rule_fires_somewhere"] = d
            dead = [r for r, c in d.items() if c == 0]
            if dead and len(impl) >= 500:
                ctx.notes.append("generator weakness: no si_profile case fires " + ", ".join(dead))
            continue
        inputs = [l.split("\t", 1)[1] for l in lines]
        n = sum(1 for i, o in zip(inputs, impl) if o != _formula_of(op, i) and not o.startswith("(harness-error"))
        fired[op] = {"cases": len(lines), "output_differs_from_input": n}
        ctx.distribution.setdefault(op, {})["output_differs_from_input"] = n
        if op.startswith("simplify_"):
            per = {}
            for i, o in zip(inputs, impl):
                s = i[1:i.index(" ")]
                a = per.setdefault(s, [0, 0])
                a[0] += 1
                a[1] += 1 if o != _formula_of(op, i) else 0
            ctx.distribution[op]["per_strategy_cases_and_changed"] = per
        if n == 0 and len(lines) >= 200:
            ctx.notes.append(f"generator weakness: {op} never changed its input")
    ctx.notes.append("rule firing (implementation output != input): " +
                     "; ".join(f"{op} {v['output_differs_from_input']}/{v['cases']}" for op, v in sorted(fired.items())))
