"""C06 property-specific step: validate the SPECIFICATION reader (tff_read, trusted) against the
TPTP tool shipped with the repository (tests/examples/tptp4X_linux).

For a sample of problems emitted by the implementation (op problem_emit) that pass the strict
type check, tptp4X must accept the file, and its fully parenthesised re-print must be read by
tff_read as the SAME problem as the original text (same bracketing of every formula).  A
disagreement means the trusted reader does not implement the TPTP grammar and is reported as a
violation (of the check's own trusted base)."""
import os
import subprocess
import sys
import tempfile

sys.path.insert(0, os.path.join(os.path.dirname(os.path.abspath(__file__)), "..", "bin"))
import vlib


def unquote(sx):
    """first quoted string of an s-expression -> python str"""
    i = sx.find('"')
    if i < 0:
        return None
    out = []
    i += 1
    while i < len(sx) and sx[i] != '"':
        if sx[i] == "\\":
            if sx[i + 1] == "x":
                out.append(chr(int(sx[i + 2:i + 4], 16)))
                i += 4
                continue
            out.append(sx[i + 1])
            i += 2
            continue
        out.append(sx[i])
        i += 1
    return "".join(out)


def quote(s):
    out = ['"']
    for ch in s:
        if ch in '"\\':
            out.append("\\" + ch)
        elif ord(ch) < 32 or ord(ch) > 126:
            out.append("\\x%02x" % ord(ch))
        else:
            out.append(ch)
    out.append('"')
    return "".join(out)


def extra(ctx, cfg, results):
    exe = os.path.join(vlib.REPO, "tests", "examples", "tptp4X_linux")
    if not os.access(exe, os.X_OK):
        ctx.notes.append("tptp4X not available: reader not cross-validated in this run")
        return
    n = 1500 if ctx.tier == "thorough" else 300
    lines = vlib.generate("problem_emit", ctx.seed + 17, n)
    impl = vlib.run_lines(vlib.HARNESS_EXE, lines)
    strict = vlib.run_lines(vlib.DRIVER_EXE, [f"sem_problem_wt_strict\t({l.split(chr(9), 1)[1]} {o})" for l, o in zip(lines, impl)])
    pairs = []
    checked = 0
    with tempfile.TemporaryDirectory(dir=vlib.WORK) as tmp:
        for k, (o, s) in enumerate(zip(impl, strict)):
            if not s.startswith("(ok") or s == "(ok 0)":
                continue
            text = unquote(o)
            if text is None:
                continue
            path = os.path.join(tmp, f"p{k}.p")
            with open(path, "w") as f:
                f.write(text)
            p = subprocess.run([exe, "-f", "tptp", path], stdout=subprocess.PIPE, stderr=subprocess.STDOUT, text=True, timeout=60)
            checked += 1
            if p.returncode != 0 or "ERROR" in p.stdout:
                ctx.violation("tptp4X rejects an emitted problem that the specification reader and type checker accept",
                              {"kind": "custom-tptp4x", "input": lines[k].split("\t", 1)[1], "text": text, "tptp4X": p.stdout[-1500:]}, True)
                return
            pairs.append((k, text, p.stdout))
    outs = vlib.run_lines(vlib.DRIVER_EXE, [f"same_reading\t({quote(t)} {quote(r)})" for _, t, r in pairs])
    for (k, t, r), o in zip(pairs, outs):
        if not o.startswith("(ok"):
            ctx.violation("the specification reader tff_read and tptp4X bracket an emitted problem differently",
                          {"kind": "custom-tptp4x", "input": lines[k].split("\t", 1)[1], "text": t, "tptp4X_reprint": r[-3000:], "driver": o}, True)
            return
    ctx.sem_evaluations += checked
    ctx.notes.append(f"tptp4X accepted {checked} emitted problems; tff_read reads tptp4X's re-print of each as the same problem")
    vlib.log(f"tptp4X cross-validation of the reader: {checked} emitted problems, all accepted and read identically")


def replay(ctx, cfg, r):
    extra(ctx, cfg, {})
    if ctx.violations:
        print(f"VIOLATION property={ctx.prop} replay=(re-evaluated) reader and tptp4X still disagree")
        sys.exit(1)
    print("replay: no longer fails")
    sys.exit(0)
