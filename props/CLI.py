"""CLI glue -- the end-to-end text model `Cli.run_cli` (coq/theories/Model/Cli.v) against the REAL BINARY.

A case is `(<command> "input text")` (op `cli_run`): the implementation side writes the text to a
scratch file and runs `anthem <sub-command> <options> <file>` (harness/src/ops/cliglue.rs; the binary
is built from $ANTHEM_REPO into <framework>/work by props/clilib.py), the model side is the
extracted `run_cli`; the answers `(stdout "<bytes>") | (error <status>) | (panic)` must be equal.

Cases: the fixed corpus (corpus/cli_run.txt: crash classes F3a / F11, parse errors, one witness per
pair of option values), the shipped examples of $ANTHEM_REPO/res/examples (every .lp / .spec / .po /
.ug under every command that reads that kind of file, and the tau* theory of every example program
under gamma / completion / the nine simplify combinations), and generated texts (printed random
trees of every generator of the framework, the text fuzzers, mutated texts).

Configuration keys (props/CLI.json and the part configurations props/C??cli.json):
  "commands": ["parse", "translate", "simplify", "analyze"]   families to run (default: all four)
  "runs": {"quick": n, "thorough": n}                          generated cases (split over the families)
  "examples": "all" | n                                        example cases (n: a seeded sample)
  "only": ["parse program", ...]                               optional: keep only commands with one of these prefixes

A disagreement is a VIOLATION whose replay file carries the argument vector and the input text
(`bin/check CLI --replay <file>` re-runs both sides).  Recorded crash classes (F3a, F11) are modelled:
both sides answer `(panic)`, which is agreement, not a report.
"""
import json
import os
import random
import sys

sys.path.insert(0, os.path.dirname(os.path.abspath(__file__)))
import clilib
from clilib import vlib, log, bump

FAMILIES = ["parse", "translate", "simplify", "analyze"]
WEIGHT = {"parse": 30, "translate": 30, "simplify": 28, "analyze": 12}
PORTFOLIOS = ["intuitionistic", "ht", "classic"]
STRATEGIES = ["shallow", "recursive", "fixpoint"]
TRANSLATIONS = ["tau-star", "mu", "natural", "gamma", "completion"]
PARSE_AS = ["program", "theory", "specification", "user-guide"]
PROPERTIES = ["regularity", "tightness"]


# ---------------------------------------------------------------- wire format
def sx_string(text):
    out = ['"']
    for b in text.encode("utf8"):
        if b in (0x22, 0x5C):
            out.append("\\" + chr(b))
        elif b < 32 or b > 126:
            out.append("\\x%02x" % b)
        else:
            out.append(chr(b))
    out.append('"')
    return "".join(out)


def sx_unstring(s):
    """inverse of sx_string on one quoted string -> bytes"""
    assert s[0] == '"' and s[-1] == '"', s[:40]
    out = bytearray()
    i = 1
    while i < len(s) - 1:
        c = s[i]
        if c == "\\":
            if s[i + 1] == "x":
                out.append(int(s[i + 2:i + 4], 16))
                i += 4
            else:
                out.append(ord(s[i + 1]))
                i += 2
        else:
            out.append(ord(c))
            i += 1
    return bytes(out)


def command_sexp(words):
    return "(" + " ".join(words) + ")"


def case_line(words, text):
    return f"cli_run\t({command_sexp(words)} {sx_string(text)})"


def split_case(line):
    """'cli_run\\t((simplify ht fixpoint) "text")' -> (['simplify','ht','fixpoint'], text bytes)"""
    arg = line.split("\t", 1)[1]
    close = arg.index(")")
    words = arg[2:close].split()
    return words, sx_unstring(arg[close + 2:-1])


def argv_of(words):
    fam = words[0]
    if fam == "analyze":
        return ["analyze", "--property", words[1]]
    if fam == "parse":
        return ["parse", "--as", words[1], "--output", "default"]
    if fam == "simplify":
        return ["simplify", "--portfolio", words[1], "--strategy", words[2]]
    if fam == "translate":
        return ["translate", "--with", words[1]]
    raise ValueError(words)


# ---------------------------------------------------------------- cases
def example_cases(exe, families):
    """every shipped example under every command that reads that kind of file"""
    lp, spec, ug = [], [], []
    for root, _, names in sorted(os.walk(clilib.EXAMPLES)):
        for n in sorted(names):
            p = os.path.join(root, n)
            if n.endswith(".lp"):
                lp.append(p)
            elif n.endswith(".spec") or n.endswith(".po"):
                spec.append(p)
            elif n.endswith(".ug"):
                ug.append(p)

    def read(p):
        try:
            return open(p, encoding="utf8").read()
        except (OSError, UnicodeDecodeError):
            return None

    cases = []
    theories = []
    if "translate" in families or "simplify" in families or "parse" in families:
        # theory inputs: what the binary under test prints for `translate --with tau-star` (only an
        # input text: both sides read it again)
        outs = clilib.pmap(lambda p: clilib.run([exe, "translate", "--with", "tau-star", p]), lp)
        for p, rr in zip(lp, outs):
            if rr.rc == 0 and rr.out.strip():
                try:
                    theories.append((p, rr.out.decode("utf8")))
                except UnicodeDecodeError:
                    pass
    for p in lp:
        t = read(p)
        if t is None:
            continue
        if "parse" in families:
            cases.append((["parse", "program"], t, p))
        if "translate" in families:
            for w in ["tau-star", "mu", "natural"]:
                cases.append((["translate", w], t, p))
        if "analyze" in families:
            for w in PROPERTIES:
                cases.append((["analyze", w], t, p))
    for p in spec:
        t = read(p)
        if t is not None and "parse" in families:
            cases.append((["parse", "specification"], t, p))
    for p in ug:
        t = read(p)
        if t is not None and "parse" in families:
            cases.append((["parse", "user-guide"], t, p))
    for p, t in theories:
        src = p + " (tau-star)"
        if "parse" in families:
            cases.append((["parse", "theory"], t, src))
        if "translate" in families:
            cases.append((["translate", "gamma"], t, src))
            cases.append((["translate", "completion"], t, src))
        if "simplify" in families:
            for pf in PORTFOLIOS:
                for st in STRATEGIES:
                    cases.append((["simplify", pf, st], t, src))
    return cases


def neighbours(words):
    """the commands a slip in procedures.rs / arguments.rs could run instead"""
    fam = words[0]
    if fam == "analyze":
        return [["analyze", w] for w in PROPERTIES if w != words[1]]
    if fam == "parse":
        return [["parse", w] for w in PARSE_AS if w != words[1]]
    if fam == "translate":
        return [["translate", w] for w in TRANSLATIONS if w != words[1]]
    out = []
    for pf in PORTFOLIOS:
        if pf != words[1]:
            out.append(["simplify", pf, words[2]])
    for st in STRATEGIES:
        if st != words[2]:
            out.append(["simplify", words[1], st])
    return out


def run_both(lines, exe, scratch):
    env = {"ANTHEM_CLI_EXE": exe, "ANTHEM_CLI_SCRATCH": scratch, "RUST_BACKTRACE": "0"}
    impl = vlib.run_lines(vlib.HARNESS_EXE, lines, env=env)
    model = vlib.run_lines(vlib.DRIVER_EXE, lines)
    return impl, model


def shrink_text(words, text, exe, scratch, rounds=6):
    """greedy chunk removal (lines, then `.`-separated statements) while the two sides still differ"""
    def differs(cands):
        ls = [case_line(words, c) for c in cands]
        im, mo = run_both(ls, exe, scratch)
        return [a != b and not a.startswith("(harness-error") and not b.startswith("(driver-error") for a, b in zip(im, mo)]

    for sep in ("\n", "."):
        for _ in range(rounds):
            parts = text.split(sep)
            if len(parts) < 2 or len(parts) > 400:
                break
            cands = [sep.join(parts[:i] + parts[i + 1:]) for i in range(len(parts))]
            ok = differs(cands)
            smaller = [c for c, o in zip(cands, ok) if o]
            if not smaller:
                break
            text = min(smaller, key=len)
    return text


def kind_of(out):
    return out.split(" ", 1)[0].strip("()") if out.startswith("(") else "atom"


# ---------------------------------------------------------------- the check
def extra(ctx, cfg, results):
    families = [f for f in cfg.get("commands", FAMILIES)]
    for f in families:
        if f not in FAMILIES:
            raise vlib.Broken(f"props: unknown command family {f!r} in the configuration")
    runs = cfg.get("runs", {"quick": 1500, "thorough": 30000})
    n_gen = runs.get(ctx.tier, runs.get("quick", 1500))
    only = cfg.get("only")

    def wanted(words):
        key = " ".join(words) + " "
        return only is None or any(key.startswith(o.strip() + " ") for o in only)
    exe = clilib.anthem_exe()
    r = clilib.rng(ctx, "cli")
    dist = {"by_command": {}, "sources": {}, "agreeing_panics": 0}
    with clilib.Scratch("CLI-" + ctx.prop) as scratch:
        # --- cases
        lines, source = [], []
        for ln in vlib.corpus_lines(["cli_run"]):
            words, _ = split_case(ln)
            if words[0] in families and wanted(words):
                lines.append(ln)
                source.append("corpus")
        ex = [c for c in example_cases(exe, families) if wanted(c[0])]
        want = cfg.get("examples", "all")
        if want != "all" and len(ex) > int(want):
            ex = r.sample(ex, int(want))
        for words, text, src in ex:
            lines.append(case_line(words, text))
            source.append("example:" + os.path.relpath(src.split(" ")[0], clilib.EXAMPLES))
        total_w = sum(WEIGHT[f] for f in families)
        for f in families:
            n = max(1, n_gen * WEIGHT[f] // total_w)
            got = 0
            # with an `only` filter: generate more and keep the first n that pass
            for ln in vlib.generate("cli_gen_" + f, ctx.seed, n if only is None else 8 * n):
                ln = "cli_run\t" + ln.split("\t", 1)[1]
                if got < n and wanted(split_case(ln)[0]):
                    lines.append(ln)
                    source.append("generated")
                    got += 1
        # --- both sides
        impl, model = run_both(lines, exe, scratch)
        ctx.evaluations += len(lines)
        mism = []
        for i, (ln, a, b) in enumerate(zip(lines, impl, model)):
            words, _ = split_case(ln)
            key = " ".join(words)
            d = dist["by_command"].setdefault(key, {})
            bump(d, kind_of(a))
            bump(dist["sources"], source[i].split(":")[0])
            if a != b:
                mism.append(i)
            elif a == "(panic)":
                dist["agreeing_panics"] += 1
            if a.startswith("(stdout") and a != '(stdout "")':
                ctx.nontrivial.add(ln)
        log(f"CLI glue [{','.join(families)}]: {len(lines)} command lines ({dist['sources']}), {len(mism)} disagreements, "
            f"{dist['agreeing_panics']} agreeing panics")
        # --- sensitivity: on how many cases would running a NEIGHBOUR command have been noticed?
        sens_lines, owner = [], []
        for i, ln in enumerate(lines):
            words, text = split_case(ln)
            arg_text = ln.split("\t", 1)[1]
            close = arg_text.index(")")
            for nb in neighbours(words):
                sens_lines.append("cli_run\t(" + command_sexp(nb) + arg_text[close + 1:])
                owner.append((i, " ".join(words) + " -> " + " ".join(nb)))
        sens_out = vlib.run_lines(vlib.DRIVER_EXE, sens_lines)
        sens = {}
        for (i, key), o in zip(owner, sens_out):
            d = sens.setdefault(key, [0, 0])
            d[1] += 1
            if o != model[i]:
                d[0] += 1
        blind = sorted(k for k, (hit, n) in sens.items() if hit == 0)
        # `simplify ht` and `simplify intuitionistic` are the same function (HT = []): not a blind spot
        # and every specification is a user guide (annotated formulas are user-guide entries, printed alike)
        blind = [k for k in blind if not (("simplify ht" in k and "simplify intuitionistic" in k))
                 and k != "parse specification -> parse user-guide"]
        dist["cases_that_distinguish_a_neighbour_command"] = {k: f"{h}/{n}" for k, (h, n) in sorted(sens.items())}
        if blind:
            ctx.notes.append("no case of this run distinguishes: " + "; ".join(blind))
            log("CLI glue: no case distinguishes " + "; ".join(blind))
        # --- disagreements
        bad_tool = [i for i in mism if impl[i].startswith("(harness-error") or model[i].startswith("(driver-error")]
        if bad_tool:
            i = bad_tool[0]
            ctx.violation("the CLI correspondence could not run a case",
                          {"kind": "custom-cli", "case": lines[i], "implementation": impl[i], "model": model[i]}, False)
        real = sorted((i for i in mism if i not in set(bad_tool)), key=lambda i: len(lines[i]))
        reported = set()
        for i in real:
            words, text_b = split_case(lines[i])
            key = " ".join(words)
            if key in reported or len(reported) >= 3:
                continue
            reported.add(key)
            text = text_b.decode("utf8", errors="replace")
            small = shrink_text(words, text, exe, scratch)
            im, mo = run_both([case_line(words, small)], exe, scratch)
            if im[0] == mo[0]:
                small, im, mo = text, [impl[i]], [model[i]]
            what = (f"`anthem {' '.join(argv_of(words))} <file>` does not behave as the composition of the verified functions "
                    f"(implementation {kind_of(im[0])}, model {kind_of(mo[0])})")
            ctx.violation(what, {"kind": "custom-cli", "argv": argv_of(words), "command": words, "input_text": small,
                                 "implementation": im[0][:4000], "model": mo[0][:4000], "source": source[i],
                                 "disagreements_in_this_run": len(real), "unshrunk_input_text": text[:4000] if small != text else None,
                                 "replay_cmd": "bin/check CLI --replay <this file>",
                                 "broken_tie": "op cli_run (Model/Cli.v run_cli vs the anthem binary built from the working tree)"}, True)
    ctx.distribution["cli_glue:" + ",".join(families)] = dist
    for i in range(min(2, len(lines))):
        ctx.samples.append({"op": "cli_run", "input": lines[i].split("\t", 1)[1][:400], "implementation": impl[i][:400], "model": model[i][:400]})


def replay(ctx, cfg, r):
    if r.get("kind") == "custom-cli-verify":
        # a replay file of the part CLIverify (`anthem verify`)
        import CLIverify
        return CLIverify.replay(ctx, cfg, r)
    print(json.dumps({k: v for k, v in r.items() if k not in ("unshrunk_input_text",)}, indent=1)[:6000])
    if "command" not in r:
        print(f"VIOLATION property={ctx.prop} replay=(recorded)")
        sys.exit(1)
    exe = clilib.anthem_exe()
    with clilib.Scratch("CLI-replay") as scratch:
        im, mo = run_both([case_line(r["command"], r["input_text"])], exe, scratch)
    print("command line:    anthem " + " ".join(r["argv"]) + " <file with the input text>")
    print("implementation: ", im[0][:3000])
    print("model:          ", mo[0][:3000])
    if im[0] != mo[0]:
        print(f"VIOLATION property={ctx.prop} replay=(re-run)")
        sys.exit(1)
    print("replay: the two sides agree now")
    sys.exit(0)
