"""C12 property-specific steps.

search_on_break: when the Coq side no longer builds (typically: an axiom of the preamble was edited
and PreambleOk.v fails), evaluate every axiom of the CURRENT standard_interpretation.p in the
standard structure over a finite window and report the first falsifying tuple as the failing input.
If the preamble is fine, the semantic oracles run on fresh implementation outputs (oracle_search).

extra (every run): the preamble axioms evaluated directly, the text-level theorems, the distribution of
the chain_emit cases over the renaming classes, and the task-level chain check (chain_external +
sem_chain_task: `c. q :- c, x R y.` vs `c. q.` through the real external-equivalence task)."""
import itertools
import os
import sys

sys.path.insert(0, os.path.join(os.path.dirname(os.path.abspath(__file__)), "..", "tools"))
sys.path.insert(0, os.path.join(os.path.dirname(os.path.abspath(__file__)), "..", "bin"))
import preamble2coq as p2c
import vlib

INTS = [-2, -1, 0, 1, 2]
SYMS = ["", "a", "aB", "b"]
GENERAL = [("inf",)] + [("num", n) for n in INTS] + [("sym", s) for s in SYMS] + [("sup",)]
DOM = {"$int": INTS, "symbol": SYMS, "general": GENERAL}


def rank(g):
    return {"inf": 0, "num": 1, "sym": 2, "sup": 3}[g[0]]


def gle(a, b):
    if rank(a) != rank(b):
        return rank(a) < rank(b)
    if a[0] == "num":
        return a[1] <= b[1]
    if a[0] == "sym":
        return a[1].encode() <= b[1].encode()
    return True


def term(env, t):
    if t[0] == "num":
        return t[1]
    if t[0] == "var":
        return env[t[1]]
    f, args = t[1], [term(env, a) for a in t[2]]
    if f == "f__integer__":
        return ("num", args[0])
    if f == "f__symbolic__":
        return ("sym", args[0])
    if f == "c__infimum__":
        return ("inf",)
    if f == "c__supremum__":
        return ("sup",)
    if f == "$sum":
        return args[0] + args[1]
    if f == "$difference":
        return args[0] - args[1]
    if f == "$product":
        return args[0] * args[1]
    if f == "$uminus":
        return -args[0]
    raise p2c.Bad(f"no standard meaning for functor {f}")


def holds(env, f):
    k = f[0]
    if k == "pred":
        p, a = f[1], [term(env, x) for x in f[2]]
        if p == "$true":
            return True
        if p == "$false":
            return False
        if p == "$less":
            return a[0] < a[1]
        if p == "$lesseq":
            return a[0] <= a[1]
        if p == "$greater":
            return a[0] > a[1]
        if p == "$greatereq":
            return a[0] >= a[1]
        if p == "p__is_integer__":
            return a[0][0] == "num"
        if p == "p__is_symbolic__":
            return a[0][0] == "sym"
        if p == "p__less_equal__":
            return gle(a[0], a[1])
        if p == "p__less__":
            return gle(a[0], a[1]) and a[0] != a[1]
        if p == "p__greater_equal__":
            return gle(a[1], a[0])
        if p == "p__greater__":
            return gle(a[1], a[0]) and a[0] != a[1]
        raise p2c.Bad(f"no standard meaning for predicate {p}")
    if k == "eq":
        return term(env, f[1]) == term(env, f[2])
    if k == "neq":
        return term(env, f[1]) != term(env, f[2])
    if k == "not":
        return not holds(env, f[1])
    if k == "and":
        return holds(env, f[1]) and holds(env, f[2])
    if k == "or":
        return holds(env, f[1]) or holds(env, f[2])
    if k == "imp":
        return (not holds(env, f[1])) or holds(env, f[2])
    if k == "rimp":
        return (not holds(env, f[2])) or holds(env, f[1])
    if k == "iff":
        return holds(env, f[1]) == holds(env, f[2])
    if k in ("forall", "exists"):
        names = [x for x, _ in f[1]]
        doms = [DOM[ty] for _, ty in f[1]]
        results = (holds({**env, **dict(zip(names, vals))}, f[2]) for vals in itertools.product(*doms))
        return all(results) if k == "forall" else any(results)
    raise p2c.Bad(f"unknown node {k}")


def falsifying_tuple(f):
    """for a universally quantified axiom: the first assignment of the outer block that falsifies the body"""
    if f[0] == "forall":
        names = [x for x, _ in f[1]]
        for vals in itertools.product(*[DOM[ty] for _, ty in f[1]]):
            env = dict(zip(names, vals))
            if not holds(env, f[2]):
                return env
        return None
    return None if holds({}, f) else {}


def show(v):
    if isinstance(v, tuple):
        return {"inf": "#inf", "sup": "#sup"}.get(v[0], None) or (str(v[1]) if v[0] == "num" else f"symbol {v[1]!r}")
    return repr(v)


def search_preamble(ctx):
    try:
        text = open(p2c.preamble_path()).read()
        _, _, axioms = p2c.parse_file(text)
    except (p2c.Bad, OSError) as b:
        ctx.notes.append(f"preamble not translatable: {b}")
        return False
    for name, f in axioms:
        try:
            env = falsifying_tuple(f)
        except p2c.Bad as b:
            ctx.notes.append(f"axiom {name}: {b}")
            continue
        if env is not None:
            ctx.violation(
                f"preamble axiom `{name}` is false in the standard interpretation",
                {"kind": "custom-preamble", "axiom": name,
                 "falsifying_assignment": {k: show(v) for k, v in env.items()},
                 "window": {"integers": INTS, "symbols": SYMS},
                 "source": p2c.preamble_path()}, True)
            return True
    return False


# the three preamble axioms from which, with the symbol_order chain, distinctness of constants is PROVABLE
# (premises of C12_distinct in Properties/C12.v)
DISTINCTNESS_AXIOMS = ("p__less__def_ax", "transitive_ordering_ax", "antisymmetric_ordering_ax")


def check_preamble_pin(ctx, cfg, proved=True):
    """audit B8: the regenerated preamble against the list pinned in props/C12.json (`preamble_pin`:
    names + content hashes of declarations and axioms).  Both sides of every check regenerate from
    the same file, so without the pin an edit of the preamble is silent whenever the edited axioms
    still prove.  A difference is reported as PREAMBLE-CHANGED (re-audit), not as a violation:
      - a REMOVED axiom is not a C12 violation (C12 requires the axioms anthem emits to be true; no
        property claims that the preamble is complete - C02 / C03 are soundness statements, a weaker
        preamble only makes fewer problems provable; the three axioms the provable-distinctness
        half of C12 needs are named in Properties/C12.v, so removing or weakening one of them
        breaks the build);
      - a NEW or CHANGED axiom is re-proved by C12_preamble in the same run (`proved`); when the
        build is broken instead, the caller searches for a falsifying tuple and the generic rule
        reports VIOLATION (no-failing-input-found if the search finds none)."""
    pinned = cfg.get("preamble_pin")
    if not pinned:
        return []
    try:
        _, decls, axioms = p2c.parse_file(open(p2c.preamble_path()).read())
    except (p2c.Bad, OSError) as b:
        ctx.notes.append(f"preamble pin: preamble not translatable: {b}")
        return []
    diff = p2c.compare_pin(pinned, p2c.pin_of(decls, axioms))
    if not diff:
        vlib.log(f"preamble pin: {len(decls)} declarations, {len(axioms)} axioms, unchanged")
        return []
    parts = []
    for kind, what, name in diff:
        one = what[:-1]
        if kind == "removed" and name in DISTINCTNESS_AXIOMS:
            parts.append(f"{one} {name} REMOVED (needed by C12_distinct - 'any two distinct constants are provably distinct': "
                         "Properties/C12.v names it, the build breaks)")
        elif kind == "removed":
            parts.append(f"{one} {name} REMOVED (not a C12 violation: only truth of the emitted axioms is required)")
        elif kind == "reordered":
            parts.append(f"{what} reordered")
        else:
            parts.append(f"{one} {name} {kind.upper()}" + (" (re-proved true in this run by C12_preamble / re-read by C12_preamble_text)" if proved
                                                           else " (NOT proved: the build is broken; searching for a falsifying tuple)"))
    line = ("PREAMBLE-CHANGED property=C12: standard_interpretation.p differs from the pinned preamble - re-audit and update "
            "props/C12.json preamble_pin (`python3 tools/preamble2coq.py --pin`): " + "; ".join(parts))
    print(line, flush=True)
    ctx.notes.append(line)
    return diff


def search_on_break(ctx, cfg, broken):
    """a build / proof obligation broke: (1) a falsifying tuple of the current preamble; (2) the
    semantic oracles on fresh implementation outputs (chain for the original constants, chain for the
    printed names, transition axioms, task level); (3) CLI only, when the harness does not build"""
    check_preamble_pin(ctx, cfg, proved=False)
    if search_preamble(ctx):
        return True
    before = len(ctx.violations)
    try:
        vlib.build_harness()
    except vlib.Broken:
        cli_search(ctx, cfg)
        return any(f for _, _, f in ctx.violations[before:])
    if not os.path.exists(vlib.DRIVER_EXE):
        return False
    return oracle_search(ctx, cfg)


# ------------------------------------------------------------------ the chain, for the ORIGINAL constants

def _arg(line):
    return line.split("\t", 1)[1]


def _applicable(out):
    return not (out.startswith("(panic") or out.startswith("(harness-error") or out.startswith("(process-died"))


def chain_distribution(ctx, results):
    """which share of the chain_emit cases has a clash, and on which side of the F8c class boundary
    (driver op chain_kind = the extracted rename_monotoneb) - printed into the evidence"""
    if "chain_emit" not in results:
        return
    lines = results["chain_emit"][0]
    kinds = vlib.run_lines(vlib.DRIVER_EXE, ["chain_kind\t" + _arg(l) for l in lines])
    hist = {}
    for k in kinds:
        hist[k] = hist.get(k, 0) + 1
    ctx.distribution.setdefault("chain_emit", {})["renaming_class"] = hist
    vlib.log("chain_emit cases by renaming class: " + ", ".join(f"{k}={v}" for k, v in sorted(hist.items())))


def task_level(ctx, cfg, count=None):
    """chain_external: small external-equivalence tasks `c. q :- c, x R y.` vs `c. q.` through the real
    ExternalEquivalenceTask::decompose + Display; sem_chain_task judges the ordering axioms of every
    emitted text for the user's constants"""
    tl = cfg.get("task_level")
    if not tl:
        return False
    n = count if count is not None else tl.get(ctx.tier, tl["quick"])
    lines = vlib.corpus_lines([tl["op"]]) + vlib.generate(tl["op"], ctx.seed, n)
    impl = vlib.run_lines(vlib.HARNESS_EXE, lines)
    idx = [i for i in range(len(lines)) if _applicable(impl[i])]
    sl = [f"{tl['sem_op']}\t({_arg(lines[i])} {impl[i]})" for i in idx]
    outs = vlib.run_lines(vlib.DRIVER_EXE, sl)
    kinds, points, judged, excused, bad = {}, 0, 0, 0, 0
    for o in impl:
        k = o.split(" ", 1)[0].strip("()")
        kinds[k] = kinds.get(k, 0) + 1
    for k, o in enumerate(outs):
        w = o.strip("()").split()
        if o.startswith("(ok"):
            points += int(w[1])
            if "problems-judged" in w:
                judged += int(w[w.index("problems-judged") + 1])
            if "excused-as-F8c" in w:
                excused += int(w[w.index("excused-as-F8c") + 1])
        elif o.startswith("(cex"):
            bad += 1
            if bad <= 2:
                i = idx[k]
                ctx.violation(f"task level: an ordering axiom of an emitted problem is wrong for the user's constants (`{tl['sem_op']}`)",
                              {"kind": "semantic", "sem_op": tl["sem_op"], "sem_input": _arg(sl[k]), "counterexample": o,
                               "op": tl["op"], "input": _arg(lines[i])}, True)
        elif o.startswith("(driver-error"):
            ctx.violation(f"semantic check `{tl['sem_op']}` could not evaluate a case",
                          {"kind": "semantic-error", "sem_op": tl["sem_op"], "sem_input": _arg(sl[k]), "error": o}, False)
            break
    ctx.sem_evaluations += len(sl)
    ctx.sem_points += points
    ctx.distribution[tl["op"]] = {"cases": len(lines), "output_kinds": kinds, "problems_judged": judged,
                                  "links_judged": points, "links_excused_as_F8c": excused,
                                  "input_size_nodes": vlib.histogram([vlib.sexp_size(_arg(x)) for x in lines])}
    vlib.log(f"task level {tl['op']}/{tl['sem_op']}: {len(lines)} tasks, {judged} problems judged, {points} links, "
             f"{excused} excused as F8c, {bad} counterexamples")
    return bad > 0


def oracle_search(ctx, cfg):
    """the semantic oracles on fresh implementation outputs (no model involved)"""
    before = len(ctx.violations)
    for s in cfg.get("sem", []):
        op = s.get("of")
        if not op:
            continue
        lines = vlib.corpus_lines([op]) + vlib.generate(op, ctx.seed, s["quick"])
        impl = vlib.run_lines(vlib.HARNESS_EXE, lines)
        idx = [i for i in range(len(lines)) if _applicable(impl[i])]
        sl = [f"{s['op']}\t({_arg(lines[i])} {impl[i]})" for i in idx]
        outs = vlib.run_lines(vlib.DRIVER_EXE, sl)
        cex = [k for k, o in enumerate(outs) if o.startswith("(cex")]
        vlib.log(f"search: {s['op']} on {len(sl)} fresh outputs of {op}: {len(cex)} counterexamples")
        if cex:
            k = min(cex, key=lambda k: len(sl[k]))
            ctx.violation(f"semantic check `{s['op']}` found a counterexample on the implementation's output",
                          {"kind": "semantic", "sem_op": s["op"], "sem_input": _arg(sl[k]), "counterexample": outs[k],
                           "op": op, "input": _arg(lines[idx[k]])}, True)
    task_level(ctx, cfg)
    return any(f for _, _, f in ctx.violations[before:])


# ------------------------------------------------------------------ CLI only (the harness does not build)

# (clashing atom/constant c, x, relation, y): every comparison is TRUE in the standard order; all
# outside the recorded class F8c (no constant d with c < d <= c__s)
CLI_TASKS = [("a", "a", "lt", "b"), ("a", "a", "lt", "m"), ("a", "a", "lt", "sa"), ("m", "b", "lt", "m"),
             ("t", "s", "lt", "t"), ("s", "s", "lt", "s__z"), ("b", "b", "lt", "t"), ("p", "p", "lt", "z")]
REL_TEXT = {"lt": "<", "le": "<=", "gt": ">", "ge": ">=", "eq": "=", "ne": "!="}


def sx_string(text):
    out = ['"']
    for b in text.encode():
        if b in (0x22, 0x5c):
            out.append("\\" + chr(b))
        elif 32 <= b <= 126:
            out.append(chr(b))
        else:
            out.append("\\x%02x" % b)
    out.append('"')
    return "".join(out)


def cli_task_sexp(c, x, rel, y):
    return (f'(external (spec-program (program (rule (basic ("{c}")) ()) (rule (basic ("q")) ((pos ("{c}")) (cmp {rel} (sy "{x}") (sy "{y}")))))) '
            f'(program (rule (basic ("{c}")) ()) (rule (basic ("q")) ())) (ug (output ("q" 0)) (output ("{c}" 0))) (spec) '
            f'independent universal tau-star false true false)')


def cli_run_task(exe, scratch, k, c, x, rel, y):
    d = os.path.join(scratch, f"t{k}")
    os.makedirs(os.path.join(d, "out"))
    clilib.write(os.path.join(d, "prog.1.lp"), f"{c}.\nq :- {c}, {x} {REL_TEXT[rel]} {y}.\n".encode())
    clilib.write(os.path.join(d, "prog.2.lp"), f"{c}.\nq.\n".encode())
    clilib.write(os.path.join(d, "guide.ug"), f"output: q/0.\noutput: {c}/0.\n".encode())
    r = clilib.run([exe, "verify", "--equivalence", "external", "--no-proof-search", "--save-problems", os.path.join(d, "out"),
                    os.path.join(d, "prog.1.lp"), os.path.join(d, "prog.2.lp"), os.path.join(d, "guide.ug")], timeout=20.0)
    texts = [open(os.path.join(d, "out", f), encoding="utf8", errors="replace").read() for f in sorted(os.listdir(os.path.join(d, "out")))]
    return r, texts


def cli_search(ctx, cfg):
    """the fixed tasks through the anthem CLI of the tree (`verify --save-problems`), judged by sem_chain_task"""
    global clilib
    import clilib
    if not os.path.exists(vlib.DRIVER_EXE):
        ctx.notes.append("cli_search: no model driver from an earlier build")
        return
    exe = clilib.anthem_exe()
    with clilib.Scratch("C12") as scratch:
        sl, cmds = [], []
        for k, (c, x, rel, y) in enumerate(CLI_TASKS):
            r, texts = cli_run_task(exe, scratch, k, c, x, rel, y)
            if not texts:
                continue
            sl.append(f"sem_chain_task\t({cli_task_sexp(c, x, rel, y)} (ok {' '.join(sx_string(t) for t in texts)}))")
            cmds.append({"prog.1.lp": f"{c}. q :- {c}, {x} {REL_TEXT[rel]} {y}.", "prog.2.lp": f"{c}. q.", "guide.ug": f"output: q/0. output: {c}/0.",
                         "command": "anthem verify --equivalence external --no-proof-search --save-problems out prog.1.lp prog.2.lp guide.ug"})
    outs = vlib.run_lines(vlib.DRIVER_EXE, sl)
    bad = [k for k, o in enumerate(outs) if o.startswith("(cex")]
    vlib.log(f"cli search: {len(sl)} fixed tasks through the CLI, {len(bad)} counterexamples")
    for k in bad[:1]:
        ctx.violation("CLI: an ordering axiom of a saved problem is wrong for the user's constants (`sem_chain_task`)",
                      {"kind": "semantic", "sem_op": "sem_chain_task", "sem_input": _arg(sl[k]), "counterexample": outs[k],
                       "files": cmds[k]}, True)


def check_text_level(ctx):
    """Properties/C12text.v (TFF level): the preamble bytes, read in Coq by the specification reader
    Model/TffText.v, are exactly the generated declaration/axiom lists, and every emitted problem
    starts with them.  A failure (e.g. the translator mis-parses an edited preamble) raises Broken."""
    import vlib
    vlib.build_coq(["theories/Properties/C12text.vo"])
    ths = vlib.check_property_file("Properties/C12text.v")
    print(f"[check] {len(ths)} text-level theorems re-checked (Properties/C12text.v); axioms: " +
          (", ".join(sorted({a for t in ths for a in t['axioms']})) or "none"), flush=True)
    ctx.samples[:0] = [{"theorem": t["theorem"], "statement": t["statement"][:700], "axioms": t["axioms"]} for t in ths]


def extra(ctx, cfg, results):
    # the axioms of the working tree's preamble, evaluated directly as well (cheap, independent of Coq)
    search_preamble(ctx)
    check_text_level(ctx)
    check_preamble_pin(ctx, cfg, proved=True)
    chain_distribution(ctx, results)
    task_level(ctx, cfg)


def replay(ctx, cfg, r):
    found = search_preamble(ctx)
    if found:
        print(f"VIOLATION property={ctx.prop} replay=(re-evaluated) axiom still false")
        sys.exit(1)
    print("replay: no longer fails")
    sys.exit(0)
