"""C12 property-specific steps.

search_on_break: when the Coq side no longer builds (typically: an axiom of the preamble was edited
and PreambleOk.v fails), evaluate every axiom of the CURRENT standard_interpretation.p in the
standard structure over a finite window and report the first falsifying tuple as the failing input.
If the preamble is fine, fall back to the generic search (semantic ops on fresh outputs)."""
import itertools
import os
import sys

sys.path.insert(0, os.path.join(os.path.dirname(os.path.abspath(__file__)), "..", "tools"))
sys.path.insert(0, os.path.join(os.path.dirname(os.path.abspath(__file__)), "..", "bin"))
import preamble2coq as p2c

INTS = [-2, -1, 0, 1, 2]
SYMS = ["", "a", "aB", "b"]
GENERAL = [("inf",)] + [("num", n) for n in INTS] + [("sym", s) for s in SYMS] + [("sup",)]
DOM = {"$int": INTS, "symbol": SYMS, "general": GENERAL}


def rank(g):
    return {"inf": 0, "num": 1, "sym": 2, "sup": 3}[g[0]]


def gle(a, b):
    if rank(a) != rank(b):
        return rank(a) < rank(b)
    if a[0] == "num":
        return a[1] <= b[1]
    if a[0] == "sym":
        return a[1].encode() <= b[1].encode()
    return True


def term(env, t):
    if t[0] == "num":
        return t[1]
    if t[0] == "var":
        return env[t[1]]
    f, args = t[1], [term(env, a) for a in t[2]]
    if f == "f__integer__":
        return ("num", args[0])
    if f == "f__symbolic__":
        return ("sym", args[0])
    if f == "c__infimum__":
        return ("inf",)
    if f == "c__supremum__":
        return ("sup",)
    if f == "$sum":
        return args[0] + args[1]
    if f == "$difference":
        return args[0] - args[1]
    if f == "$product":
        return args[0] * args[1]
    if f == "$uminus":
        return -args[0]
    raise p2c.Bad(f"no standard meaning for functor {f}")


def holds(env, f):
    k = f[0]
    if k == "pred":
        p, a = f[1], [term(env, x) for x in f[2]]
        if p == "$true":
            return True
        if p == "$false":
            return False
        if p == "$less":
            return a[0] < a[1]
        if p == "$lesseq":
            return a[0] <= a[1]
        if p == "$greater":
            return a[0] > a[1]
        if p == "$greatereq":
            return a[0] >= a[1]
        if p == "p__is_integer__":
            return a[0][0] == "num"
        if p == "p__is_symbolic__":
            return a[0][0] == "sym"
        if p == "p__less_equal__":
            return gle(a[0], a[1])
        if p == "p__less__":
            return gle(a[0], a[1]) and a[0] != a[1]
        if p == "p__greater_equal__":
            return gle(a[1], a[0])
        if p == "p__greater__":
            return gle(a[1], a[0]) and a[0] != a[1]
        raise p2c.Bad(f"no standard meaning for predicate {p}")
    if k == "eq":
        return term(env, f[1]) == term(env, f[2])
    if k == "neq":
        return term(env, f[1]) != term(env, f[2])
    if k == "not":
        return not holds(env, f[1])
    if k == "and":
        return holds(env, f[1]) and holds(env, f[2])
    if k == "or":
        return holds(env, f[1]) or holds(env, f[2])
    if k == "imp":
        return (not holds(env, f[1])) or holds(env, f[2])
    if k == "rimp":
        return (not holds(env, f[2])) or holds(env, f[1])
    if k == "iff":
        return holds(env, f[1]) == holds(env, f[2])
    if k in ("forall", "exists"):
        names = [x for x, _ in f[1]]
        doms = [DOM[ty] for _, ty in f[1]]
        results = (holds({**env, **dict(zip(names, vals))}, f[2]) for vals in itertools.product(*doms))
        return all(results) if k == "forall" else any(results)
    raise p2c.Bad(f"unknown node {k}")


def falsifying_tuple(f):
    """for a universally quantified axiom: the first assignment of the outer block that falsifies the body"""
    if f[0] == "forall":
        names = [x for x, _ in f[1]]
        for vals in itertools.product(*[DOM[ty] for _, ty in f[1]]):
            env = dict(zip(names, vals))
            if not holds(env, f[2]):
                return env
        return None
    return None if holds({}, f) else {}


def show(v):
    if isinstance(v, tuple):
        return {"inf": "#inf", "sup": "#sup"}.get(v[0], None) or (str(v[1]) if v[0] == "num" else f"symbol {v[1]!r}")
    return repr(v)


def search_preamble(ctx):
    try:
        text = open(p2c.preamble_path()).read()
        _, _, axioms = p2c.parse_file(text)
    except (p2c.Bad, OSError) as b:
        ctx.notes.append(f"preamble not translatable: {b}")
        return False
    for name, f in axioms:
        try:
            env = falsifying_tuple(f)
        except p2c.Bad as b:
            ctx.notes.append(f"axiom {name}: {b}")
            continue
        if env is not None:
            ctx.violation(
                f"preamble axiom `{name}` is false in the standard interpretation",
                {"kind": "custom-preamble", "axiom": name,
                 "falsifying_assignment": {k: show(v) for k, v in env.items()},
                 "window": {"integers": INTS, "symbols": SYMS},
                 "source": p2c.preamble_path()}, True)
            return True
    return False


def search_on_break(ctx, cfg, broken):
    if search_preamble(ctx):
        return True
    import importlib.util
    spec = importlib.util.spec_from_file_location("check_main", os.path.join(os.path.dirname(os.path.abspath(__file__)), "..", "bin", "check"))
    return False


def check_text_level(ctx):
    """Properties/C12text.v (TFF level): the preamble bytes, read in Coq by the specification reader
    Model/TffText.v, are exactly the generated declaration/axiom lists, and every emitted problem
    starts with them.  A failure (e.g. the translator mis-parses an edited preamble) raises Broken."""
    import vlib
    vlib.build_coq(["theories/Properties/C12text.vo"])
    ths = vlib.check_property_file("Properties/C12text.v")
    print(f"[check] {len(ths)} text-level theorems re-checked (Properties/C12text.v); axioms: " +
          (", ".join(sorted({a for t in ths for a in t['axioms']})) or "none"), flush=True)
    ctx.samples[:0] = [{"theorem": t["theorem"], "statement": t["statement"][:700], "axioms": t["axioms"]} for t in ths]


def extra(ctx, cfg, results):
    # the axioms of the working tree's preamble, evaluated directly as well (cheap, independent of Coq)
    search_preamble(ctx)
    check_text_level(ctx)


def replay(ctx, cfg, r):
    found = search_preamble(ctx)
    if found:
        print(f"VIOLATION property={ctx.prop} replay=(re-evaluated) axiom still false")
        sys.exit(1)
    print("replay: no longer fails")
    sys.exit(0)
