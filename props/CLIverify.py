"""CLIverify -- `anthem verify` end to end (audit finding B6): the extracted model
`CliVerify.run_verify_tree` (coq/theories/Model/CliVerify.v: the verify arm of procedures::main, the
clap defaults, Files::sort roles, the task structs, `<dir>/<name>.p` = Display of each problem) against
the REAL BINARY run as

    anthem verify --equivalence E [--decomposition D] [--direction R] [--formula-representation F]
                  [--bypass-tightness] [--no-simplify] [--no-eq-break] --no-proof-search
                  [--save-problems <dir>] <path>..

in a scratch directory that contains the input trees (op `cli_verify`, harness/src/ops/cliverify.rs,
ocaml/driver/ops_cliverify.ml).  Compared: exit status class, the kinds of the warnings printed, and the
sorted list of (file name, bytes) below <dir> -- byte for byte.

Cases: corpus/cli_verify.txt, the shipped examples (every `verify` line of res/examples/**/.tests with
the files it names, each also with the example directory as the only argument, under flag variants),
generated cases (the task generators of the framework printed into files; names, nesting and argument
order decide the roles), and -- `"flag_families": true` -- every generated case under all 8 combinations
of --no-simplify, --no-eq-break, --decomposition.

Configuration keys: "runs": {"quick": n, "thorough": n} generated base cases, "examples": true|false,
"flag_families": true|false, "gen_op": "cli_verify" | "cli_verify_strong" | "cli_verify_external".

Sensitivity (evidence: input_distribution.cli_verify.cases_that_expose_a_slip): for every slip of
procedures.rs that the model can express (a flag inverted / ignored, the decomposition swapped, the
direction replaced, the representation swapped, the other equivalence, the files taken in reverse
order) the number of cases of the run on which the model's answer changes, i.e. that expose the slip.

A disagreement is a VIOLATION whose replay file carries the argument vector, the input files and both
answers (`bin/check CLIverify --replay <file>` re-runs both sides; works for the C19 part files too).
Cases on which the MODEL runs out of fuel (classic fixpoint loop beyond 64 passes, parser model bound)
are counted and skipped: the binary has no such bound (never observed on generated cases).
"""
import json
import os
import shlex
import sys

sys.path.insert(0, os.path.dirname(os.path.abspath(__file__)))
import clilib
from clilib import vlib, log, bump

OP = "cli_verify"
VARIANTS = ["no-simplify", "no-eq-break", "decomposition", "bypass", "direction-universal", "direction-forward",
            "direction-backward", "repr", "equivalence", "files-reversed"]


# ---------------------------------------------------------------- wire format
def sx_string(text):
    out = ['"']
    for b in text.encode("utf8"):
        if b in (0x22, 0x5C):
            out.append("\\" + chr(b))
        elif b < 32 or b > 126:
            out.append("\\x%02x" % b)
        else:
            out.append(chr(b))
    out.append('"')
    return "".join(out)


def sx_unstring(s):
    assert s[0] == '"' and s[-1] == '"', s[:40]
    out = bytearray()
    i = 1
    while i < len(s) - 1:
        c = s[i]
        if c == "\\":
            if s[i + 1] == "x":
                out.append(int(s[i + 2:i + 4], 16))
                i += 4
            else:
                out.append(ord(s[i + 1]))
                i += 2
        else:
            out.append(ord(c))
            i += 1
    return out.decode("utf8", errors="replace")


def case_of(e):
    """parsed S-expression of a case -> dict"""
    assert e[0] == "verify", e[0]
    d = {}
    for item in e[1:]:
        d[item[0]] = item[1:]
    val = lambda k: d[k][0]
    return {
        "equivalence": val("equivalence"),
        "decomposition": None if val("decomposition") == "none" else val("decomposition"),
        "direction": None if val("direction") == "none" else val("direction"),
        "repr": None if val("repr") == "none" else val("repr"),
        "bypass": val("bypass") == "true",
        "no_simplify": val("no-simplify") == "true",
        "no_eq_break": val("no-eq-break") == "true",
        "no_proof_search": val("no-proof-search") == "true",
        "save": None if val("save") == "none" else sx_unstring(val("save")),
        "files": [node_of(n) for n in d["files"]],
    }


def node_of(n):
    """(file "n" "text") | (special "n") | (dir "n" node..) | (link "n" (file "text")|special|dangling|loop)
    | (link "n" (dir node..)) -> dict; a link is {"link": name, "to": "file"|"special"|"dangling"|"loop"|"dir", ..}"""
    if n[0] == "file":
        return {"file": sx_unstring(n[1]), "text": sx_unstring(n[2])}
    if n[0] == "special":
        return {"special": sx_unstring(n[1])}
    if n[0] == "link":
        name, t = sx_unstring(n[1]), n[2]
        if isinstance(t, str):
            return {"link": name, "to": t}
        if t[0] == "file":
            return {"link": name, "to": "file", "text": sx_unstring(t[1])}
        assert t[0] == "dir", t[0]
        return {"link": name, "to": "dir", "children": [node_of(c) for c in t[1:]]}
    return {"dir": sx_unstring(n[1]), "children": [node_of(c) for c in n[2:]]}


def node_sx(n):
    if "file" in n:
        return f"(file {sx_string(n['file'])} {sx_string(n['text'])})"
    if "special" in n:
        return f"(special {sx_string(n['special'])})"
    if "link" in n:
        if n["to"] == "file":
            t = f"(file {sx_string(n['text'])})"
        elif n["to"] == "dir":
            t = "(" + " ".join(["dir"] + [node_sx(c) for c in n["children"]]) + ")"
        else:
            t = n["to"]
        return f"(link {sx_string(n['link'])} {t})"
    return "(dir " + " ".join([sx_string(n["dir"])] + [node_sx(c) for c in n["children"]]) + ")"


def node_name(n):
    return n.get("file") or n.get("special") or n.get("link") or n.get("dir")


def case_sx(c):
    b = lambda x: "true" if x else "false"
    o = lambda x: "none" if x is None else x
    return ("(verify (equivalence %s) (decomposition %s) (direction %s) (repr %s) (bypass %s) (no-simplify %s) "
            "(no-eq-break %s) (no-proof-search %s) (save %s) (files%s))" % (
                c["equivalence"], o(c["decomposition"]), o(c["direction"]), o(c["repr"]), b(c["bypass"]),
                b(c["no_simplify"]), b(c["no_eq_break"]), b(c["no_proof_search"]),
                "none" if c["save"] is None else sx_string(c["save"]),
                "".join(" " + node_sx(n) for n in c["files"])))


def case_line(c):
    return OP + "\t" + case_sx(c)


def parse_line(line):
    return case_of(vlib.sx_parse(line.split("\t", 1)[1]))


def argv_of(c):
    v = ["verify", "--equivalence", c["equivalence"]]
    if c["decomposition"]:
        v += ["--decomposition", c["decomposition"]]
    if c["direction"]:
        v += ["--direction", c["direction"]]
    if c["repr"]:
        v += ["--formula-representation", c["repr"]]
    for k, f in (("bypass", "--bypass-tightness"), ("no_simplify", "--no-simplify"), ("no_eq_break", "--no-eq-break"),
                 ("no_proof_search", "--no-proof-search")):
        if c[k]:
            v.append(f)
    if c["save"] is not None:
        v += ["--save-problems", c["save"]]
    return v + [node_name(n) for n in c["files"]]


def flat_files(nodes, prefix=""):
    """path -> text of a regular file / a link to one; None for a directory ("path/"), a special file and the
    other links ("path -> what")"""
    out = {}
    for n in nodes:
        p = prefix + node_name(n)
        if "file" in n:
            out[p] = n["text"]
        elif "special" in n:
            out[p] = None
        elif "link" in n and n["to"] == "file":
            out[p + " -> (regular file)"] = n["text"]
        elif "link" in n and n["to"] != "dir":
            out[p + " -> (" + n["to"] + ")"] = None
        else:
            out[p + ("/" if "dir" in n else "/ -> (directory)")] = None
            out.update(flat_files(n["children"], p + "/"))
    return out


def recipe(c):
    """shell commands that rebuild the case in an empty directory `in` (link targets in `store`) and run it"""
    lines = ["mkdir in store && cd in"]
    k = [0]

    def fresh():
        k[0] += 1
        return "$OLDPWD/store/t%d" % k[0]

    def build(nodes, prefix):
        for n in nodes:
            p = shlex.quote(prefix + node_name(n))
            if "file" in n:
                lines.append("printf %s " + shlex.quote(n["text"]) + " > " + p)
            elif "special" in n:
                lines.append("ln -s /dev/null " + p + "   # or a socket")
            elif "dir" in n:
                lines.append("mkdir -p " + p)
                build(n["children"], prefix + node_name(n) + "/")
            elif n["to"] == "file":
                t = fresh()
                lines.append("printf %s " + shlex.quote(n["text"]) + ' > "' + t + '" && ln -s "' + t + '" ' + p)
            elif n["to"] == "special":
                lines.append("ln -s /dev/null " + p)
            elif n["to"] == "dangling":
                lines.append('ln -s "' + fresh() + '" ' + p + "   # missing target")
            elif n["to"] == "loop":
                lines.append("ln -s . " + p)
            else:
                t = fresh()
                lines.append('mkdir "' + t + '" && ln -s "' + t + '" ' + p)
                build(n["children"], prefix + node_name(n) + "/")
    build(c["files"], "")
    if c["save"] is not None:
        lines.append("mkdir -p " + shlex.quote(c["save"]))
    lines.append("anthem " + " ".join(shlex.quote(a) for a in argv_of(c)))
    return lines


# ---------------------------------------------------------------- cases from the shipped examples
def example_cases(r, limit):
    """every `verify` line of res/examples/**/.tests: the named files as explicit arguments, and the whole
    example directory as the only argument; flag variants drawn per case"""
    cases = []
    for root, _, names in sorted(os.walk(clilib.EXAMPLES)):
        if ".tests" not in names:
            continue
        try:
            tests = open(os.path.join(root, ".tests"), encoding="utf8").read().splitlines()
        except (OSError, UnicodeDecodeError):
            continue

        def read(n):
            try:
                return open(os.path.join(root, n), encoding="utf8").read()
            except (OSError, UnicodeDecodeError):
                return None
        for ln in tests:
            words = shlex.split(ln.replace("=", " "))
            if "verify" not in words or "--equivalence" not in words:
                continue
            eq = words[words.index("--equivalence") + 1]
            files = [w for w in words[words.index("verify") + 1:] if not w.startswith("-") and w not in (eq, "$OUT")
                     and os.path.isfile(os.path.join(root, w))]
            texts = [(f, read(f)) for f in files]
            if not files or any(t is None for _, t in texts):
                continue
            base = {"equivalence": eq, "decomposition": None, "direction": None, "repr": None, "bypass": False,
                    "no_simplify": False, "no_eq_break": False, "no_proof_search": True, "save": "out",
                    "files": [{"file": f, "text": t} for f, t in texts]}
            src = os.path.relpath(root, clilib.EXAMPLES) + ": " + " ".join(files)
            cases.append((dict(base), src))
            # the same files inside one directory argument (walk order decides the roles)
            cases.append((dict(base, files=[{"dir": "example", "children": list(base["files"])}]), src + " (as directory)"))
            for _ in range(2):
                v = dict(base)
                v["no_simplify"] = r.random() < 0.5
                v["no_eq_break"] = r.random() < 0.5
                v["decomposition"] = r.choice([None, "independent", "sequential"])
                v["direction"] = r.choice([None, "universal", "forward", "backward"])
                v["repr"] = r.choice([None, "tau-star"] + (["mu"] if eq == "strong" else []))
                v["bypass"] = r.random() < 0.3
                cases.append((v, src + " (flag variant)"))
    if limit is not None and len(cases) > limit:
        cases = r.sample(cases, limit)
    return cases


def flag_family(c):
    out = []
    for ns in (False, True):
        for nb in (False, True):
            for dec in ("sequential", "independent"):
                out.append(dict(c, no_simplify=ns, no_eq_break=nb, decomposition=dec))
    return out


# ---------------------------------------------------------------- running
def run_both(lines, exe, scratch):
    env = {"ANTHEM_CLI_EXE": exe, "ANTHEM_CLI_SCRATCH": scratch, "RUST_BACKTRACE": "0"}
    impl = vlib.run_lines(vlib.HARNESS_EXE, lines, env=env)
    model = vlib.run_lines(vlib.DRIVER_EXE, lines)
    return impl, model


def kind_of(out):
    return out.split(" ", 1)[0].strip("()") if out.startswith("(") else "atom"


def tool_error(a, b):
    return a.startswith("(harness-error") or a.startswith("(process-died") or b.startswith("(driver-error") or b.startswith("(process-died")


def differs(a, b):
    return a != b and not tool_error(a, b) and b != "(out-of-fuel)"


def shrink(c, exe, scratch, rounds=12):
    """greedy: drop a file / a directory level / a line of a file while the two sides still differ"""
    def candidates(c):
        out = []

        def walk(nodes, rebuild):
            for i, n in enumerate(nodes):
                out.append(rebuild(nodes[:i] + nodes[i + 1:]))
                if "file" in n:
                    parts = n["text"].split("\n")
                    if 1 < len(parts) <= 60:
                        for k in range(len(parts)):
                            t = "\n".join(parts[:k] + parts[k + 1:])
                            out.append(rebuild(nodes[:i] + [dict(n, text=t)] + nodes[i + 1:]))
                elif "link" in n and n["to"] == "file":
                    # the same case with a regular file in place of the link
                    out.append(rebuild(nodes[:i] + [{"file": n["link"], "text": n["text"]}] + nodes[i + 1:]))
                elif "link" in n and n["to"] == "dir":
                    out.append(rebuild(nodes[:i] + [{"dir": n["link"], "children": n["children"]}] + nodes[i + 1:]))
                    walk(n["children"], lambda ch, i=i, n=n, nodes=nodes, rebuild=rebuild:
                         rebuild(nodes[:i] + [dict(n, children=ch)] + nodes[i + 1:]))
                elif "dir" in n:
                    walk(n["children"], lambda ch, i=i, n=n, nodes=nodes, rebuild=rebuild:
                         rebuild(nodes[:i] + [dict(n, children=ch)] + nodes[i + 1:]))
        walk(c["files"], lambda fs: dict(c, files=fs))
        return out
    for _ in range(rounds):
        cands = candidates(c)[:600]
        if not cands:
            break
        im, mo = run_both([case_line(x) for x in cands], exe, scratch)
        ok = [x for x, a, b in zip(cands, im, mo) if differs(a, b)]
        if not ok:
            break
        c = min(ok, key=lambda x: len(case_sx(x)))
    return c


def describe(a, b):
    """what differs between two answers, in words"""
    try:
        ea, eb = vlib.sx_parse(a), vlib.sx_parse(b)
    except ValueError:
        return "unreadable answer"
    if ea[0] != eb[0]:
        return f"the binary answers {ea[0]}, the model {eb[0]}"
    if ea[0] != "exit0":
        return f"{a[:80]} vs {b[:80]}"
    if ea[1] != eb[1]:
        return f"warnings differ: binary {ea[1][1:]}, model {eb[1][1:]}"
    fa = {f[0]: f[1] for f in ea[2][1:]}
    fb = {f[0]: f[1] for f in eb[2][1:]}
    if sorted(fa) != sorted(fb):
        return f"files written: binary {sorted(fa)}, model {sorted(fb)}"
    for k in sorted(fa):
        if fa[k] != fb[k]:
            la, lb = sx_unstring(fa[k]).split("\n"), sx_unstring(fb[k]).split("\n")
            for i, (x, y) in enumerate(zip(la, lb)):
                if x != y:
                    return f"file {k} differs at line {i + 1}: binary `{x[:160]}` / model `{y[:160]}`"
            return f"file {k}: binary {len(la)} lines, model {len(lb)} lines"
    return "?"


# ---------------------------------------------------------------- the check
def extra(ctx, cfg, results):
    runs = cfg.get("runs", {"quick": 2000, "thorough": 40000})
    n_gen = runs.get(ctx.tier, runs.get("quick", 2000))
    gen_op = cfg.get("gen_op", OP)
    families = bool(cfg.get("flag_families"))
    exe = clilib.anthem_exe()
    r = clilib.rng(ctx, "cli-verify")
    dist = {"sources": {}, "by_equivalence": {}, "outcomes": {}, "files_compared": 0, "model_out_of_fuel": 0}
    with clilib.Scratch("CLIverify-" + ctx.prop) as scratch:
        lines, source = [], []
        for ln in vlib.corpus_lines([OP]):
            lines.append(ln)
            source.append("corpus")
        if cfg.get("examples", True):
            limit = cfg.get("examples") if isinstance(cfg.get("examples"), int) and not isinstance(cfg.get("examples"), bool) else None
            for c, src in example_cases(r, limit):
                lines.append(case_line(c))
                source.append("example:" + src)
        for ln in vlib.generate(gen_op, ctx.seed, n_gen):
            ln = OP + "\t" + ln.split("\t", 1)[1]
            if families:
                for c in flag_family(parse_line(ln)):
                    lines.append(case_line(c))
                    source.append("generated-family")
            else:
                lines.append(ln)
                source.append("generated")
        impl, model = run_both(lines, exe, scratch)
        ctx.evaluations += len(lines)
        mism, tool = [], []
        for i, (ln, a, b) in enumerate(zip(lines, impl, model)):
            bump(dist["sources"], source[i].split(":")[0])
            bump(dist["outcomes"], kind_of(a))
            bump(dist["by_equivalence"], "external" if "(equivalence external)" in ln[:60] else "strong")
            if b == "(out-of-fuel)":
                dist["model_out_of_fuel"] += 1
                continue
            if tool_error(a, b):
                tool.append(i)
            elif a != b:
                mism.append(i)
            if a.startswith("(exit0"):
                n = a.count('.p" "')
                dist["files_compared"] += n
                if n:
                    ctx.nontrivial.add(ln)
        log(f"CLI verify [{gen_op}{', flag families' if families else ''}]: {len(lines)} command lines ({dist['sources']}), "
            f"outcomes {dist['outcomes']}, {dist['files_compared']} problem files compared, {len(mism)} disagreements, "
            f"{dist['model_out_of_fuel']} skipped (model out of fuel)")
        if dist["model_out_of_fuel"]:
            ctx.notes.append(f"{dist['model_out_of_fuel']} cases skipped: the model ran out of fuel")
        # --- sensitivity: which slips of procedures.rs would this run have exposed?
        sample = [i for i in range(len(lines)) if model[i].startswith("(exit0") or model[i].startswith("(error")]
        if len(sample) > 1500:
            sample = sorted(r.sample(sample, 1500))
        sens_lines, owner = [], []
        for i in sample:
            arg = lines[i].split("\t", 1)[1]
            for v in VARIANTS:
                sens_lines.append(f"cli_verify_variant\t({v} {arg})")
                owner.append((i, v))
        sens_out = vlib.run_lines(vlib.DRIVER_EXE, sens_lines)
        sens = {v: [0, 0] for v in VARIANTS}
        for (i, v), o in zip(owner, sens_out):
            sens[v][1] += 1
            if o != model[i] and not o.startswith("(driver-error") and o != "(out-of-fuel)":
                sens[v][0] += 1
        dist["cases_that_expose_a_slip"] = {v: f"{h}/{n}" for v, (h, n) in sens.items()}
        blind = [v for v, (h, n) in sens.items() if h == 0 and n > 0]
        log("CLI verify: cases that expose a slip: " + ", ".join(f"{v} {h}/{n}" for v, (h, n) in sens.items()))
        if blind:
            ctx.notes.append("no case of this run distinguishes: " + "; ".join(blind))
        # --- disagreements
        if tool:
            i = tool[0]
            ctx.violation("the cli_verify correspondence could not run a case",
                          {"kind": "custom-cli-verify", "case": lines[i][:6000], "implementation": impl[i][:2000], "model": model[i][:2000]}, False)
        # smallest first; one report per kind of difference (at most 3)
        reported = set()
        for i in sorted(mism, key=lambda i: len(lines[i])):
            key = (kind_of(impl[i]), kind_of(model[i]), "(equivalence external)" in lines[i][:60])
            if key in reported or len(reported) >= 3:
                continue
            reported.add(key)
            c0 = parse_line(lines[i])
            c = shrink(c0, exe, scratch)
            im, mo = run_both([case_line(c)], exe, scratch)
            if not differs(im[0], mo[0]):
                c, im, mo = c0, [impl[i]], [model[i]]
            what = (f"`anthem {' '.join(argv_of(c))}` does not behave as the composition of the verified functions: "
                    + describe(im[0], mo[0]))
            ctx.violation(what, {"kind": "custom-cli-verify", "argv": argv_of(c), "files": flat_files(c["files"]),
                                 "recipe": recipe(c), "case": case_sx(c), "difference": describe(im[0], mo[0]),
                                 "implementation": im[0][:6000], "model": mo[0][:6000], "source": source[i],
                                 "disagreements_in_this_run": len(mism),
                                 "replay_cmd": "bin/check CLIverify --replay <this file>",
                                 "broken_tie": "op cli_verify (Model/CliVerify.v run_verify vs the anthem binary built from the working tree)"}, True)
    ctx.distribution["cli_verify" + (":families" if families else "") + (":" + gen_op if gen_op != OP else "")] = dist
    for i in range(min(2, len(lines))):
        ctx.samples.append({"op": OP, "input": lines[i].split("\t", 1)[1][:600], "implementation": impl[i][:400], "model": model[i][:400]})


def replay(ctx, cfg, r):
    print(json.dumps({k: v for k, v in r.items() if k not in ("implementation", "model")}, indent=1)[:8000])
    if "case" not in r or not r["case"].startswith("(verify"):
        print(f"VIOLATION property={ctx.prop} replay=(recorded)")
        sys.exit(1)
    exe = clilib.anthem_exe()
    with clilib.Scratch("CLIverify-replay") as scratch:
        im, mo = run_both([OP + "\t" + r["case"]], exe, scratch)
    print("command line:    anthem " + " ".join(r.get("argv", [])))
    print("implementation: ", im[0][:3000])
    print("model:          ", mo[0][:3000])
    if im[0] != mo[0]:
        print("difference:     ", describe(im[0], mo[0]))
        print(f"VIOLATION property={ctx.prop} replay=(re-run)")
        sys.exit(1)
    print("replay: the two sides agree now")
    sys.exit(0)
