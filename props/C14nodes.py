"""C14nodes: the leaf node types of the mini-gringo syntax tree that have a stand-alone parser but no
tree of their own in the wire format (PrecomputedTerm, Variable, UnaryOperator, BinaryOperator, Predicate,
Sign, Relation): implementation-only round trip (harness op asp_leaf_roundtrip).  Every accepted text must
print to a text that the same entry point accepts, with an equal value and identical bytes."""
import os
import sys

sys.path.insert(0, os.path.join(os.path.dirname(os.path.abspath(__file__)), "..", "bin"))
import vlib
from vlib import log

OP = "asp_leaf_roundtrip"


def leaves(ctx, cfg):
    n = cfg.get("leaf", {}).get(ctx.tier, 3000)
    lines = vlib.corpus_lines([OP]) + vlib.generate(OP, ctx.seed, n)
    outs = vlib.run_lines(vlib.HARNESS_EXE, lines)
    ctx.evaluations += len(lines)
    kinds = {}
    bad = 0
    for line, out in zip(lines, outs):
        k = "ok" if out.endswith("(ok))") else out.split(")")[0].strip("(")
        kinds[k] = kinds.get(k, 0) + 1
        if out.startswith("(rt ") and out.endswith("(ok))"):
            ctx.nontrivial.add(line)
        elif out.startswith("(skip"):
            pass
        else:
            bad += 1
            if bad <= 3:
                ctx.violation("asp_leaf_roundtrip: a stand-alone leaf node does not survive print + parse",
                              {"kind": "custom-leaf", "op": OP, "input": line.split("\t", 1)[1], "implementation": out},
                              out.startswith("(rt "))
    ctx.distribution[OP] = {"cases": len(lines), "output_kinds": kinds}
    log(f"stand-alone leaf nodes: {len(lines)} cases, {kinds}, {bad} failures")


def extra(ctx, cfg, results):
    leaves(ctx, cfg)


def search_on_break(ctx, cfg, broken):
    """the Coq side broke: the implementation-only round trips still run (with an older driver for the classes)"""
    try:
        vlib.build_harness()
    except vlib.Broken:
        return False
    before = len(ctx.violations)
    leaves(ctx, cfg)
    op = "asp_node_roundtrip"
    lines = vlib.corpus_lines([op]) + vlib.generate(op, ctx.seed, 20000)
    outs = vlib.run_lines(vlib.HARNESS_EXE, lines)
    cand = [(l, o) for l, o in zip(lines, outs) if o.startswith("(rt ") and not o.endswith("(ok))")]
    if cand and os.path.exists(vlib.DRIVER_EXE):
        res = vlib.run_lines(vlib.DRIVER_EXE, [f"sem_{op}\t({l.split(chr(9), 1)[1]} {o})" for l, o in cand])
        cand = [(l, o) for (l, o), r in zip(cand, res) if r.startswith("(cex")]
        for l, o in sorted(cand, key=lambda x: len(x[0]))[:1]:
            ctx.violation(f"{op}: a stand-alone node does not survive print + parse (implementation only)",
                          {"kind": "correspondence", "op": op, "input": l.split("\t", 1)[1], "implementation": o, "model": "(ok)"}, True)
    return any(f for _, _, f in ctx.violations[before:])


def replay(ctx, cfg, r):
    out = vlib.run_lines(vlib.HARNESS_EXE, [f"{r['op']}\t{r['input']}"])[0]
    print(f"replay {r['op']} {r['input']} -> {out}")
    fails = not (out.startswith("(skip") or out.endswith("(ok))"))
    print("REPRODUCED" if fails else "not reproduced")
    return 1 if fails else 0
