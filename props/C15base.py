"""C15-specific steps: the round trip of the implementation on the OUTPUT of the real translate / simplify
functions (random programs and theories), classified by the Coq predicates of Model/FolClass.v, and a
few end-to-end runs of the anthem binary (translate | parse --as theory --output default)."""
import os
import subprocess
import sys
import tempfile

sys.path.insert(0, os.path.join(os.path.dirname(os.path.abspath(__file__)), "..", "bin"))
import vlib
from vlib import log


def second_element(sexp_text):
    """`(cex (theory ...) kind ...)` -> `(theory ...)` (quote-aware)"""
    depth, start, instr, i = 0, None, False, 0
    while i < len(sexp_text):
        c = sexp_text[i]
        if instr:
            if c == "\\":
                i += 1
            elif c == '"':
                instr = False
        elif c == '"':
            instr = True
        elif c == "(":
            depth += 1
            if depth == 2 and start is None:
                start = i
        elif c == ")":
            depth -= 1
            if depth == 1 and start is not None:
                return sexp_text[start:i + 1]
        i += 1
    return None


def translated(ctx, cfg):
    n = cfg.get("translated", {}).get(ctx.tier, 2000)
    lines = vlib.corpus_lines(["fol_roundtrip_translated"]) + vlib.generate("fol_roundtrip_translated", ctx.seed, n)
    outs = vlib.run_lines(vlib.HARNESS_EXE, lines)
    ctx.evaluations += len(lines)
    kinds = {}
    failing = []
    for line, out in zip(lines, outs):
        k = out.split(" ", 1)[0].strip("()")
        kinds[k] = kinds.get(k, 0) + 1
        if out == "(ok)":
            ctx.nontrivial.add(line)
        elif out.startswith("(cex"):
            failing.append((line, out))
        elif out != "(skip)":
            ctx.violation("fol_roundtrip_translated: the implementation crashed or the harness failed on a translate/simplify case",
                          {"kind": "custom-translated", "input": line.split("\t", 1)[1], "implementation": out}, out.startswith("(panic"))
    known = 0
    if failing:
        q = [f"fol_known_class\t{second_element(out)}" for _, out in failing]
        cls = vlib.run_lines(vlib.DRIVER_EXE, q)
        reported = 0
        for (line, out), c in zip(failing, cls):
            if c.startswith("(known"):
                known += 1
            else:
                reported += 1
                if reported <= 3:
                    ctx.violation("the output of a translate/simplify function does not re-parse to the same theory (outside the known classes)",
                                  {"kind": "custom-translated", "op": "fol_roundtrip_translated", "input": line.split("\t", 1)[1],
                                   "implementation": out, "class": c}, True)
    ctx.distribution["fol_roundtrip_translated"] = {"cases": len(lines), "output_kinds": kinds, "failures_in_known_classes": known}
    log(f"round trip of translate/simplify output: {len(lines)} cases, {kinds}, {known} failures inside the known classes")


PROGRAMS = [
    "p(X) :- q(X), not r(X).\nq(1..3).\n{r(X)} :- q(X).\n:- p(X), X > 2.\n",
    "composite(I*J) :- I > 1, J > 1.\nprime(I) :- I = 2..n, not composite(I).\n",
    "s(X, Y) :- p(X), q(Y), X != Y, X - 1 < -Y.\nt(a) :- not not s(1, -2).\n",
    "and(X) :- or(X), forall.\nexists :- andy(a, not_, 3).\n",
]


# finding F7e (audit 2, B4): keyword-prefixed symbolic constants in every position of a rule, in-class
# names and look-alikes outside the class
KW_SYMBOLS = ["notq", "nota", "not_", "forallX", "existsY", "forallX1", "forallx", "existsa", "forall", "no", "_notq"]
KW_RULES = [
    "p :- {s} = 1.", "p :- {s} != X, q(X).", "p :- 1 = {s}.", "p :- {s} = 1..2.", "p(X) :- X = {s}..3.",
    "p({s}).", "{{p({s})}} :- q({s}), {t} < 2.", "p(1..{s}).", ":- {s} < {t}.", "{s} :- q.", "p :- not {s}(1).",
    "p(X, 1..3) :- q(X, {s}), {t} >= X.", "p :- {s} + 1 = 2.",
]


def cli_keyword_programs(ctx, exe):
    """`translate --with tau-star|mu|natural` of programs with keyword-prefixed names on the REAL binary,
    fed back to `parse --as theory --output default`.  The driver says whether a theorem of
    Properties/C15out.v promises the feed-back for this input (decidable premise on the program:
    no_keyword_predicate for tau-star, no_keyword_front for natural / mu):
      promised and not fed back                      -> violation
      natural, not promised, but fed back            -> violation (the premise is exact: C15_natural_output_F7b_iff)
      not promised and not fed back                  -> recorded class (F7b: findings F7b, F7e)."""
    import random
    r = random.Random(ctx.seed * 7919 + 15)
    progs = ["p :- notq = 1.", "p :- forallX = 1.", "p :- existsa = 1."]
    progs += [r.choice(KW_RULES).format(s=r.choice(KW_SYMBOLS), t=r.choice(KW_SYMBOLS)) for _ in range(24)]
    runs = known = fed = 0
    with tempfile.TemporaryDirectory() as d:
        lp, th = os.path.join(d, "k.lp"), os.path.join(d, "k.spec")
        for prog in progs:
            open(lp, "w").write(prog + "\n")
            for tr in ("tau-star", "mu", "natural"):
                p = subprocess.run([exe, "translate", "--with", tr, lp], stdout=subprocess.PIPE, stderr=subprocess.DEVNULL, text=True)
                runs += 1
                if p.returncode != 0:
                    continue
                open(th, "w").write(p.stdout)
                q = subprocess.run([exe, "parse", "--as", "theory", "--output", "default", th], stdout=subprocess.PIPE, stderr=subprocess.DEVNULL, text=True)
                runs += 1
                fed_back = q.returncode == 0 and q.stdout == p.stdout
                ans = vlib.run_lines(vlib.DRIVER_EXE, [f'fol_output_promised\t((translate {tr}) "{prog}\\x0a")'])[0]
                promised = ans.startswith("(promised")
                payload = {"kind": "custom-cli", "command": f"translate --with {tr}", "program": prog, "printed": p.stdout,
                           "reparsed": q.stdout if q.returncode == 0 else "(refused)", "model": ans}
                if promised and not fed_back:
                    ctx.violation(f"CLI: `translate --with {tr}` prints a theory that is not fed back although the premise of {ans} holds", payload, True)
                elif tr == "natural" and not promised and fed_back and ans == "(none)":
                    ctx.violation("CLI: no_keyword_front fails but the output of `translate --with natural` is fed back (the premise is not exact)", payload, True)
                elif fed_back:
                    fed += 1
                else:
                    known += 1
    ctx.evaluations += runs
    ctx.distribution["cli_keyword_programs"] = {"programs": len(progs), "runs": runs, "fed_back": fed, "in_recorded_class_F7b": known}
    log(f"CLI keyword-prefixed programs: {len(progs)} programs x 3 translations, {fed} fed back, {known} in the recorded class F7b (findings F7b / F7e)")


def cli(ctx, cfg):
    """end to end on the binary: translate, parse the printed theory, print again: a fixed point"""
    exe = os.path.join(vlib.REPO, "target", "debug", "anthem")
    if not os.path.exists(exe):
        ctx.notes.append("anthem binary not built in $ANTHEM_REPO/target/debug: CLI round trip skipped")
        return
    runs = 0
    with tempfile.TemporaryDirectory() as d:
        for i, prog in enumerate(PROGRAMS):
            lp = os.path.join(d, f"p{i}.lp")
            open(lp, "w").write(prog)
            for tr in ("tau-star", "mu", "natural"):
                p = subprocess.run([exe, "translate", "--with", tr, lp], stdout=subprocess.PIPE, stderr=subprocess.DEVNULL, text=True)
                if p.returncode != 0:
                    continue
                th = os.path.join(d, "t.spec")
                open(th, "w").write(p.stdout)
                texts = [p.stdout]
                for extra in (["parse", "--as", "theory", "--output", "default", th],
                              ["translate", "--with", "gamma", th], ["translate", "--with", "completion", th],
                              ["simplify", "--portfolio", "classic", "--strategy", "fixpoint", th]):
                    q = subprocess.run([exe] + extra, stdout=subprocess.PIPE, stderr=subprocess.DEVNULL, text=True)
                    runs += 1
                    if extra[0] == "parse":
                        if q.returncode != 0 or q.stdout != p.stdout:
                            ctx.violation(f"CLI: the output of `translate --with {tr}` is not a fixed point of `parse --as theory --output default`",
                                          {"kind": "custom-cli", "program": prog, "printed": p.stdout, "reparsed": q.stdout}, True)
                    elif q.returncode == 0:
                        texts.append(q.stdout)
                for t in texts[1:]:
                    open(th, "w").write(t)
                    q = subprocess.run([exe, "parse", "--as", "theory", "--output", "default", th], stdout=subprocess.PIPE, stderr=subprocess.DEVNULL, text=True)
                    runs += 1
                    if q.returncode != 0 or q.stdout != t:
                        ctx.violation("CLI: printed output of translate/simplify is not a fixed point of `parse --as theory --output default`",
                                      {"kind": "custom-cli", "program": prog, "printed": t, "reparsed": q.stdout}, True)
    ctx.evaluations += runs
    log(f"CLI round trips: {runs} runs of the anthem binary")
    cli_keyword_programs(ctx, exe)


def extra(ctx, cfg, results):
    translated(ctx, cfg)
    cli(ctx, cfg)


def search_on_break(ctx, cfg, broken):
    """A proof obligation / translator / build broke: run the implementation-only round trips anyway."""
    try:
        vlib.build_harness()
    except vlib.Broken:
        return False
    before = len(ctx.violations)
    for op in ("fol_roundtrip_formula", "fol_roundtrip_theory", "fol_roundtrip_spec", "fol_roundtrip_ug"):
        lines = vlib.corpus_lines([op]) + vlib.generate(op, ctx.seed, 3000)
        outs = vlib.run_lines(vlib.HARNESS_EXE, lines)
        bad = [(l, o) for l, o in zip(lines, outs) if o.startswith("(cex")]
        if not bad:
            continue
        if os.path.exists(vlib.DRIVER_EXE):
            sem = "sem_" + op
            res = vlib.run_lines(vlib.DRIVER_EXE, [f"{sem}\t({l.split(chr(9), 1)[1]} {o})" for l, o in bad])
            bad = [(l, o) for (l, o), r in zip(bad, res) if r.startswith("(cex")]
        for l, o in sorted(bad, key=lambda x: len(x[0]))[:1]:
            ctx.violation(f"{op}: printing a tree and parsing it back does not give the tree (implementation only)",
                          {"kind": "correspondence", "op": op, "input": l.split("\t", 1)[1], "implementation": o, "model": "(ok)"}, True)
    translated(ctx, cfg)
    return any(f for _, _, f in ctx.violations[before:])
