"""Shared helpers of the CLI-level checks (C10, C16, C18det, C20): building the anthem binary of
the tree under test, the stand-in prover, running commands with a watchdog, scratch directories.

Nothing is written outside <framework>/work (git-ignored); scratch directories are removed."""
import concurrent.futures
import hashlib
import os
import random
import shutil
import subprocess
import sys
import time

sys.path.insert(0, os.path.join(os.path.dirname(os.path.dirname(os.path.abspath(__file__))), "bin"))
import vlib
from vlib import Broken, log

TOOLS = os.path.join(vlib.VERIF, "tools")
EXAMPLES = os.path.join(vlib.REPO, "res", "examples")
NPROC = vlib.NPROC


def anthem_exe(features=None):
    """The anthem CLI built from the CURRENT working tree of the repository under test, in a
    target directory that belongs to the framework (the repository itself is not written to).
    `features="verif"`: a second binary with that cargo feature, in a target directory of its own
    (the binary every other run uses is the one built without features, as shipped)."""
    tag = hashlib.sha256(os.path.realpath(vlib.REPO).encode()).hexdigest()[:10]
    if features:
        tag += "-" + features.replace(",", "-")
    target = os.path.join(vlib.WORK, "anthem-target-" + tag)
    with vlib.Lock("cargo-cli-" + tag):
        p = vlib.sh(f"timeout 1800 cargo build --offline --manifest-path {vlib.REPO}/Cargo.toml --target-dir {target}"
                    + (f" --features {features}" if features else "") + " 2>&1",
                    check=False, timeout=1900)
        if p.returncode != 0:
            raise Broken("harness: the anthem CLI of the working tree does not build", p.stdout[-4000:])
    exe = os.path.join(target, "debug", "anthem")
    if not os.path.exists(exe):
        raise Broken("harness: no anthem binary after cargo build")
    return exe


def fake_vampire_dir():
    """Directory that contains only the stand-in `vampire` (compiled from tools/fake_vampire)."""
    src = os.path.join(TOOLS, "fake_vampire", "vampire.c")
    out_dir = os.path.join(vlib.WORK, "fake_vampire")
    exe = os.path.join(out_dir, "vampire")
    with vlib.Lock("fake-vampire"):
        os.makedirs(out_dir, exist_ok=True)
        if not os.path.exists(exe) or os.path.getmtime(exe) < os.path.getmtime(src):
            p = vlib.sh(["gcc", "-O1", "-o", exe + ".tmp", src], check=False)
            if p.returncode != 0:
                raise Broken("harness: the stand-in prover does not compile", p.stdout[-2000:])
            os.replace(exe + ".tmp", exe)
    return out_dir


def empty_path_dir():
    d = os.path.join(vlib.WORK, "empty-path")
    os.makedirs(d, exist_ok=True)
    return d


class Scratch:
    """work/scratch/<name>-<pid>; removed on exit."""

    def __init__(self, name):
        self.path = os.path.join(vlib.WORK, "scratch", f"{name}-{os.getpid()}")

    def __enter__(self):
        shutil.rmtree(self.path, ignore_errors=True)
        os.makedirs(self.path)
        return self.path

    def __exit__(self, *a):
        shutil.rmtree(self.path, ignore_errors=True)


class Run:
    __slots__ = ("rc", "out", "err", "timed_out", "wall")

    def __init__(self, rc, out, err, timed_out, wall):
        self.rc, self.out, self.err, self.timed_out, self.wall = rc, out, err, timed_out, wall

    @property
    def panicked(self):
        return self.rc == 101 or b"panicked at" in self.err

    @property
    def signalled(self):
        return self.rc is not None and self.rc < 0

    @property
    def crashed(self):
        return self.timed_out or self.panicked or self.signalled or self.rc in (134, 139)


def run(cmd, env=None, stdin=None, timeout=10.0, cwd=None):
    """Run a command with a watchdog; bytes in, bytes out."""
    e = {"PATH": os.environ.get("PATH", ""), "HOME": os.environ.get("HOME", "/tmp"), "RUST_BACKTRACE": "0"}
    if env:
        e.update(env)
    t0 = time.time()
    try:
        p = subprocess.run(cmd, input=stdin if stdin is not None else b"", stdout=subprocess.PIPE,
                           stderr=subprocess.PIPE, env=e, timeout=timeout, cwd=cwd)
        return Run(p.returncode, p.stdout, p.stderr, False, time.time() - t0)
    except subprocess.TimeoutExpired as x:
        return Run(None, x.stdout or b"", x.stderr or b"", True, time.time() - t0)


def pmap(fn, items, workers=NPROC):
    with concurrent.futures.ThreadPoolExecutor(max_workers=workers) as ex:
        return list(ex.map(fn, items))


def pmap_processes(fn, items, workers=NPROC):
    """like pmap, in worker processes (fn and items must be picklable: module-level function,
    plain data); worthwhile when every item spawns dozens of short-lived commands"""
    with concurrent.futures.ProcessPoolExecutor(max_workers=workers) as ex:
        return list(ex.map(fn, items, chunksize=4))


def run_repeated(job):
    """job = (exe, scratch, idx, argv, save, reps, env); `{out}` in argv is a fresh directory per repetition.
    -> list of observations (rc, stdout, stderr, {problem file: bytes}) for `reps` fresh processes"""
    exe, scratch, idx, argv, save, reps, env = job
    import shutil
    obs = []
    for k in range(reps):
        d = os.path.join(scratch, f"c{idx}_{k}")
        os.makedirs(d)
        a = [x.replace("{out}", d) for x in argv]
        e = dict(env or {})
        if "FAKE_VAMPIRE_DIR" in e:
            e["FAKE_VAMPIRE_DIR"] = d
        rr = run([exe] + a, env=e or None, timeout=60)
        files = {}
        if save:
            for fn in sorted(os.listdir(d)):
                if fn.endswith(".p"):
                    files[fn] = open(os.path.join(d, fn), "rb").read()
        # scratch paths differ between repetitions: normalise them in the streams
        norm = lambda b: b.replace(d.encode(), b"<OUT>")
        obs.append((rr.rc if not rr.timed_out else "timeout", norm(rr.out), norm(rr.err), files))
        shutil.rmtree(d, ignore_errors=True)
    return obs



def rng(ctx, salt):
    return random.Random(f"{ctx.seed}/{ctx.prop}/{salt}")


def fnv64(b):
    h = 0xcbf29ce484222325
    for x in b:
        h ^= x
        h = (h * 0x100000001b3) & 0xFFFFFFFFFFFFFFFF
    return h


def example(*parts):
    return os.path.join(EXAMPLES, *parts)


def write(path, data):
    os.makedirs(os.path.dirname(path), exist_ok=True)
    with open(path, "wb" if isinstance(data, bytes) else "w") as f:
        f.write(data)
    return path


def bump(d, k, n=1):
    d[k] = d.get(k, 0) + n


# ---------------------------------------------------------------- small program generator

PREDS = ["p", "q", "r", "s", "t"]


def gen_rule(r, preds=PREDS, arity_of=None):
    """One mini-gringo rule over unary/nullary predicates (safe, tiny)."""
    arity_of = arity_of or {}

    def atom(var):
        p = r.choice(preds)
        a = arity_of.setdefault(p, r.choice([0, 1, 1]))
        if a == 0:
            return p
        return f"{p}({var if r.random() < 0.7 else r.choice(['1', '2', 'a', 'X+1'])})"

    kind = r.random()
    body = []
    for _ in range(r.choice([0, 1, 1, 2])):
        sign = r.choice(["", "", "not ", "not not "])
        body.append(sign + atom("X"))
    if r.random() < 0.3:
        body.append(r.choice(["X = 1..3", "X > 1", "X != a", "X = Y + 1"]))
    # safety is not required by anthem; keep the text simple
    if kind < 0.1 and body:
        return ":- " + ", ".join(body) + "."
    head = atom("X")
    if kind < 0.3:
        head = "{" + head + "}"
    return head + (" :- " + ", ".join(body) if body else "") + "."


def gen_program(r, rules=None, preds=PREDS, arity_of=None):
    arity_of = {} if arity_of is None else arity_of
    n = rules if rules is not None else r.choice([1, 2, 3, 4])
    return "\n".join(gen_rule(r, preds, arity_of) for _ in range(n)) + "\n"
