"""C20 runtime tie: real directories -> `anthem verify --no-proof-search --save-problems`.

1. Role cases.  A random file tree (nested directories, hidden files, odd extensions, names chosen
   to separate byte order from "natural" orders; SYMBOLIC LINKS to regular files (directly or through
   a second link), to directories, to /dev/null, dangling links, links to the containing directory;
   fifos) is written to a scratch directory;
   every file carries a unique number K in its content (program `p(K).`, specification
   `forall X (p(X) <-> X = K)`, user guide assumption `exists X (X = K)`, proof outline lemma
   `exists Y (Y = K)`), so that the problem files reveal which file played which role: whose
   formulas are axioms and whose are conjectures.  The arguments are given in a random order
   (sometimes a nested path directly, sometimes one argument twice).  The roles decoded from the
   problem files (or the "no ... was provided" error) are compared with the roles predicted by the
   Coq model (driver op `files_sort` on the abstract tree); when the model predicts a walkdir error
   (dangling link, loop) the command must fail with `unable to sort the given files by their
   function`, naming that path and that kind of error.
   The recorded input of finding F23 (a symlinked .lp argument was dropped silently and the roles
   shifted to the next files) is replayed first, in-process and through the CLI.
2. Swap cases.  problems(strong, B, A, forward) vs problems(strong, A, B, backward) in the shape of
   C20_swap_syntactic: problem names forward_k / backward_k; per problem the same lines IN THE SAME
   ORDER except for the block of transition axioms and the block of predicate declarations, which
   are equal as multisets; formula names up to the running number and left_/right_.  External
   program-vs-program (no theorem of this shape): equal as multisets of lines up to the `_p` renaming
   of private predicates of the program side.
"""
import os
import re
import sys

sys.path.insert(0, os.path.dirname(os.path.abspath(__file__)))
import clilib
from clilib import vlib, log, bump

FILE_NAMES = {
    "lp": ["a.lp", "b.lp", "z.lp", "A.lp", "B.lp", "0.lp", "10.lp", "9.lp", "a.b.lp", "ü.lp", "a b.lp", "-x.lp", "aa.lp", "a-.lp", "a_.lp",
           "a0.lp", "a.po.lp", "a.spec.lp", "..lp", "_.lp", "Z.lp"],
    "spec": ["a.spec", "b.spec", "Z.spec", "0.spec", "a.lp.spec", "zz.spec"],
    "ug": ["u.ug", "v.ug", "_.ug", "a.ug", "Z.ug"],
    "po": ["o.po", "p.po", "a.po", "Z.po"],
    "other": [".lp", ".spec", ".ug", "a.", "a.lp.bak", "x.LP", "noext", "lp", "a.lp~", "a.lpx", "README.md", "a.Spec", "b.UG", "spec", "x.p"],
}
DIR_NAMES = ["d", "D", "d.lp", "e.spec", "x y", "a", "zz", ".hidden", "é", "0"]


def content(kind, k):
    if kind == "lp":
        return f"p({k}).\n"
    if kind == "spec":
        return f"spec: forall X (p(X) <-> X = {k}).\n"
    if kind == "ug":
        return f"output: p/1.\nassumption: exists X (X = {k}).\n"
    if kind == "po":
        return f"lemma(forward): exists Y (Y = {k}).\n"
    return f"this file ({k}) must never be read %%% )(\n"


def sx(s):
    out = '"'
    for b in s.encode():
        if b in (0x22, 0x5C):
            out += "\\" + chr(b)
        elif 32 <= b <= 126:
            out += chr(b)
        else:
            out += "\\x%02x" % b
    return out + '"'


class Gen:
    def __init__(self, r):
        self.r = r
        self.k = 10
        self.ids = {}      # relative path -> K

    def nodes(self, depth, maxn, prefix, weights, root=True):
        # (a top-level name beginning with `-` would be read as an option by clap: only nested)
        # node shapes: ("file", name, kind, K)  ("special", name, kind)  ("dir", name, children)
        #              ("link", name, kind, "file", K) ("link", name, kind, "special"|"dangling"|"loop")
        #              ("linkdir", name, children)
        r = self.r
        used = set()
        out = []
        for _ in range(r.randint(0, maxn)):
            if depth > 0 and r.random() < 0.22:
                name = r.choice(DIR_NAMES)
                if name in used:
                    continue
                used.add(name)
                tag = "linkdir" if r.random() < 0.25 else "dir"
                out.append((tag, name, self.nodes(depth - 1, 5, prefix + name + "/", weights, False)))
            else:
                kind = r.choices(["lp", "spec", "ug", "po", "other"], weights)[0]
                name = r.choice(FILE_NAMES[kind])
                if name in used or (prefix == "" and name.startswith("-")):
                    continue
                used.add(name)
                x = r.random()
                if x < 0.04:
                    out.append(("special", name, kind))
                elif x < 0.22:
                    self.k += 1
                    self.ids[prefix + name] = self.k
                    out.append(("link", name, kind, "file", self.k))
                elif x < 0.25:
                    out.append(("link", name, kind, "special"))
                elif x < 0.262:
                    out.append(("link", name, kind, "dangling"))
                elif x < 0.274 and not root:
                    out.append(("link", name, kind, "loop"))
                else:
                    self.k += 1
                    self.ids[prefix + name] = self.k
                    out.append(("file", name, kind, self.k))
        return out


def plant(g, nodes, kinds):
    """add one file of each of `kinds` to the tree: as a further argument, or inside a (new or
    existing) directory argument, possibly nested"""
    r = g.r
    for kind in kinds:
        name = r.choice(FILE_NAMES[kind])
        where = r.choice(["top", "dir", "dir", "nested"])
        level, prefix = nodes, ""
        if where != "top":
            for _ in range(2 if where == "nested" else 1):
                dirs = [n for n in level if n[0] in ("dir", "linkdir")]
                if dirs and r.random() < 0.6:
                    d = r.choice(dirs)
                else:
                    dn = r.choice(DIR_NAMES)
                    if any(n[1] == dn for n in level):
                        break
                    d = ("dir", dn, [])
                    level.insert(r.randint(0, len(level)), d)
                level, prefix = d[2], prefix + d[1] + "/"
        if any(n[1] == name for n in level) or (prefix == "" and name.startswith("-")):
            continue        # (a top-level name beginning with `-` would be read as an option by clap)
        g.k += 1
        g.ids[prefix + name] = g.k
        level.insert(r.randint(0, len(level)), ("file", name, kind, g.k))


class Store:
    """where the targets of links live: a directory that is never walked"""

    def __init__(self, path):
        self.path = path
        self.n = 0

    def fresh(self):
        os.makedirs(self.path, exist_ok=True)
        self.n += 1
        return os.path.join(self.path, f"t{self.n}")


def materialise(root, nodes, store):
    for n in nodes:
        p = os.path.join(root, n[1])
        if n[0] == "dir":
            os.makedirs(p, exist_ok=True)
            materialise(p, n[2], store)
        elif n[0] == "linkdir":
            if not os.path.lexists(p):
                t = store.fresh()
                os.makedirs(t)
                materialise(t, n[2], store)
                os.symlink(t, p)
        elif n[0] == "special":
            if not os.path.lexists(p):
                os.mkfifo(p)
        elif n[0] == "link":
            if os.path.lexists(p):
                continue
            if n[3] == "file":
                t = clilib.write(store.fresh(), content(n[2], n[4]))
                if store.n % 2 == 0:        # through a second link, relative
                    t2 = store.fresh()
                    os.symlink(os.path.basename(t), t2)
                    t = t2
                os.symlink(t, p)
            elif n[3] == "special":
                os.symlink("/dev/null", p)
            elif n[3] == "dangling":
                t = store.fresh()
                os.symlink(t if store.n % 2 == 0 else n[1], p)      # missing target / the link itself (ELOOP)
            else:
                os.symlink(".", p)          # the containing directory: a loop
        else:
            clilib.write(p, content(n[2], n[3]))


def wire(n, name=None):
    nm = sx(name if name is not None else n[1])
    if n[0] == "dir":
        return "(dir " + nm + "".join(" " + wire(c) for c in n[2]) + ")"
    if n[0] == "linkdir":
        return "(link " + nm + " (dir" + "".join(" " + wire(c) for c in n[2]) + "))"
    if n[0] == "link":
        return f"(link {nm} {n[3]})"
    return f"({n[0]} {nm})"


def is_loop(n):
    return n[0] == "link" and n[3] == "loop"


def link_ks(nodes):
    """the numbers of the files that are reached through a link to a regular file"""
    out = []
    for n in nodes:
        if n[0] == "link" and n[3] == "file":
            out.append(n[4])
        elif n[0] in ("dir", "linkdir"):
            out += link_ks(n[2])
    return out


def count_links(nodes, acc):
    for n in nodes:
        if n[0] == "link":
            bump(acc, "link to " + n[3])
        elif n[0] == "linkdir":
            bump(acc, "link to directory")
            count_links(n[2], acc)
        elif n[0] == "dir":
            count_links(n[2], acc)
    return acc


def nested_candidates(nodes, prefix=""):
    # (a link to the containing directory passed as an argument itself is not a loop for walkdir - its
    #  ancestor stack is empty -: not a shape of the model, never passed directly)
    out = []
    for n in nodes:
        if n[0] in ("dir", "linkdir"):
            for c in n[2]:
                if not is_loop(c):
                    out.append((prefix + n[1] + "/" + c[1], c))
            out += nested_candidates(n[2], prefix + n[1] + "/")
    return out


OPT_RE = re.compile(r'\((left|right|program|user_guide|proof_outline) \((?:none|some "((?:[^"\\]|\\.)*)")\)\)')
SPEC_RE = re.compile(r'\(specification \((?:none|some \((program|spec) "((?:[^"\\]|\\.)*)"\))\)\)')


def unesc(s):
    if s is None:
        return None
    b = bytearray()
    i = 0
    while i < len(s):
        if s[i] == "\\":
            if s[i + 1] == "x":
                b.append(int(s[i + 2:i + 4], 16))
                i += 4
            else:
                b.append(ord(s[i + 1]))
                i += 2
        else:
            b += s[i].encode()
            i += 1
    return b.decode()


ERR_RE = re.compile(r'^\(err \((io|loop) "((?:[^"\\]|\\.)*)"\)\)')


def model_roles(ans):
    m = ERR_RE.match(ans)
    if m:
        return {"walkdir_error": (m.group(1), unesc(m.group(2)))}
    roles = {}
    for m in OPT_RE.finditer(ans):
        roles[m.group(1)] = unesc(m.group(2))
    m = SPEC_RE.search(ans)
    roles["specification"] = (m.group(1), unesc(m.group(2))) if m and m.group(1) else None
    return roles


NUM = r"f__integer__\((\d+)\)"
DECODE = {
    "strong": {
        "left": re.compile(r"_left_\d+, axiom, .*?V1_g = " + NUM),
        "right": re.compile(r"_right_\d+, conjecture, .*?V1_g = " + NUM),
    },
    "external": {
        "spec_program": re.compile(r", axiom, !\[V1_g: general\]: \(p\(V1_g\) <=> V1_g = " + NUM),
        "spec_file": re.compile(r", axiom, !\[X_g: general\]: \(p\(X_g\) <=> X_g = " + NUM),
        "program": re.compile(r", conjecture, !\[V1_g: general\]: \(p\(V1_g\) => V1_g = " + NUM),
        "user_guide": re.compile(r", axiom, \?\[X_g: general\]: \(X_g = " + NUM),
        "proof_outline": re.compile(r", axiom, \?\[Y_g: general\]: \(Y_g = " + NUM),
    },
}


def role_case(exe, scratch, idx, seed):
    import random
    r = random.Random(seed)
    mode = r.choice(["strong", "external", "external"])
    weights = r.choice([[5, 1, 3, 1, 3], [3, 2, 3, 2, 2], [6, 0, 3, 0, 2], [2, 3, 3, 1, 1], [4, 1, 4, 2, 1], [1, 1, 1, 1, 6]])
    g = Gen(r)
    nodes = g.nodes(2, 7, "", weights)
    if mode == "strong" and r.random() < 0.5:
        # the program roles of strong equivalence must not depend on .spec/.ug/.po files that happen to
        # be among the arguments or inside the given directories
        plant(g, nodes, r.sample(["spec", "ug", "po"], r.choice([1, 1, 2, 3])) + (["lp", "lp"] if r.random() < 0.5 else []))
    args = [(n[1], n) for n in nodes]
    r.shuffle(args)
    if r.random() < 0.3:
        nested = nested_candidates(nodes)
        if nested:
            path, n = r.choice(nested)
            args.insert(r.randint(0, len(args)), (path, n))
    if args and r.random() < 0.1:
        args.append(r.choice(args))
    if r.random() < 0.15:
        # give a directory's content instead of the directory
        isdir = lambda a: a[1][0] in ("dir", "linkdir") and not any(is_loop(c) for c in a[1][2])
        args = [a for a in args if not isdir(a)] + [(a[0] + "/" + c[1], c) for a in args if isdir(a) for c in a[1][2]]
    res = run_tree(exe, scratch, f"roles{idx}", mode, nodes, args, g.ids)
    res.update({"idx": idx, "seed": seed})
    return res


def run_tree(exe, scratch, name, mode, nodes, args, ids):
    """materialise `nodes`, run `anthem verify` on the arguments `args` = [(path, node)], decode the roles"""
    root = os.path.join(scratch, name)
    os.makedirs(os.path.join(root, "in"))
    materialise(os.path.join(root, "in"), nodes, Store(os.path.join(root, "store")))
    line = "files_sort\t(" + " ".join(wire(n, name) for name, n in args) + ")"
    out = os.path.join(root, "out")
    os.makedirs(out)
    cmd = [exe, "verify", "--equivalence", mode, "--no-proof-search", "--save-problems", out] + [a[0] for a in args]
    rr = clilib.run(cmd, cwd=os.path.join(root, "in"))
    res = {"mode": mode, "line": line, "args": [a[0] for a in args], "ids": ids, "rc": rr.rc,
           "stderr": rr.err.decode("utf8", "replace").strip().split("\n")[0][:200],
           "stderr_full": rr.err.decode("utf8", "replace")[:1500], "crashed": rr.crashed, "observed": {},
           "links": count_links(nodes, {}), "link_ks": link_ks(nodes)}
    if rr.rc == 0:
        name = "forward_0.p" if mode == "strong" else "forward_problem_0.p"
        p = os.path.join(out, name)
        text = open(p).read() if os.path.exists(p) else ""
        res["problem_files"] = sorted(os.listdir(out))
        for role, rx in DECODE[mode].items():
            m = rx.search(text)
            res["observed"][role] = int(m.group(1)) if m else None
    return res


def walkdir_error_reported(o, exp):
    kind, path = exp
    text = o["stderr_full"]
    if o["rc"] == 0 or "unable to sort the given files by their function" not in text:
        return False
    if kind == "loop":
        return f"File system loop found: {path} points to an ancestor" in text
    return f"IO error for operation on {path}:" in text


def judge(o, ans):
    """-> (violation text or None, kind, expected, roles)"""
    roles = model_roles(ans)
    kind, exp = expected_of(o["mode"], roles, o["ids"])
    if kind == "walkdir":
        if not walkdir_error_reported(o, exp):
            return ("a dangling link / a link to a containing directory below the arguments was not reported as the walkdir error the model predicts"
                    " (finding F23: links must be followed or reported, never dropped silently)"), kind, exp, roles
    elif kind == "error":
        if o["rc"] == 0 or exp not in o["stderr"]:
            return "anthem accepted (or rejected differently) a file set for which the model finds a role unfilled", kind, exp, roles
    elif o["rc"] != 0:
        return "anthem rejected a file set for which the model fills every role", kind, exp, roles
    elif o["observed"] != exp:
        return "the file that played a role (whose formulas became axioms / conjectures) is not the one the model selects", kind, exp, roles
    return None, kind, exp, roles


def expected_of(mode, roles, ids):
    """model roles -> what must be observed: ('error', message) or ('roles', {...})"""
    idof = lambda p: ids.get(p) if p is not None else None
    if "walkdir_error" in roles:
        return ("walkdir", roles["walkdir_error"])
    if mode == "strong":
        if roles["left"] is None:
            return ("error", "no left program was provided")
        if roles["right"] is None:
            return ("error", "no right program was provided")
        return ("roles", {"left": idof(roles["left"]), "right": idof(roles["right"])})
    if roles["specification"] is None:
        return ("error", "no specification was provided")
    if roles["program"] is None:
        return ("error", "no program was provided")
    if roles["user_guide"] is None:
        return ("error", "no user guide was provided")
    kind, path = roles["specification"]
    return ("roles", {"spec_program": idof(path) if kind == "program" else None,
                      "spec_file": idof(path) if kind == "spec" else None,
                      "program": idof(roles["program"]), "user_guide": idof(roles["user_guide"]),
                      "proof_outline": idof(roles["proof_outline"])})


TOKEN = re.compile(r"[A-Za-z_][A-Za-z0-9_]*|\d+|\S")


def equal_up_to(a, b, allowed):
    """token streams equal under a consistent bijection whose non-identity pairs satisfy `allowed`"""
    ta, tb = TOKEN.findall(a), TOKEN.findall(b)
    if len(ta) != len(tb):
        return False, f"token counts differ: {len(ta)} vs {len(tb)}"
    fwd, bwd = {}, {}
    for x, y in zip(ta, tb):
        if fwd.setdefault(x, y) != y or bwd.setdefault(y, x) != x:
            return False, f"inconsistent renaming at `{x}` / `{y}`"
        if x != y and not allowed(x, y):
            return False, f"`{x}` became `{y}`"
    return True, ""


def swap_lr(x):
    return x.replace("_left_", "_@_").replace("_right_", "_left_").replace("_@_", "_right_")


NUMBERING = re.compile(r"^tff\((formula|predicate)_\d+_?")


def normal_lines(text, swap):
    """the problem in the shape of C20_swap_syntactic: (everything except type declarations and
    transition axioms IN ORDER - the preamble, then the annotated formulas of the two programs with
    their roles -, the multiset of transition axioms, the multiset of predicate declarations); the
    running numbers in the names are dropped, left_/right_ optionally exchanged"""
    ordered, transition, decls = [], [], []
    for ln in text.split("\n"):
        ln = NUMBERING.sub(lambda m: "tff(" + m.group(1) + "_", ln)
        if ln.startswith("tff(predicate_"):
            decls.append(ln)
            continue
        if ln.startswith("tff(formula_transition_axiom_"):
            transition.append(re.sub(r"^tff\(formula_transition_axiom_\d+,", "tff(formula_transition_axiom,", ln))
            continue
        if swap and ln.startswith("tff(formula_"):
            head, sep, rest = ln.partition(",")
            ln = swap_lr(head) + sep + rest
        ordered.append(ln)
    return ordered, sorted(transition), sorted(decls)


def first_difference(la, lb):
    for part, (x, y) in zip(("formulas in order", "transition axioms", "predicate declarations"), zip(la, lb)):
        if x != y:
            return part + ": " + repr(next((u, v) for u, v in zip(x + [""], y + [""]) if u != v))[:400]
    return ""


def swap_private(x, y):
    return x + "_p" == y or y + "_p" == x


def swap_case(exe, scratch, idx, mode, a, b, extra):
    root = os.path.join(scratch, f"swap{idx}")
    d1, d2 = os.path.join(root, "fwd"), os.path.join(root, "bwd")
    os.makedirs(d1)
    os.makedirs(d2)
    base = [exe, "verify", "--equivalence", mode, "--no-proof-search"]
    r1 = clilib.run(base + ["--direction", "forward", "--save-problems", d1, b, a] + extra)
    r2 = clilib.run(base + ["--direction", "backward", "--save-problems", d2, a, b] + extra)
    res = {"idx": idx, "mode": mode, "a": a, "b": b, "extra": extra, "rc": (r1.rc, r2.rc), "crashed": r1.crashed or r2.crashed,
           "problems": 0, "diff": None, "a_text": open(a).read(), "b_text": open(b).read()}
    if r1.rc != r2.rc:
        res["diff"] = f"exit codes differ: {r1.rc} vs {r2.rc}: {r1.err[-200:]!r} / {r2.err[-200:]!r}"
        return res
    if r1.rc != 0:
        return res
    f1, f2 = sorted(os.listdir(d1)), sorted(os.listdir(d2))
    if [x.replace("forward", "@") for x in f1] != [x.replace("backward", "@") for x in f2]:
        res["diff"] = f"problem names differ: {f1} vs {f2}"
        return res
    res["problems"] = len(f1)
    for x, y in zip(f1, f2):
        ta, tb = open(os.path.join(d1, x)).read(), open(os.path.join(d2, y)).read()
        if mode == "strong":
            la, lb = normal_lines(ta, True), normal_lines(tb, False)
            ok = la == lb
            why = "" if ok else "first difference in " + first_difference(la, lb)
            if ok and ta != swap_lr(tb) and res.get("order_differs") is None:
                res["order_differs"] = True
        else:
            # private predicates of the program side carry the suffix _p: exchange q <-> q_p in one file,
            # forget the formula names (they embed predicate names), compare as multisets of lines
            ids = set(TOKEN.findall(ta)) | set(TOKEN.findall(tb))
            priv = {q[:-2] for q in ids if q.endswith("_p") and len(q) > 2}
            swapped = "".join((t + "_p" if t in priv else t[:-2] if t.endswith("_p") and t[:-2] in priv else t)
                              for t in re.findall(r"[A-Za-z_][A-Za-z0-9_]*|[^A-Za-z_]+", ta))
            strip = lambda txt: sorted(re.sub(r"^tff\([A-Za-z0-9_]+,", "tff(_,", ln) for ln in txt.split("\n"))
            la, lb = strip(swapped), strip(tb)
            ok = la == lb
            why = "" if ok else "first differing formula: " + repr(next((u, v) for u, v in zip(la + [""], lb + [""]) if u != v))[:400]
        if not ok:
            res["diff"] = f"{x} vs {y}: {why}"
            break
    return res


def untuple(nodes):
    """JSON lists -> the tuple shapes of Gen.nodes"""
    return [tuple(untuple(x) if isinstance(x, list) else x for x in n) for n in nodes]


def tree_ids(nodes, prefix=""):
    ids = {}
    for n in nodes:
        if n[0] == "file":
            ids[prefix + n[1]] = n[3]
        elif n[0] == "link" and n[3] == "file":
            ids[prefix + n[1]] = n[4]
        elif n[0] in ("dir", "linkdir"):
            ids.update(tree_ids(n[2], prefix + n[1] + "/"))
    return ids


def regressions(ctx, with_harness):
    """Replay the recorded inputs of repaired findings (known_findings.jsonl, status `fixed`, property C20):
    `regression.cli` = {mode, nodes}: a file tree given to `anthem verify` (every top-level node is an
    argument, in order), judged against the model like a generated role case; `regression.op/input`:
    the same tree as a `files_sort` case (in-process, needs the harness).  A failure is reported FIRST."""
    exe = clilib.anthem_exe()
    for e in vlib.known_findings(ctx.prop):
        reg = e.get("regression")
        if e.get("status") != "fixed" or not reg:
            continue
        key = "regression-" + e["id"]
        if key in ctx.replayed:
            continue
        ctx.replayed.add(key)
        before = len(ctx.violations)
        if reg.get("cli"):
            with clilib.Scratch("C20-regression") as scratch:
                nodes = untuple(reg["cli"]["nodes"])
                o = run_tree(exe, scratch, e["id"], reg["cli"]["mode"], nodes, [(n[1], n) for n in nodes], tree_ids(nodes))
            ans = vlib.run_lines(vlib.DRIVER_EXE, [o["line"]])[0]
            what, kind, exp, roles = judge(o, ans)
            ctx.evaluations += 1
            if what:
                ctx.violation(f"finding {e['id']} (repaired by /repo {e.get('commit', '?')}) reproduces on its recorded input: {what}",
                              {"kind": "custom-tree", "finding": e["id"], "mode": o["mode"], "nodes": reg["cli"]["nodes"], "args": o["args"],
                               "tree": o["line"].split("\t", 1)[1], "file_ids": o["ids"], "model_roles": roles, "expected": [kind, exp],
                               "exit_code": o["rc"], "stderr": o["stderr_full"], "observed_file_numbers_by_role": o["observed"]}, True)
        if with_harness and reg.get("op"):
            line = f"{reg['op']}\t{reg['input']}"
            impl = vlib.run_lines(vlib.HARNESS_EXE, [line])[0]
            model = vlib.run_lines(vlib.DRIVER_EXE, [line])[0]
            ctx.evaluations += 1
            if impl != model:
                ctx.violation(f"finding {e['id']} (repaired by /repo {e.get('commit', '?')}) reproduces on its recorded input: Files::sort differs from the model",
                              {"kind": "correspondence", "finding": e["id"], "op": reg["op"], "input": reg["input"], "implementation": impl, "model": model}, True)
        # reported first: bin/check prints the first three violations with a failing input
        new = ctx.violations[before:]
        del ctx.violations[before:]
        ctx.violations[0:0] = new


def extra(ctx, cfg, results):
    regressions(ctx, True)
    cli_search(ctx, cfg)


def search_on_break(ctx, cfg, broken):
    """A build or proof obligation broke (e.g. the harness no longer compiles against the tree because
    an accessor of `Files` was removed or renamed).  The end-to-end part needs only the anthem CLI of
    the tree (built separately from the harness) and the model driver: run it anyway, so that a
    behavioural change is reported with the concrete argument list."""
    if not os.path.exists(vlib.DRIVER_EXE):
        try:
            vlib.build_driver()
        except vlib.Broken:
            return False
    before = sum(1 for _, _, f in ctx.violations if f)
    regressions(ctx, False)
    cli_search(ctx, cfg)
    return sum(1 for _, _, f in ctx.violations if f) > before


def cli_search(ctx, cfg):
    """the CLI-only part of the check (no harness): role cases against the model, swap cases"""
    exe = clilib.anthem_exe()
    thorough = ctx.tier == "thorough"
    n_roles = 12000 if thorough else 1600
    n_swaps = 600 if thorough else 120
    dist = {"mode": {}, "expected": {}, "args": {}, "files_per_case": {}, "decoded_role_holders": 0, "swap": {}, "swap_problems": 0,
            "strong_roles_filled_with_spec_ug_po_present": 0, "links": {}, "cases_where_a_role_holder_is_a_link": 0}
    with clilib.Scratch("C20") as scratch:
        r0 = clilib.rng(ctx, "roles")
        seeds = [r0.getrandbits(48) for _ in range(n_roles)]
        outs = clilib.pmap(lambda t: role_case(exe, scratch, t[0], t[1]), list(enumerate(seeds)))
        answers = vlib.run_lines(vlib.DRIVER_EXE, [o["line"] for o in outs])
        for o, ans in zip(outs, answers):
            ctx.evaluations += 1
            bump(dist["mode"], o["mode"])
            bump(dist["args"], str(min(len(o["args"]), 8)))
            bump(dist["files_per_case"], vlib.histogram([len(o["ids"])], buckets=(0, 2, 4, 8, 16)).popitem()[0])
            payload = {"kind": "custom-files", "mode": o["mode"], "args": o["args"], "tree": o["line"].split("\t", 1)[1],
                       "file_ids": o["ids"], "exit_code": o["rc"], "stderr": o["stderr"], "seed": o["seed"], "idx": o["idx"]}
            if o["crashed"]:
                ctx.violation("anthem crashed while sorting files / generating problems", payload, True)
                continue
            if not ans.startswith(("(files", "(err (")):
                ctx.violation("model driver could not evaluate a file tree", {**payload, "answer": ans[:300]}, False)
                continue
            what, kind, exp, roles = judge(o, ans)
            payload["model_roles"] = roles
            for k, v in o["links"].items():
                dist["links"][k] = dist["links"].get(k, 0) + v
            if kind in ("error", "walkdir"):
                bump(dist["expected"], exp if kind == "error" else f"walkdir error ({exp[0]})")
                if what:
                    payload["expected_error"] = exp
                    payload["stderr_full"] = o["stderr_full"]
                    ctx.violation(what, payload, True)
                continue
            bump(dist["expected"], "roles filled")
            if what and o["rc"] != 0:
                payload["expected_roles"] = exp
                ctx.violation(what, payload, True)
                continue
            ctx.nontrivial.add(o["line"] + o["mode"])
            if o["mode"] == "strong" and any(p.endswith((".spec", ".ug", ".po")) and len(os.path.basename(p)) > 5 for p in o["ids"]):
                dist["strong_roles_filled_with_spec_ug_po_present"] += 1
            dist["decoded_role_holders"] += sum(1 for v in o["observed"].values() if v is not None)
            holders = {v for v in exp.values() if v is not None}
            if holders & set(o["link_ks"]):
                dist["cases_where_a_role_holder_is_a_link"] += 1
            if what:
                payload.update({"expected_file_numbers_by_role": exp, "observed_file_numbers_by_role": o["observed"]})
                ctx.violation(what, payload, True)
            elif sum(1 for x in ctx.samples if "roles_observed" in x) < 2 and len(o["args"]) > 2:
                ctx.samples.insert(0, {"mode": o["mode"], "arguments": o["args"], "file_numbers": o["ids"], "roles_observed": o["observed"], "roles_model": exp})

        # swap cases
        r1 = clilib.rng(ctx, "swap")
        pairs = []
        for ex in ["successor", "squares", "bounds", "transitive", "choice", "trivial"]:
            pairs.append(("strong", clilib.example("strong_equivalence", ex, ex + ".1.lp"), clilib.example("strong_equivalence", ex, ex + ".2.lp"), []))
        pairs.append(("external", clilib.example("external_equivalence/cover/cover.1.lp"), clilib.example("external_equivalence/cover/cover.2.lp"),
                      [clilib.example("external_equivalence/cover/cover.ug")]))
        pairs.append(("external", clilib.example("external_equivalence/primes/simple/primes.1.lp"), clilib.example("external_equivalence/primes/simple/primes.2.lp"),
                      [clilib.example("external_equivalence/primes/simple/primes.ug")]))
        for g in range(n_swaps):
            d = os.path.join(scratch, f"swapgen{g}")
            ar = {}
            a = clilib.write(os.path.join(d, "a.lp"), clilib.gen_program(r1, arity_of=ar))
            b = clilib.write(os.path.join(d, "b.lp"), clilib.gen_program(r1, arity_of=ar))
            flags = r1.choice([[], [], ["--no-simplify"], ["--decomposition", "independent"], ["--no-eq-break"], ["--formula-representation", "mu"]])
            pairs.append(("strong", a, b, flags))
        souts = clilib.pmap(lambda t: swap_case(exe, scratch, t[0], t[1][0], t[1][1], t[1][2], t[1][3]), list(enumerate(pairs)))
        for o in souts:
            ctx.evaluations += 1
            payload = {"kind": "custom-swap", "mode": o["mode"], "a": o["a_text"], "b": o["b_text"], "flags": o["extra"], "difference": o["diff"]}
            if o["crashed"]:
                bump(dist["swap"], "crashed (reported under C16, not here)")
                continue
            if o["diff"]:
                ctx.violation("problems(B, A, forward) differ from problems(A, B, backward) beyond the left_/right_ names", payload, True)
                bump(dist["swap"], "differs")
            elif o["rc"][0] != 0:
                bump(dist["swap"], "both rejected")
            else:
                bump(dist["swap"], "equal up to names" + (" and the order of declarations / transition axioms" if o.get("order_differs") else ""))
                dist["swap_problems"] += o["problems"]
                if o["problems"]:
                    ctx.nontrivial.add(("swap", o["a_text"], o["b_text"], tuple(o["extra"])))
    ctx.distribution["cli_file_roles"] = dist
    log(f"C20 CLI runs: {n_roles} role cases ({dist['expected']}), {dist['decoded_role_holders']} role holders decoded from problem files; "
        f"swap cases {dist['swap']}")


def replay(ctx, cfg, r):
    import json
    exe = clilib.anthem_exe()
    if r.get("kind") in ("custom-files", "custom-tree"):
        with clilib.Scratch("C20-replay") as scratch:
            if r["kind"] == "custom-tree":
                nodes = untuple(r["nodes"])
                o = run_tree(exe, scratch, "tree", r["mode"], nodes, [(n[1], n) for n in nodes], tree_ids(nodes))
            else:
                o = role_case(exe, scratch, r["idx"], r["seed"])
            ans = vlib.run_lines(vlib.DRIVER_EXE, [o["line"]])[0]
            what, kind, exp, roles = judge(o, ans)
            print("mode:", o["mode"], "\narguments:", o["args"], "\nfile numbers:", o["ids"], "\ntree:", o["line"].split("\t", 1)[1])
            print("model roles:", roles, "\nexpected:", kind, exp)
            print("anthem: exit", o["rc"], o["stderr_full"].strip(), "\nobserved role holders:", o["observed"])
            bad = what is not None
            if bad:
                print("failure:", what)
        if bad:
            print(f"VIOLATION property={ctx.prop} replay=(re-run)")
            sys.exit(1)
        print("replay: no longer fails")
        sys.exit(0)
    if r.get("kind") == "custom-swap":
        with clilib.Scratch("C20-replay") as scratch:
            a = clilib.write(os.path.join(scratch, "a.lp"), r["a"])
            b = clilib.write(os.path.join(scratch, "b.lp"), r["b"])
            o = swap_case(exe, scratch, 0, r["mode"], a, b, r["flags"])
            print("difference:", o["diff"])
        if o["diff"]:
            print(f"VIOLATION property={ctx.prop} replay=(re-run)")
            sys.exit(1)
        print("replay: no longer fails")
        sys.exit(0)
    print(json.dumps(r, indent=1)[:4000])
    print(f"VIOLATION property={ctx.prop} replay=(recorded)")
    sys.exit(1)
