"""C04base: record the measured verdict ratio (tight / non-tight, private recursion yes / no) of the
generated programs in the evidence, so that a generator that only produces one verdict is visible."""


def extra(ctx, cfg, results):
    for op, (lines, impl, model) in results.items():
        if op != "is_tight":
            continue
        t = sum(1 for o in impl if o == "true")
        f = sum(1 for o in impl if o == "false")
        ctx.distribution.setdefault(op, {})["verdicts"] = {"true": t, "false": f, "other": len(impl) - t - f}
        ctx.notes.append(f"{op}: implementation verdicts true={t} false={f} other={len(impl) - t - f}")
        if t == 0 or f == 0:
            ctx.violation(f"generator of `{op}` produced a single verdict only (dead generator branch)",
                          {"kind": "custom-generator", "op": op, "true": t, "false": f}, False)
