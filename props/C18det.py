"""C18 (second half) — all outputs are deterministic.  EXPLORATION (sampling), not a proof.

Every case is one anthem command line; it is run in 3 fresh processes (fresh `RandomState` seeds
of std's hash maps, fresh address space) and the outputs are compared byte for byte: stdout,
stderr, exit status and, for `verify --save-problems`, every problem file.
Cases: translate (completion, gamma, mu, natural, tau-star), simplify (3 portfolios x 3
strategies), analyze, verify --no-proof-search --save-problems for strong and external
equivalence - on the shipped examples and on generated programs with many predicates and symbols
(the order of predicate / symbol declarations in a problem is where an unordered container would
show).  With proof search (stand-in prover, all Theorem, random delays): `-n 1` vs `-n 8` must
write the same problem files and announce the same problems in the same order, and report the
same multiset of results.
"""
import os
import re
import sys

sys.path.insert(0, os.path.dirname(os.path.abspath(__file__)))
import clilib
from clilib import vlib, log, bump
import c16lib


def many_symbol_program(r, npred, nsym, nrules):
    preds = [(f"p{i}" if i % 3 else f"q_{i}", r.choice([0, 1, 1, 2])) for i in range(npred)]
    syms = [f"s{i}" if i % 2 else f"c_{i}" for i in range(nsym)]

    def term(v):
        k = r.random()
        if k < 0.45:
            return r.choice(v)
        if k < 0.8:
            return r.choice(syms)
        return str(r.randint(-3, 9))

    def atom(v):
        p, a = r.choice(preds)
        return p if a == 0 else p + "(" + ",".join(term(v) for _ in range(a)) + ")"

    rules = []
    for _ in range(nrules):
        v = ["X", "Y", "Z"]
        body = [r.choice(["", "", "not ", "not not "]) + atom(v) for _ in range(r.choice([0, 1, 2, 3]))]
        if r.random() < 0.3:
            body.append(f"{r.choice(v)} {r.choice(['=', '!=', '<', '>='])} {term(v)}")
        k = r.random()
        if k < 0.1 and body:
            rules.append(":- " + ", ".join(body) + ".")
        else:
            h = atom(v)
            if k < 0.3:
                h = "{" + h + "}"
            rules.append(h + (" :- " + ", ".join(body) if body else "") + ".")
    return "\n".join(rules) + "\n", preds


def user_guide_for(r, prog_preds, text):
    heads = set(re.findall(r"^\{?([a-z_0-9]+)", text, re.M))
    lines = []
    for p, a in prog_preds:
        if p not in heads and r.random() < 0.7:
            lines.append(f"input: {p}/{a}.")
        elif p in heads and r.random() < 0.6:
            lines.append(f"output: {p}/{a}.")
    r.shuffle(lines)
    return "\n".join(lines) + "\n"


run_case = clilib.run_repeated


RESULT_BLOCK = re.compile(rb"> Proving (\S+) ended with a SZS status\nStatus: (\w+)\n")


def split_verify_stdout(out):
    """(announcements in order, sorted results, verdict line)"""
    ann = re.findall(rb"^> Proving (\S+)\.\.\.$", out, re.M)
    res = sorted(RESULT_BLOCK.findall(out))
    verdict = [ln for ln in out.split(b"\n") if ln.startswith(b"> Success") or ln.startswith(b"> Failure")]
    return ann, res, verdict


def extra(ctx, cfg, results):
    exe = clilib.anthem_exe()
    fake = clilib.fake_vampire_dir()
    thorough = ctx.tier == "thorough"
    n_gen = 300 if thorough else 80
    r = clilib.rng(ctx, "det")
    dist = {"cases": {}, "processes": 0, "problem_files_compared": 0, "nonempty_outputs": 0, "n1_vs_n8_cases": 0, "rejected_cases": 0}
    with clilib.Scratch("C18det") as scratch:
        cases = []   # (label, argv, save?)
        V = ["verify", "--no-proof-search", "--save-problems", "{out}", "--equivalence"]
        tasks = c16lib.example_tasks()
        lp_files, theory_files = [], []
        for eq, flags, files in tasks:
            cases.append((f"verify/{eq}/example", V + [eq] + flags + files, True))
            if r.random() < 0.5:
                cases.append((f"verify/{eq}/example/flags", V + [eq] + flags + files + r.choice([["--no-simplify"], ["--no-eq-break"], ["--decomposition", "independent"]]), True))
            for f in files:
                if f.endswith(".lp") and f not in lp_files:
                    lp_files.append(f)
        # generated programs
        gen = []
        for g in range(n_gen):
            text, preds = many_symbol_program(r, r.choice([6, 12, 25]), r.choice([3, 8, 20]), r.choice([4, 10, 25]))
            text2, _ = many_symbol_program(r, len(preds), 8, 6)
            d = os.path.join(scratch, f"gen{g}")
            a = clilib.write(os.path.join(d, "a.lp"), text)
            b = clilib.write(os.path.join(d, "b.lp"), text + text2 if r.random() < 0.5 else text2)
            ug = clilib.write(os.path.join(d, "g.ug"), user_guide_for(r, preds, text))
            gen.append((a, b, ug))
            lp_files += [a, b]
            cases.append(("verify/strong/generated", V + ["strong", a, b] + r.choice([[], [], ["--no-simplify"], ["--formula-representation", "mu"]]), True))
            cases.append(("verify/external/generated", V + ["external", "--bypass-tightness", a, b, ug], True))
        # theories: tau-star of every program (produced once, by anthem itself)
        def mk_theory(t):
            k, f = t
            rr = clilib.run([exe, "translate", "--with", "tau-star", f])
            if rr.rc == 0 and rr.out.strip():
                return clilib.write(os.path.join(scratch, "theories", f"t{k}.spec"), rr.out)
            return None
        theory_files = [t for t in clilib.pmap(mk_theory, list(enumerate(lp_files))) if t]
        for f in lp_files:
            for w in ["mu", "natural", "tau-star"]:
                cases.append((f"translate/{w}", ["translate", "--with", w, f], False))
            for p in ["regularity", "tightness"]:
                cases.append((f"analyze/{p}", ["analyze", "--property", p, f], False))
            cases.append(("parse/program", ["parse", "--as", "program", f], False))
        for f in theory_files:
            for w in ["gamma", "completion"]:
                cases.append((f"translate/{w}", ["translate", "--with", w, f], False))
            combos = [(p, s) for p in ["classic", "ht", "intuitionistic"] for s in ["shallow", "recursive", "fixpoint"]]
            for p, s in (combos if thorough else r.sample(combos, 4)):
                cases.append((f"simplify/{p}/{s}", ["simplify", "--portfolio", p, "--strategy", s, f], False))

        outs = clilib.pmap_processes(run_case, [(exe, scratch, i, c[1], c[2], 3, None) for i, c in enumerate(cases)])
        for (label, argv, save), obs in zip(cases, outs):
            bump(dist["cases"], label)
            dist["processes"] += len(obs)
            ctx.evaluations += len(obs)
            first = obs[0]
            if first[0] != 0:
                dist["rejected_cases"] += 1
            if first[1] or first[3]:
                dist["nonempty_outputs"] += 1
                ctx.nontrivial.add((label, tuple(argv)))
            dist["problem_files_compared"] += len(first[3]) * (len(obs) - 1)
            for k, o in enumerate(obs[1:], 1):
                if o != first:
                    what = ("exit status" if o[0] != first[0] else "stdout" if o[1] != first[1] else "stderr" if o[2] != first[2]
                            else "problem files " + str(sorted(set(first[3]) ^ set(o[3])) or [f for f in first[3] if first[3][f] != o[3].get(f)][:3]))
                    ctx.violation(f"two runs of the same command in separate processes differ in {what.split(' [')[0]}",
                                  {"kind": "custom-det", "argv": argv, "differs_in": what,
                                   "inputs": {f: open(f, encoding="utf8", errors="replace").read()[:3000] for f in argv if os.path.isfile(f)},
                                   "run_0": first[1][-600:].decode("latin1"), f"run_{k}": o[1][-600:].decode("latin1")}, True)
                    break
        # -n 1 vs -n 8 (proof search with the stand-in prover answering Theorem for everything after a random delay)
        ncases = []
        for eq, flags, files in tasks[: (len(tasks) if thorough else 8)]:
            ncases.append((eq, flags + files))
        for a, b, ug in gen[: (40 if thorough else 8)]:
            ncases.append(("strong", [a, b]))
        jobs = []
        for i, (eq, rest) in enumerate(ncases):
            for n in (1, 8):
                argv = ["verify", "--no-timing", "-n", str(n), "--save-problems", "{out}", "--equivalence", eq] + rest
                jobs.append((exe, scratch, 100000 + 2 * i + (n == 8), argv, True, 1, {"PATH": fake, "FAKE_VAMPIRE_DIR": "x", "FAKE_VAMPIRE_DEFAULT": "theorem"}))
        nouts = clilib.pmap_processes(run_case, jobs)
        for i, (eq, rest) in enumerate(ncases):
            o1, o8 = nouts[2 * i][0], nouts[2 * i + 1][0]
            dist["n1_vs_n8_cases"] += 1
            dist["processes"] += 2
            ctx.evaluations += 2
            a1, a8 = split_verify_stdout(o1[1]), split_verify_stdout(o8[1])
            if o1[0] != o8[0] or o1[3] != o8[3] or a1 != a8:
                what = ("exit status" if o1[0] != o8[0] else "problem files" if o1[3] != o8[3] else
                        "announcement order" if a1[0] != a8[0] else "results" if a1[1] != a8[1] else "verdict")
                ctx.violation(f"verify -n 1 and -n 8 differ in {what}", {"kind": "custom-det", "argv": rest, "equivalence": eq, "differs_in": what,
                                                                        "n1": o1[1][-500:].decode("latin1"), "n8": o8[1][-500:].decode("latin1")}, True)
            elif a1[0]:
                ctx.nontrivial.add(("n1n8", eq, tuple(rest)))
    ctx.distribution["determinism"] = dist
    ctx.samples.insert(0, {"note": "each case = one command line, run in 3 fresh processes, outputs compared byte for byte",
                           "example_case": cases[0][1][:8], "cases": sum(dist["cases"].values())})
    log(f"C18det: {sum(dist['cases'].values())} cases x 3 processes ({dist['nonempty_outputs']} with output, {dist['rejected_cases']} rejected), "
        f"{dist['problem_files_compared']} problem-file comparisons, {dist['n1_vs_n8_cases']} cases -n 1 vs -n 8")


def replay(ctx, cfg, r):
    import json
    print(json.dumps(r, indent=1)[:5000])
    exe = clilib.anthem_exe()
    argv = r.get("argv", [])
    if r.get("differs_in") and all((not a.endswith((".lp", ".ug", ".spec", ".po"))) or os.path.isfile(a) for a in argv) and "equivalence" not in r:
        with clilib.Scratch("C18det-replay") as scratch:
            obs = run_case((exe, scratch, 0, argv, "--save-problems" in argv, 3, None))
        if any(o != obs[0] for o in obs[1:]):
            print(f"VIOLATION property={ctx.prop} replay=(re-run)")
            sys.exit(1)
        print("replay: the three runs agree now")
        sys.exit(0)
    print(f"VIOLATION property={ctx.prop} replay=(recorded)")
    sys.exit(1)
