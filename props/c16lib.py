"""Library part of props/C16.py (importable by name, so that its functions can be sent to worker
processes): crash classes, corpus, mutators, the command matrix, running one input."""

import os
import re
import sys

sys.path.insert(0, os.path.dirname(os.path.abspath(__file__)))
import clilib
from clilib import vlib, log, bump

ISIZE_MAX = 2**63 - 1
USIZE_MAX = 2**64 - 1

# ------------------------------------------------------------------ known classes

DIGITS = re.compile(rb"\d+")
VNUM = re.compile(rb"\bV(\d+)\b")


def has_out_of_range_numeral(text):
    return any(len(m.group()) >= 19 and int(m.group()) > ISIZE_MAX for m in DIGITS.finditer(text))


def classify(cmd_id, text, stderr, timed_out=False):
    """The recorded class a crash belongs to, or None.  `text` is the mutated input (bytes)."""
    if b"ParseIntError" in stderr and has_out_of_range_numeral(text):
        return "F3a"
    if (b"attempt to add with overflow" in stderr and b"tau_star.rs" in stderr
            and any(USIZE_MAX - 4096 < int(m.group(1)) <= USIZE_MAX for m in VNUM.finditer(text))):
        return "F11"
    if timed_out and cmd_id.startswith("verify") and DEEP_TERM.search(text):
        return "F15"
    return None


# (atomic group: `-(` can be read as one item or as `-` then `(`; with an ordinary group a text with 50..99 such pairs
# - not in the class - made the search backtrack through 2^50 readings, and the worker that called classify() after a
# watchdog timeout on a loaded machine never returned: the check hung)
DEEP_TERM = re.compile(rb"(?>-\(?|\(|\d+\s*[-+*]\s*\(|\s){100,}")


def classify_inprocess(kind, text):
    """parse_any has no stderr: a panic while PARSING is in class F3a iff the input has such a numeral.
    (F14 - PlaceholderDeclaration::from_str panicked on every input - is repaired in /repo: a panic of that
    parser is a VIOLATION like any other; its regression cases are in corpus/parse_any_expect.txt.)"""
    return "F3a" if has_out_of_range_numeral(text) else None


# ------------------------------------------------------------------ corpus

def example_tasks():
    """[(equivalence, flags, [paths])] from the .tests files of the shipped examples"""
    tasks = []
    for root, _, names in sorted(os.walk(clilib.EXAMPLES)):
        if ".tests" not in names:
            continue
        for line in open(os.path.join(root, ".tests")):
            toks = line.split()
            if "verify" not in toks:
                continue
            eq = "strong" if ("strong" in line and "external" not in line.split("--equivalence")[1][:10]) else "external"
            files, flags = [], []
            skip = False
            for i, t in enumerate(toks):
                if skip:
                    skip = False
                    continue
                if t in ("tptp_compliance", "verify", "--no-proof-search"):
                    continue
                if t in ("--equivalence", "--save-problems"):
                    skip = True
                    continue
                if t.startswith("--equivalence="):
                    continue
                if t == "--direction":
                    flags += [t, toks[i + 1]]
                    skip = True
                    continue
                if t.startswith("--"):
                    flags.append(t)
                    continue
                files.append(os.path.join(root, t))
            if files and all(os.path.isfile(f) for f in files):
                tasks.append((eq, flags, files))
    return tasks


STRING_LIT = re.compile(r'"((?:[^"\\\n]|\\.)*)"')


def source_strings():
    out = set()
    for root, _, names in os.walk(os.path.join(vlib.REPO, "src")):
        for n in names:
            if not n.endswith(".rs"):
                continue
            text = open(os.path.join(root, n), encoding="utf8", errors="replace").read()
            for m in STRING_LIT.finditer(text):
                s = m.group(1)
                if not (2 <= len(s) <= 400) or "{}" in s or "{:" in s or "{self" in s:
                    continue
                if not re.search(r"[a-z]", s) or not re.search(r"[(:<>=.,$-]", s):
                    continue
                s = s.replace("\\n", "\n").replace('\\"', '"').replace("\\\\", "\\").replace("\\t", "\t")
                out.add(s)
    return sorted(out)


# ------------------------------------------------------------------ mutators

TOK = re.compile(r"[A-Za-z_][A-Za-z0-9_']*|\d+|\s+|<->|->|<-|:-|!=|<=|>=|\.\.|\$[gis]|#inf|#sup|.", re.S)
BIG = ["9223372036854775807", "9223372036854775806", "-9223372036854775807", "-9223372036854775808", "4611686018427387904",
       "9223372036854775808", "-9223372036854775809", "99999999999999999999", "100000000000000000000", "18446744073709551615",
       "18446744073709551616", "340282366920938463463374607431768211456"]
IN_RANGE = BIG[:5]
SOUP = ["+", "-", "*", "/", "\\", "..", "=", "!=", "<", ">", "<=", ">=", "->", "<-", "<->", "and", "or", "not", ":-", ",", ";", ".", "(", ")", "{", "}",
        "forall", "exists", "$i", "$g", "$s", "#inf", "#sup", ":", "|", "%", "$", "#", "@", "'", "\"", "~", "&"]


# tokens whose k-fold repetition (k = 3..6) probes the places where a grammar accepts a repetition
# (`x*`, `x+`, `x{0,2}` relaxed to `x*`, ...) that the tree builder (`translate_pair`) does not expect
REPEAT_WORDS = ["not", "forall", "exists", "and", "or", "input", "output", "assumption", "spec", "lemma", "definition", "inductive", "forward",
                "backward", "universal", "integer", "general", "symbol"]
REPEAT_SYMBOLS = ["-", "(", ")", "->", "<-", "<->", ":-", "..", "=", "!=", "<", ">", "<=", ">=", ",", ";", "{", "}", ".", "+", "*", "/", "\\", ":",
                  "$i", "$g", "$s", "$", "#inf", "#sup", "#", "[", "]"]
REPEATABLE = set(REPEAT_WORDS) | set(REPEAT_SYMBOLS)


def is_word(t):
    return t[:1].isalpha() or t[:1] == "_"


def repeat_at(toks, i, k, sep, pair=False):
    """the token list with token i (or token i together with the next non-space token) written k times"""
    toks = list(toks)
    unit = toks[i]
    if pair:
        j = i + 1
        while j < len(toks) and toks[j].isspace():
            j += 1
        if j < len(toks):
            unit = "".join(toks[i:j + 1])
            for x in range(i + 1, j + 1):
                toks[x] = ""
    if is_word(unit) or unit[-1:].isalnum():
        sep = sep or " "
    toks[i] = sep.join([unit] * k)
    return "".join(toks)


def repeat_mutant(r, toks, idx):
    """repeat one token (a keyword / operator / bracket of the text if it has one, else an inserted
    one) k = 3..6 times; keywords and operators are preferred to punctuation"""
    present = {}
    for i in idx:
        if toks[i] in REPEATABLE:
            present.setdefault(toks[i], []).append(i)
    k = r.choice([3, 3, 3, 4, 5, 6])
    if present and r.random() < 0.85:
        names = sorted(present)
        t = r.choices(names, [1 if n in ",.()" else 3 for n in names])[0]
        i = r.choice(present[t])
    elif r.random() < 0.5:
        i = r.choice(idx)                      # any token of the text (identifier, numeral, ...)
    else:
        i = r.choice(idx)
        toks = toks[:i] + [r.choice(sorted(REPEATABLE)), " "] + toks[i:]
    return repeat_at(toks, i, k, r.choice(["", " "]), pair=r.random() < 0.2)


# valid texts of every node type (harness op `parse_any`); the in-process stream repeats every token
# of every seed.  (A seed that does not parse as its node type is reported in the evidence notes.)
NODE_SEEDS = {
    "asp.PrecomputedTerm": ["#inf", "-5", "a", "#sup"],
    "asp.Variable": ["X", "Xa1"],
    "asp.UnaryOperator": ["-"],
    "asp.BinaryOperator": ["+", "..", "\\"],
    "asp.Term": ["-X+1", "(1..3)*a", "-(X)/2\\3"],
    "asp.Predicate": ["p/2"],
    "asp.Atom": ["p(X,1,a)", "p"],
    "asp.Sign": ["", "not", "not not"],
    "asp.Literal": ["not p(X)", "not not q"],
    "asp.Relation": ["<=", "!="],
    "asp.Comparison": ["X+1 != 2", "1..3 = X"],
    "asp.AtomicFormula": ["not p(X)", "X < 2"],
    "asp.Head": ["{p(X)}", "p(1)", "#false", ""],
    "asp.Body": ["p(X), not q(X); X = 1..3"],
    "asp.Rule": ["p(X) :- q(X), not not r(X), X != -1.", "{p} :- not q.", ":- p."],
    "asp.Program": ["p(X) :- not q(X).\n{q(1..3)}.\n:- p(a), X < -2."],
    "fol.UnaryOperator": ["-"],
    "fol.BinaryOperator": ["+", "*"],
    "fol.IntegerTerm": ["-X$i+1", "(n$i*2)-N$"],
    "fol.SymbolicTerm": ["a", "X$s", "c$s"],
    "fol.GeneralTerm": ["X", "X$g", "#inf", "c$g", "1+2"],
    "fol.Predicate": ["p/2"],
    "fol.Atom": ["p(X, 1+N$i, a)"],
    "fol.Relation": ["<=", "="],
    "fol.Guard": ["<= X$i+1", "!= a"],
    "fol.Comparison": ["1 < X$i <= 3", "X = a"],
    "fol.AtomicFormula": ["#true", "p(X)", "X != 1"],
    "fol.UnaryConnective": ["not"],
    "fol.Quantifier": ["forall", "exists"],
    "fol.Quantification": ["forall X Y$i", "exists N$"],
    "fol.Sort": ["integer", "g", "symbol"],
    "fol.FunctionConstant": ["c$i", "a$g"],
    "fol.Variable": ["X", "N$i", "S$s"],
    "fol.BinaryConnective": ["<->", "and", "<-"],
    "fol.Formula": ["forall X (p(X) and not q(X) -> exists Y$i (Y$i > X or Y$i = -1))", "p <-> q <- not not r"],
    "fol.Theory": ["forall X (p(X) -> q(X)).\nexists N$i (N$i > 1 and not p(N$i))."],
    "fol.Role": ["assumption", "inductive-lemma"],
    "fol.Direction": ["forward"],
    "fol.AnnotatedFormula": ["lemma(backward)[name]: forall X (p(X) -> not q(X))", "spec: p <-> q"],
    "fol.Specification": ["assumption(forward): forall X (p(X) -> X > 1).\nspec: q(1)."],
    "fol.PlaceholderDeclaration": ["input: n -> integer", "input: n"],
    "fol.UserGuideEntry": ["input: p/1", "output: q/0", "input: n -> integer", "assumption: forall X (p(X) -> X > n$i)"],
    "fol.UserGuide": ["input: p/1.\noutput: q/1.\ninput: n -> integer.\nassumption: forall X (p(X) -> X > n$i)."],
}
BROAD_KINDS = {"asp": ["asp.Program", "asp.Rule", "asp.Body", "asp.Literal", "asp.Term"],
               "fol": ["fol.Theory", "fol.Specification", "fol.UserGuide", "fol.Formula", "fol.AnnotatedFormula", "fol.UserGuideEntry", "fol.GeneralTerm"]}


def repeated_variants(text, ks=(3, 4, 6)):
    """every token of `text` repeated k times (with and without separating blanks), and every token
    together with its successor repeated 3 times"""
    toks = TOK.findall(text)
    out = []
    for i, t in enumerate(toks):
        if t.isspace():
            continue
        for k in ks:
            for sep in ([" "] if is_word(t) else ["", " "]):
                out.append(repeat_at(toks, i, k, sep))
        out.append(repeat_at(toks, i, 3, " ", pair=True))
    return out


def node_type_stream(kinds):
    """[(kind, text bytes)]: the seeds of every node type and their token-repetition variants, each
    parsed as its own node type and as the broad node types of its language"""
    out, seen = [], set()
    for kind in kinds:
        for seed in NODE_SEEDS.get(kind, []):
            for text in [seed] + repeated_variants(seed):
                for k in [kind] + BROAD_KINDS[kind.split(".")[0]]:
                    if k in kinds and (k, text) not in seen:
                        seen.add((k, text))
                        out.append((k, text.encode()))
    return out


# whole-file texts for the CLI stream: every token of a small file of each type, repeated
CLI_REPEAT_BASES = [
    "p(X) :- q(X), not r(X), X = 1..3, X != -Y.\n{s(X+1)} :- not not t(X); X < 2.\n",
    "forall X (p(X) and not q(X) -> exists Y$i (Y$i > X or Y$i = -1)).\np <-> q <- r.\n",
    "assumption(forward): forall X (p(X) -> q(X)).\nspec[name]: exists N$i (q(N$i) and 1 < N$i <= 3).\n",
    "input: p/1.\noutput: q/1.\ninput: n -> integer.\nassumption: forall X (p(X) -> X > n).\n",
    "definition(universal): forall X (aux(X) <-> p(X)).\ninductive-lemma: forall N$i (N$i >= 0 -> q(N$i)).\nlemma(backward): not not q(1).\n",
]


def cli_repeat_corpus():
    out, seen = [], set()
    for base in CLI_REPEAT_BASES:
        toks = TOK.findall(base)
        first = {}
        for i, t in enumerate(toks):
            if not t.isspace() and t in REPEATABLE:
                first.setdefault(t, i)
        for t, i in first.items():
            for k in ((3, 5) if is_word(t) else (3,)):
                text = repeat_at(toks, i, k, " " if is_word(t) or t in ("-", "(") else "")
                if text not in seen:
                    seen.add(text)
                    out.append(text)
    return out


def mutate(r, text):
    """one mutated variant of a text (str) -> bytes"""
    toks = TOK.findall(text)
    kind = r.choices(["delete", "dup", "swap", "inflate", "inflate_in", "bigvar", "soup", "paren", "nest", "arity", "special", "bytes", "splice", "repeat"],
                     [10, 10, 10, 10, 16, 6, 8, 8, 8, 4, 5, 4, 3, 14])[0]
    idx = [i for i, t in enumerate(toks) if not t.isspace()]
    if kind in ("delete", "dup", "swap", "soup", "paren", "repeat") and not idx:
        kind = "special"
    if kind == "repeat":
        return repeat_mutant(r, toks, idx).encode()[:4096]
    if kind == "delete":
        for _ in range(r.choice([1, 1, 2, 3])):
            if idx:
                i = r.choice(idx)
                toks[i] = ""
    elif kind == "dup":
        i = r.choice(idx)
        toks[i] = toks[i] * r.choice([2, 2, 3, 10])
    elif kind == "swap":
        i, j = r.choice(idx), r.choice(idx)
        toks[i], toks[j] = toks[j], toks[i]
    elif kind in ("inflate", "inflate_in"):
        nums = [i for i, t in enumerate(toks) if t.isdigit()]
        pool = BIG if kind == "inflate" else IN_RANGE
        if nums:
            for i in r.sample(nums, min(len(nums), r.choice([1, 1, 2]))):
                toks[i] = r.choice(pool)
        else:
            ids = [i for i, t in enumerate(toks) if re.fullmatch(r"[A-Z][A-Za-z0-9_]*", t)]
            if ids:
                toks[r.choice(ids)] = r.choice(pool)
            else:
                toks.append(" " + r.choice(pool))
    elif kind == "bigvar":
        ids = [i for i, t in enumerate(toks) if re.fullmatch(r"[A-Z][A-Za-z0-9_]*", t)]
        v = "V" + r.choice(["18446744073709551615", "18446744073709551614", "18446744073709551613", "18446744073709551616", "9223372036854775807", "0", "00", "1"])
        if ids:
            old = toks[r.choice(ids)]
            toks = [v if t == old else t for t in toks]
        else:
            toks.append(v)
    elif kind == "soup":
        for _ in range(r.choice([1, 2, 5, 20])):
            toks.insert(r.choice(idx), " " + r.choice(SOUP) + " ")
    elif kind == "paren":
        if r.random() < 0.5:
            par = [i for i, t in enumerate(toks) if t in "(){}"]
            if par:
                toks[r.choice(par)] = ""
            else:
                toks.insert(r.choice(idx), "(")
        else:
            toks.insert(r.choice(idx), r.choice(["(", ")", "((", "))", "{", "}"]))
    elif kind == "nest":
        n = r.choice([20, 50, 100, 200, 300, 400])
        shape = r.choice(["term", "neg", "not", "quant", "fparen", "minus", "binop", "impl"])
        if shape in ("neg", "minus", "binop") and n >= 200 and r.random() < 0.6:
            n = r.choice([20, 50, 90])        # (>= 100 is the recorded slow class F15: keep it rare, every hit costs 10 s)
        if shape == "term":
            return ("p(" + "(" * n + "1" + ")" * n + ").\n").encode()
        if shape == "neg":
            return ("p(" + "-(" * n + "X" + ")" * n + ") :- q(X).\n").encode()
        if shape == "minus":
            return ("p(" + "-" * n + "1).\n").encode()
        if shape == "binop":
            return ("p(" + "1+(" * n + "1" + ")" * n + ").\n").encode()
        if shape == "not":
            return (("not " * n) + "p(X)." ).encode() if r.random() < 0.5 else ("forall X (" + "not " * n + "p(X)).\n").encode()
        if shape == "quant":
            # (F16, repaired by 5394f74: rendering was exponential in this depth; a recurrence shows up as a timeout)
            pairs = r.choice([4, 8, 13, 16, 25, 50, 100, 200])
            return ("forall X (exists Y (" * pairs + "p(X,Y)" + "))" * pairs + ".\n").encode()
        if shape == "fparen":
            return ("(" * n + "p" + ")" * n + ".\n").encode()
        return ("p -> (" * n + "q" + ")" * n + ".\n").encode()
    elif kind == "arity":
        n = r.choice([50, 300, 600, 1000])
        form = r.choice(["atom", "ug", "ugbig", "show"])
        if form == "atom":
            return ("p(" + ",".join(["X"] * n) + ") :- q(X).\n").encode()
        if form == "ug":
            return (f"input: p/{n}.\noutput: q/{r.choice(BIG)}.\n").encode()
        if form == "ugbig":
            return (f"input: p/{r.choice(['18446744073709551615', '18446744073709551616', '4294967296'])}.\n").encode()
        return ("forall " + " ".join(f"X{i}" for i in range(n)) + " p(" + ",".join(f"X{i}" for i in range(n)) + ").\n").encode()
    elif kind == "special":
        return r.choice([b"", b"\n", b" \t\n", b"% only a comment\n", b"% a\n% b\n", b"%", b".", b"..", b":-.", b"p", b"p.", b"p. % trailing",
                         b"\xef\xbb\xbfp.\n", b"p.\r\nq.\r\n", b"p(\x00).\n", b"\x00", b"p :- q.\x00", b"p.\x1a", b"\xff\xfe", b"p(\xc3\x28).\n",
                         "p(ü).\n".encode(), "ü.\n".encode(), "p(X) :- q(X), X = \"a\".\n".encode(), b"#show p/1.\n", b"#const n = 1.\n",
                         b"p(" + b"a" * 4000 + b").\n", b"a" * 4090 + b".\n", b"p" + b"'" * 100 + b".\n"])
    elif kind == "bytes":
        b = bytearray(text.encode())
        for _ in range(r.choice([1, 2, 5])):
            pos = r.randrange(len(b) + 1)
            b[pos:pos] = r.choice([b"\x00", b"\xff", b"\xc3", b"\xe2\x82", b"\r", b"\x7f", b"\x1b[0m", "é".encode(), "∀".encode()])
        return bytes(b)[:4096]
    elif kind == "splice":
        cut = r.randrange(len(text) + 1)
        return (text[:cut] + text[r.randrange(len(text) + 1):]).encode()[:4096]
    return "".join(toks).encode()[:4096]


# ------------------------------------------------------------------ commands

FIX_PROGRAM = "q(X) :- p(X), not r(X).\n{r(X)} :- p(X).\n"
FIX_PROGRAM2 = "q(X) :- p(X), not r(X).\nr(X) :- p(X), not q(X), X > 3.\n"
FIX_SPEC = "assumption: forall X (p(X) -> exists N$i (N$i = X)).\nspec: forall X (q(X) -> p(X)).\n"
FIX_UG = "input: p/1.\noutput: q/1.\n"


def commands():
    cmds = []
    for k in ["program", "theory", "specification", "user-guide"]:
        cmds.append((f"parse/{k}", "lp", lambda f, d, k=k: ["parse", "--as", k, f]))
    cmds.append(("parse/program/default-output", "lp", lambda f, d: ["parse", "--as", "program", "--output", "default", f]))
    cmds.append(("parse/theory/default-output", "lp", lambda f, d: ["parse", "--as", "theory", "--output", "default", f]))
    for w in ["completion", "gamma", "mu", "natural", "tau-star"]:
        cmds.append((f"translate/{w}", "lp", lambda f, d, w=w: ["translate", "--with", w, f]))
    for p in ["classic", "ht", "intuitionistic"]:
        for s in ["shallow", "recursive", "fixpoint"]:
            cmds.append((f"simplify/{p}/{s}", "lp", lambda f, d, p=p, s=s: ["simplify", "--portfolio", p, "--strategy", s, f]))
    for p in ["regularity", "tightness"]:
        cmds.append((f"analyze/{p}", "lp", lambda f, d, p=p: ["analyze", "--property", p, f]))
    V = ["verify", "--no-proof-search", "--save-problems"]
    cmds.append(("verify/strong/left", "lp", lambda f, d: V + [d + "/out", "--equivalence", "strong", f, d + "/fix.lp"]))
    cmds.append(("verify/strong/right-mu", "lp", lambda f, d: V + [d + "/out", "--equivalence", "strong", "--formula-representation", "mu", d + "/fix.lp", f]))
    cmds.append(("verify/external/spec-program", "lp", lambda f, d: V + [d + "/out", "--equivalence", "external", f, d + "/fix.lp", d + "/fix.ug"]))
    cmds.append(("verify/external/program", "lp", lambda f, d: V + [d + "/out", "--equivalence", "external", "--bypass-tightness", d + "/fix.lp", f, d + "/fix.ug"]))
    cmds.append(("verify/external/specification", "spec", lambda f, d: V + [d + "/out", "--equivalence", "external", f, d + "/fix.lp", d + "/fix.ug"]))
    cmds.append(("verify/external/user-guide", "ug", lambda f, d: V + [d + "/out", "--equivalence", "external", d + "/fix.lp", d + "/fix2.lp", f]))
    cmds.append(("verify/external/proof-outline", "po", lambda f, d: V + [d + "/out", "--equivalence", "external", d + "/fix.lp", d + "/fix2.lp", d + "/fix.ug", f]))
    return cmds


def stdin_commands():
    """the same parsers reached through stdin (no file argument)"""
    return [("stdin/parse/program", ["parse", "--as", "program"]), ("stdin/parse/theory", ["parse", "--as", "theory"]),
            ("stdin/translate/tau-star", ["translate", "--with", "tau-star"]), ("stdin/simplify", ["simplify", "--portfolio", "classic", "--strategy", "fixpoint"])]


PANIC_AT = re.compile(rb"panicked at ([^\n]*?):(\d+):(\d+)")


def crash_site(rr):
    m = PANIC_AT.search(rr.err)
    if m:
        return m.group(1).decode("latin1").split("/src/")[-1] + ":" + m.group(2).decode()
    if rr.timed_out:
        return "timeout"
    return f"signal/exit {rr.rc}"


def run_input_job(job):
    return run_input(*job)


# ------------------------------------------------------------------ accepted texts (printed generated trees)

# harness op -> (share of the accepted stream, the commands that read that kind of text: prefixes of command ids)
ACCEPTED_KINDS = {
    "gen_text_theory": (52, ("simplify/", "translate/gamma", "translate/completion", "parse/theory", "stdin/simplify")),
    "gen_text_deep": (4, ("simplify/classic/fixpoint", "simplify/classic/recursive", "simplify/ht/fixpoint", "stdin/simplify")),
    "gen_text_program": (28, ("parse/program", "translate/mu", "translate/natural", "translate/tau-star", "analyze/", "verify/strong/",
                              "verify/external/spec-program", "verify/external/program", "stdin/parse/program", "stdin/translate/")),
    "gen_text_spec": (6, ("parse/specification", "verify/external/specification")),
    "gen_text_outline": (6, ("parse/specification", "verify/external/proof-outline")),
    "gen_text_ug": (4, ("parse/user-guide", "verify/external/user-guide")),
}


def sx_unstring(s):
    """inverse of the harness's string writer on one quoted string -> bytes"""
    assert s[0] == '"' and s[-1] == '"', s[:40]
    out = bytearray()
    i = 1
    while i < len(s) - 1:
        c = s[i]
        if c == "\\":
            if s[i + 1] == "x":
                out.append(int(s[i + 2:i + 4], 16))
                i += 4
            else:
                out.append(ord(s[i + 1]))
                i += 2
        else:
            out += c.encode("utf8")
            i += 1
    return bytes(out)


def accepted_texts(seed, total):
    """[(text bytes, only, origin)]: printed random trees of the framework's generators (harness ops
    gen_text_*), i.e. texts anthem ACCEPTS, each with the commands that read that kind of text"""
    out = []
    weight = sum(w for w, _ in ACCEPTED_KINDS.values())
    for op, (w, only) in ACCEPTED_KINDS.items():
        n = max(1, total * w // weight)
        seen = set()
        for ln in vlib.generate(op, seed, n):
            text = sx_unstring(ln.split("\t", 1)[1])
            if text in seen or len(text) > 6000:
                continue
            seen.add(text)
            out.append((text, only, "accepted:" + op[len("gen_text_"):]))
    return out


def run_input(exe, scratch, idx, text, task, only=None):
    """all commands on one input (with `only`: the commands whose id starts with one of these prefixes);
    returns a list of (cmd_id, argv, rc, crashed, class, site, stderr_tail)"""
    import shutil
    d = os.path.join(scratch, f"i{idx}")
    os.makedirs(os.path.join(d, "out"))
    for ext in ("lp", "spec", "ug", "po"):
        clilib.write(os.path.join(d, "in." + ext), text)
    clilib.write(os.path.join(d, "fix.lp"), FIX_PROGRAM)
    clilib.write(os.path.join(d, "fix2.lp"), FIX_PROGRAM2)
    clilib.write(os.path.join(d, "fix.spec"), FIX_SPEC)
    clilib.write(os.path.join(d, "fix.ug"), FIX_UG)
    res = []
    todo = [(cid, build(os.path.join(d, "in." + ext), d), None) for cid, ext, build in commands()]
    for cid, argv in stdin_commands():
        todo.append((cid, argv, text))
    if only is not None:
        todo = [t for t in todo if t[0].startswith(tuple(only))]
    if task:
        eq, flags, files, which = task
        repl = os.path.join(d, "in." + files[which].rsplit(".", 1)[1])
        tfiles = [repl if k == which else f for k, f in enumerate(files)]
        todo.append((f"verify/task/{eq}", ["verify", "--no-proof-search", "--save-problems", d + "/out", "--equivalence", eq] + flags + tfiles, None))
    for cid, argv, stdin in todo:
        rr = clilib.run([exe] + argv, stdin=stdin, timeout=10.0)
        if rr.timed_out and classify(cid, text, rr.err, True) is None:
            # 16 inputs run side by side: before calling it a hang, give it 40 s once more
            rr2 = clilib.run([exe] + argv, stdin=stdin, timeout=40.0)
            if not rr2.timed_out:
                rr = rr2
        crashed = rr.crashed
        cls = classify(cid, text, rr.err, rr.timed_out) if crashed else None
        res.append((cid, argv, rr.rc, crashed, cls, crash_site(rr) if crashed else None, rr.err[-400:].decode("latin1") if crashed else "",
                    len(rr.out) > 0))
    shutil.rmtree(d, ignore_errors=True)
    return res


def sx(b):
    out = '"'
    for c in b:
        if c in (0x22, 0x5C):
            out += "\\" + chr(c)
        elif 32 <= c <= 126:
            out += chr(c)
        else:
            out += "\\x%02x" % c
    return out + '"'


KINDS = None


def harness_kinds():
    global KINDS
    if KINDS is None:
        src = open(os.path.join(vlib.HARNESS, "src", "ops", "crash.rs")).read()
        KINDS = re.findall(r'"((?:asp|fol)\.[A-Za-z]+)" =>', src)
    return KINDS


def run_isolating(lines):
    """harness outputs; a case that kills the process (abort, stack overflow) is isolated"""
    outs = vlib.run_lines(vlib.HARNESS_EXE, lines)
    i = 0
    while i < len(outs):
        if outs[i].startswith("(process-died"):
            # the first such line of a shard is the culprit; re-run what follows it in that shard
            j = i + 1
            while j < len(outs) and outs[j].startswith("(process-died"):
                j += 1
            if j > i + 1:
                outs[i + 1:j] = run_isolating(lines[i + 1:j])
        i += 1
    return outs


