"""Library part of props/C16.py (importable by name, so that its functions can be sent to worker
processes): crash classes, corpus, mutators, the command matrix, running one input."""

import os
import re
import sys

sys.path.insert(0, os.path.dirname(os.path.abspath(__file__)))
import clilib
from clilib import vlib, log, bump

ISIZE_MAX = 2**63 - 1
USIZE_MAX = 2**64 - 1

# ------------------------------------------------------------------ known classes

DIGITS = re.compile(rb"\d+")
VNUM = re.compile(rb"\bV(\d+)\b")


def has_out_of_range_numeral(text):
    return any(len(m.group()) >= 19 and int(m.group()) > ISIZE_MAX for m in DIGITS.finditer(text))


# ---- measures of an input text (decidable on the text; one pass over its tokens, no recursion)
MTOK = re.compile(rb"[A-Za-z_][A-Za-z0-9_']*|\d+|<->|->|<-|:-|!=|<=|>=|\.\.|#[a-z]+|\$[gis]?|%[^\n]*|\s+|.", re.S)
M_OPS = {b"-", b"+", b"*", b"/", b"\\", b"..", b"not", b"and", b"or", b"->", b"<-", b"<->", b"forall", b"exists"}
M_SEPS = {b",", b";", b":-", b"."}


def measures(text):
    """(opdepth, nestdepth, width) of a text (bytes).

    The text is read as a tree of bracket groups `( .. )` / `{ .. }`, each cut into segments at `,` `;` `:-` `.`.
    ops(segment) = number of operator / connective / quantifier tokens (- + * / \\ .. not and or -> <- <-> forall exists)
    written directly in it.
    * opdepth  = max over segments of ops(segment) + max opdepth of the groups inside it.  An UPPER BOUND of the depth
      of operator nodes in the syntax tree anthem builds (every operator node above a leaf is written in one of the
      segments around the leaf), and equal to it on chains (`---1`, `1+(1+(..))`, `1+1+1..` which is left-nested,
      `not not ..`, `forall X (exists Y (..))`, `p -> (p -> ..)`).  Blanks and bare parentheses do not count.
    * nestdepth = the same with every bracket group counting 1 more: bounds the recursion depth of the PARSER.
    * width    = the largest number of `,`/`;`-separated items of one bracket group or of one statement (the literals
      of a rule body), or of consecutive variables (a quantifier block)."""
    def close_segment(fr):
        fr[0] = max(fr[0], fr[2] + fr[3])
        fr[1] = max(fr[1], fr[2] + fr[4])
        fr[2] = fr[3] = fr[4] = 0

    def close_group(stack):
        fr = stack.pop()
        close_segment(fr)
        up = stack[-1]
        up[3] = max(up[3], fr[0])
        up[4] = max(up[4], fr[1] + 1)
        return fr[5]

    # frame: [opdepth of closed segments, nestdepth of closed segments, ops of the open segment,
    #         max opdepth / nestdepth of the groups of the open segment, items]
    stack = [[0, 0, 0, 0, 0, 1]]
    width = run_vars = 0
    for m in MTOK.finditer(text):
        t = m.group()
        c = t[:1]
        if c.isspace() or c == b"%":
            continue
        fr = stack[-1]
        if t in M_OPS:
            fr[2] += 1
            run_vars = 0
        elif t in (b"(", b"{"):
            stack.append([0, 0, 0, 0, 0, 1])
            run_vars = 0
        elif t in (b")", b"}"):
            if len(stack) > 1:
                width = max(width, close_group(stack))
            run_vars = 0
        elif t in M_SEPS:
            close_segment(fr)
            if t in (b",", b";"):
                fr[5] += 1
            elif t == b"." and len(stack) == 1:      # end of a statement: its top-level items (body literals) are a group too
                width = max(width, fr[5])
                fr[5] = 1
            run_vars = 0
        elif c.isupper() or c == b"_":
            run_vars += 1
            width = max(width, run_vars)
        elif c != b"$":
            run_vars = 0
    while len(stack) > 1:
        width = max(width, close_group(stack))
    close_segment(stack[0])
    return stack[0][0], stack[0][1], max(width, stack[0][5])


# ---- the recorded classes (known_findings.jsonl).  Every class = a condition on the INPUT TEXT (decidable) plus the
# symptom plus, for the slow classes, a CONTROL RUN (the same command line without the slow stage must finish):
F15_OPDEPTH = 100      # F15: verify with simplification, operator nesting >= 100: slower than the watchdog
F20_NESTDEPTH = 1000   # F20: stack overflow (SIGABRT, "has overflowed its stack"), nesting >= 1000 (smallest aborting input observed: 1167)
F21_WIDTH = 40         # F21: verify with simplification / simplify, an atom or quantifier block of >= 40 items
F22_OPDEPTH = 500      # F22: `parse` with the default `--output debug` ({:#?} of the derived Debug impl), nesting >= 500
# watchdog of a run whose (input, command) is in a recorded slow class (the default is 10 s): such a run can only show
# "no panic / abort in the first seconds"; a timeout is booked in the class (after the control run)
SLOW_WATCHDOG = {"F15": 3.0, "F21": 3.0, "F22": 1.5}


def is_verify(cmd_id):
    return cmd_id.startswith(("verify", "wide/verify"))


def is_simplify(cmd_id):
    return cmd_id.startswith(("simplify", "stdin/simplify", "chain/simplify"))


def is_debug_parse(cmd_id):
    return cmd_id.startswith(("parse/", "stdin/parse/")) and not cmd_id.endswith("/default-output")


def slow_class(cmd_id, text, ms=None):
    """the recorded SLOW class the pair (command, input) is in, or None - decided before the run"""
    opdepth, nestdepth, width = ms or measures(text)
    cls = None
    if cmd_id.endswith("/no-simplify"):
        cls = None
    elif is_verify(cmd_id) and opdepth >= F15_OPDEPTH:
        cls = "F15"
    elif (is_verify(cmd_id) or is_simplify(cmd_id)) and width >= F21_WIDTH:
        cls = "F21"
    elif is_debug_parse(cmd_id) and opdepth >= F22_OPDEPTH:
        cls = "F22"
    return None if cls in closed_classes() else cls


def closed_classes():
    """the classes that are CLOSED in this run: their entry of known_findings.jsonl is not `known` any more (repaired), or
    their recorded input no longer shows the symptom on the tree under test (props/C16.py probes the fast ones before the
    stream and passes the result to the workers in the environment).  A crash of a closed class is a VIOLATION."""
    return set(filter(None, os.environ.get("C16_CLOSED_CLASSES", "").split(",")))


def classify(cmd_id, text, stderr, timed_out=False, rc=None, ms=None):
    """The recorded class a crash belongs to, or None.  `text` is the input (bytes).  (For a timeout the caller
    also requires the control run of the class to finish: run_input.)"""
    cls = classify_open_or_closed(cmd_id, text, stderr, timed_out, rc, ms)
    return None if cls in closed_classes() else cls


def classify_open_or_closed(cmd_id, text, stderr, timed_out, rc, ms):
    if b"ParseIntError" in stderr and has_out_of_range_numeral(text):
        return "F3a"
    if (b"attempt to add with overflow" in stderr and b"tau_star.rs" in stderr
            and any(USIZE_MAX - 4096 < int(m.group(1)) <= USIZE_MAX for m in VNUM.finditer(text))):
        return "F11"
    if timed_out:
        return slow_class(cmd_id, text, ms)
    if rc in (134, -6) and b"has overflowed its stack" in stderr and b"panicked at" not in stderr:
        if (ms or measures(text))[1] >= F20_NESTDEPTH:
            return "F20"
    return None


def control_argv(cls, argv):
    """the command line of the control run of a slow class: the same without the slow stage"""
    if cls in ("F15", "F21") and argv[0] == "verify":
        return argv[:1] + ["--no-simplify"] + argv[1:]
    if cls == "F21" and argv[0] == "simplify":
        return ["parse", "--as", "theory", "--output", "default"] + [a for a in argv[1:] if not a.startswith("--") and a not in
                                                                      ("classic", "ht", "intuitionistic", "shallow", "recursive", "fixpoint")]
    if cls == "F22" and argv[0] == "parse":
        return argv[:1] + ["--output", "default"] + argv[1:]
    return None


def classify_inprocess(kind, text):
    """parse_any has no stderr: a panic while PARSING is in class F3a iff the input has such a numeral.
    (F14 - PlaceholderDeclaration::from_str panicked on every input - is repaired in /repo: a panic of that
    parser is a VIOLATION like any other; its regression cases are in corpus/parse_any_expect.txt.)"""
    return "F3a" if has_out_of_range_numeral(text) else None


# ------------------------------------------------------------------ corpus

def example_tasks():
    """[(equivalence, flags, [paths])] from the .tests files of the shipped examples"""
    tasks = []
    for root, _, names in sorted(os.walk(clilib.EXAMPLES)):
        if ".tests" not in names:
            continue
        for line in open(os.path.join(root, ".tests")):
            toks = line.split()
            if "verify" not in toks:
                continue
            eq = "strong" if ("strong" in line and "external" not in line.split("--equivalence")[1][:10]) else "external"
            files, flags = [], []
            skip = False
            for i, t in enumerate(toks):
                if skip:
                    skip = False
                    continue
                if t in ("tptp_compliance", "verify", "--no-proof-search"):
                    continue
                if t in ("--equivalence", "--save-problems"):
                    skip = True
                    continue
                if t.startswith("--equivalence="):
                    continue
                if t == "--direction":
                    flags += [t, toks[i + 1]]
                    skip = True
                    continue
                if t.startswith("--"):
                    flags.append(t)
                    continue
                files.append(os.path.join(root, t))
            if files and all(os.path.isfile(f) for f in files):
                tasks.append((eq, flags, files))
    return tasks


STRING_LIT = re.compile(r'"((?:[^"\\\n]|\\.)*)"')


def source_strings():
    out = set()
    for root, _, names in os.walk(os.path.join(vlib.REPO, "src")):
        for n in names:
            if not n.endswith(".rs"):
                continue
            text = open(os.path.join(root, n), encoding="utf8", errors="replace").read()
            for m in STRING_LIT.finditer(text):
                s = m.group(1)
                if not (2 <= len(s) <= 400) or "{}" in s or "{:" in s or "{self" in s:
                    continue
                if not re.search(r"[a-z]", s) or not re.search(r"[(:<>=.,$-]", s):
                    continue
                s = s.replace("\\n", "\n").replace('\\"', '"').replace("\\\\", "\\").replace("\\t", "\t")
                out.add(s)
    return sorted(out)


# ------------------------------------------------------------------ mutators

TOK = re.compile(r"[A-Za-z_][A-Za-z0-9_']*|\d+|\s+|<->|->|<-|:-|!=|<=|>=|\.\.|\$[gis]|#inf|#sup|.", re.S)
BIG = ["9223372036854775807", "9223372036854775806", "-9223372036854775807", "-9223372036854775808", "4611686018427387904",
       "9223372036854775808", "-9223372036854775809", "99999999999999999999", "100000000000000000000", "18446744073709551615",
       "18446744073709551616", "340282366920938463463374607431768211456"]
IN_RANGE = BIG[:5]
SOUP = ["+", "-", "*", "/", "\\", "..", "=", "!=", "<", ">", "<=", ">=", "->", "<-", "<->", "and", "or", "not", ":-", ",", ";", ".", "(", ")", "{", "}",
        "forall", "exists", "$i", "$g", "$s", "#inf", "#sup", ":", "|", "%", "$", "#", "@", "'", "\"", "~", "&"]


# tokens whose k-fold repetition (k = 3..6) probes the places where a grammar accepts a repetition
# (`x*`, `x+`, `x{0,2}` relaxed to `x*`, ...) that the tree builder (`translate_pair`) does not expect
REPEAT_WORDS = ["not", "forall", "exists", "and", "or", "input", "output", "assumption", "spec", "lemma", "definition", "inductive", "forward",
                "backward", "universal", "integer", "general", "symbol"]
REPEAT_SYMBOLS = ["-", "(", ")", "->", "<-", "<->", ":-", "..", "=", "!=", "<", ">", "<=", ">=", ",", ";", "{", "}", ".", "+", "*", "/", "\\", ":",
                  "$i", "$g", "$s", "$", "#inf", "#sup", "#", "[", "]"]
REPEATABLE = set(REPEAT_WORDS) | set(REPEAT_SYMBOLS)


def is_word(t):
    return t[:1].isalpha() or t[:1] == "_"


def repeat_at(toks, i, k, sep, pair=False):
    """the token list with token i (or token i together with the next non-space token) written k times"""
    toks = list(toks)
    unit = toks[i]
    if pair:
        j = i + 1
        while j < len(toks) and toks[j].isspace():
            j += 1
        if j < len(toks):
            unit = "".join(toks[i:j + 1])
            for x in range(i + 1, j + 1):
                toks[x] = ""
    if is_word(unit) or unit[-1:].isalnum():
        sep = sep or " "
    toks[i] = sep.join([unit] * k)
    return "".join(toks)


def repeat_mutant(r, toks, idx):
    """repeat one token (a keyword / operator / bracket of the text if it has one, else an inserted
    one) k = 3..6 times; keywords and operators are preferred to punctuation"""
    present = {}
    for i in idx:
        if toks[i] in REPEATABLE:
            present.setdefault(toks[i], []).append(i)
    k = r.choice([3, 3, 3, 4, 5, 6])
    if present and r.random() < 0.85:
        names = sorted(present)
        t = r.choices(names, [1 if n in ",.()" else 3 for n in names])[0]
        i = r.choice(present[t])
    elif r.random() < 0.5:
        i = r.choice(idx)                      # any token of the text (identifier, numeral, ...)
    else:
        i = r.choice(idx)
        toks = toks[:i] + [r.choice(sorted(REPEATABLE)), " "] + toks[i:]
    return repeat_at(toks, i, k, r.choice(["", " "]), pair=r.random() < 0.2)


# valid texts of every node type (harness op `parse_any`); the in-process stream repeats every token
# of every seed.  (A seed that does not parse as its node type is reported in the evidence notes.)
NODE_SEEDS = {
    "asp.PrecomputedTerm": ["#inf", "-5", "a", "#sup"],
    "asp.Variable": ["X", "Xa1"],
    "asp.UnaryOperator": ["-"],
    "asp.BinaryOperator": ["+", "..", "\\"],
    "asp.Term": ["-X+1", "(1..3)*a", "-(X)/2\\3"],
    "asp.Predicate": ["p/2"],
    "asp.Atom": ["p(X,1,a)", "p"],
    "asp.Sign": ["", "not", "not not"],
    "asp.Literal": ["not p(X)", "not not q"],
    "asp.Relation": ["<=", "!="],
    "asp.Comparison": ["X+1 != 2", "1..3 = X"],
    "asp.AtomicFormula": ["not p(X)", "X < 2"],
    "asp.Head": ["{p(X)}", "p(1)", "#false", ""],
    "asp.Body": ["p(X), not q(X); X = 1..3"],
    "asp.Rule": ["p(X) :- q(X), not not r(X), X != -1.", "{p} :- not q.", ":- p."],
    "asp.Program": ["p(X) :- not q(X).\n{q(1..3)}.\n:- p(a), X < -2."],
    "fol.UnaryOperator": ["-"],
    "fol.BinaryOperator": ["+", "*"],
    "fol.IntegerTerm": ["-X$i+1", "(n$i*2)-N$"],
    "fol.SymbolicTerm": ["a", "X$s", "c$s"],
    "fol.GeneralTerm": ["X", "X$g", "#inf", "c$g", "1+2"],
    "fol.Predicate": ["p/2"],
    "fol.Atom": ["p(X, 1+N$i, a)"],
    "fol.Relation": ["<=", "="],
    "fol.Guard": ["<= X$i+1", "!= a"],
    "fol.Comparison": ["1 < X$i <= 3", "X = a"],
    "fol.AtomicFormula": ["#true", "p(X)", "X != 1"],
    "fol.UnaryConnective": ["not"],
    "fol.Quantifier": ["forall", "exists"],
    "fol.Quantification": ["forall X Y$i", "exists N$"],
    "fol.Sort": ["integer", "g", "symbol"],
    "fol.FunctionConstant": ["c$i", "a$g"],
    "fol.Variable": ["X", "N$i", "S$s"],
    "fol.BinaryConnective": ["<->", "and", "<-"],
    "fol.Formula": ["forall X (p(X) and not q(X) -> exists Y$i (Y$i > X or Y$i = -1))", "p <-> q <- not not r"],
    "fol.Theory": ["forall X (p(X) -> q(X)).\nexists N$i (N$i > 1 and not p(N$i))."],
    "fol.Role": ["assumption", "inductive-lemma"],
    "fol.Direction": ["forward"],
    "fol.AnnotatedFormula": ["lemma(backward)[name]: forall X (p(X) -> not q(X))", "spec: p <-> q"],
    "fol.Specification": ["assumption(forward): forall X (p(X) -> X > 1).\nspec: q(1)."],
    "fol.PlaceholderDeclaration": ["input: n -> integer", "input: n"],
    "fol.UserGuideEntry": ["input: p/1", "output: q/0", "input: n -> integer", "assumption: forall X (p(X) -> X > n$i)"],
    "fol.UserGuide": ["input: p/1.\noutput: q/1.\ninput: n -> integer.\nassumption: forall X (p(X) -> X > n$i)."],
}
BROAD_KINDS = {"asp": ["asp.Program", "asp.Rule", "asp.Body", "asp.Literal", "asp.Term"],
               "fol": ["fol.Theory", "fol.Specification", "fol.UserGuide", "fol.Formula", "fol.AnnotatedFormula", "fol.UserGuideEntry", "fol.GeneralTerm"]}


def repeated_variants(text, ks=(3, 4, 6)):
    """every token of `text` repeated k times (with and without separating blanks), and every token
    together with its successor repeated 3 times"""
    toks = TOK.findall(text)
    out = []
    for i, t in enumerate(toks):
        if t.isspace():
            continue
        for k in ks:
            for sep in ([" "] if is_word(t) else ["", " "]):
                out.append(repeat_at(toks, i, k, sep))
        out.append(repeat_at(toks, i, 3, " ", pair=True))
    return out


def node_type_stream(kinds):
    """[(kind, text bytes)]: the seeds of every node type and their token-repetition variants, each
    parsed as its own node type and as the broad node types of its language"""
    out, seen = [], set()
    for kind in kinds:
        for seed in NODE_SEEDS.get(kind, []):
            for text in [seed] + repeated_variants(seed):
                for k in [kind] + BROAD_KINDS[kind.split(".")[0]]:
                    if k in kinds and (k, text) not in seen:
                        seen.add((k, text))
                        out.append((k, text.encode()))
    return out


# whole-file texts for the CLI stream: every token of a small file of each type, repeated
CLI_REPEAT_BASES = [
    "p(X) :- q(X), not r(X), X = 1..3, X != -Y.\n{s(X+1)} :- not not t(X); X < 2.\n",
    "forall X (p(X) and not q(X) -> exists Y$i (Y$i > X or Y$i = -1)).\np <-> q <- r.\n",
    "assumption(forward): forall X (p(X) -> q(X)).\nspec[name]: exists N$i (q(N$i) and 1 < N$i <= 3).\n",
    "input: p/1.\noutput: q/1.\ninput: n -> integer.\nassumption: forall X (p(X) -> X > n).\n",
    "definition(universal): forall X (aux(X) <-> p(X)).\ninductive-lemma: forall N$i (N$i >= 0 -> q(N$i)).\nlemma(backward): not not q(1).\n",
]


def cli_repeat_corpus():
    out, seen = [], set()
    for base in CLI_REPEAT_BASES:
        toks = TOK.findall(base)
        first = {}
        for i, t in enumerate(toks):
            if not t.isspace() and t in REPEATABLE:
                first.setdefault(t, i)
        for t, i in first.items():
            for k in ((3, 5) if is_word(t) else (3,)):
                text = repeat_at(toks, i, k, " " if is_word(t) or t in ("-", "(") else "")
                if text not in seen:
                    seen.add(text)
                    out.append(text)
    return out


# ---- deep nesting: every shape up to what fits in 4 KB
NEST_SHAPES = {
    # programs
    "term": lambda n: "p(" + "(" * n + "1" + ")" * n + ").\n",
    "neg": lambda n: "p(" + "-(" * n + "X" + ")" * n + ") :- q(X).\n",
    "minus": lambda n: "p(" + "-" * n + "1).\n",
    "binop": lambda n: "p(" + "1+(" * n + "1" + ")" * n + ").\n",
    "chain": lambda n: "p(" + "1+" * n + "1).\n",                              # left-nested: depth n
    "chainx": lambda n: "p(" + "X*" * n + "X) :- q(X).\n",
    "body": lambda n: "p :- q(" + "-" * n + "1), X = " + "1-" * (n // 2) + "1.\n",
    "interval": lambda n: "p(" + "1.." * n + "1).\n",
    # theories / specifications / user guides / proof outlines
    "not": lambda n: "not " * n + "p(X).\n",
    "notq": lambda n: "forall X (" + "not " * n + "p(X)).\n",
    # (F16, repaired by 5394f74: rendering was exponential in this depth; a recurrence shows up as a timeout)
    "quant": lambda n: "forall X (exists Y (" * (n // 2) + "p(X,Y)" + "))" * (n // 2) + ".\n",
    "quantflat": lambda n: "".join(f"forall X{i} " for i in range(n)) + "p.\n",
    "fparen": lambda n: "(" * n + "p" + ")" * n + ".\n",
    "impl": lambda n: "p -> (" * n + "q" + ")" * n + ".\n",
    "conj": lambda n: "p and " * n + "q.\n",                                    # left-nested
    "rimp": lambda n: "p -> " * n + "q.\n",
    "limp": lambda n: "p <- " * n + "q.\n",
    "fminus": lambda n: "p(" + "-" * n + "1).\n",
    "fchain": lambda n: "p(" + "N$i+" * n + "1).\n",
    "cmp": lambda n: "1" + " < 1" * n + ".\n",                                    # one comparison with n guards
}
NEST_PROGRAM_SHAPES = ("term", "neg", "minus", "binop", "chain", "chainx", "body", "interval")
NEST_FORMULA_SHAPES = tuple(k for k in NEST_SHAPES if k not in NEST_PROGRAM_SHAPES)
NEST_PREFIXES = ["spec: ", "assumption: ", "lemma: ", "definition: ", "inductive-lemma: ", "assumption(forward): ", "input: p/0.\nassumption: "]
MAX_BYTES = 4096


def nest_text(shape, n, prefix=""):
    return (prefix + NEST_SHAPES[shape](n)).encode()


def nest_max(shape, prefix_len=32):
    """the largest n with nest_text(shape, n) <= 4 KB"""
    f = NEST_SHAPES[shape]
    lo, hi = 1, 4096
    while hi - lo > 1:
        mid = (lo + hi) // 2
        if len(f(mid)) + prefix_len <= MAX_BYTES:
            lo = mid
        else:
            hi = mid
    return lo


# ---- wide arities: an atom / quantifier block with many DIFFERENT variables, with a user guide that declares the arities
WIDE_FORMS = {
    "head-arith": lambda xs: "p(" + ",".join(x + "+1" for x in xs) + ") :- q(" + ",".join(xs) + ").\n",
    "plain": lambda xs: "p(" + ",".join(xs) + ") :- q(" + ",".join(xs) + ").\n",
    "choice": lambda xs: "{p(" + ",".join(xs) + ")} :- q(" + ",".join(xs) + ").\n",
    "body-arith": lambda xs: "p(" + ",".join(xs) + ") :- q(" + ",".join(x + "*2" for x in xs) + ").\n",
    "compare": lambda xs: "p(" + ",".join(xs) + ") :- q(" + ",".join(xs) + ")" + "".join(f", {a} < {b}" for a, b in zip(xs, xs[1:])) + ".\n",
    "negation": lambda xs: "p(" + ",".join(xs) + ") :- q(" + ",".join(xs) + "), not r(" + ",".join(xs) + ").\nr(" + ",".join(xs) + ") :- q(" + ",".join(xs) + "), " + xs[0] + " > 3.\n",
    "body-literals": lambda xs: "p(" + xs[0] + ") :- " + ", ".join(f"q({a}*2,{b})" for a, b in zip(xs, xs[1:] + xs[:1])) + ".\n",
    "facts": lambda xs: "p(" + ",".join(str(i) for i in range(len(xs))) + ").\np(" + ",".join(xs) + ") :- q(" + ",".join(xs) + ").\n",
}
WIDE_SIZES = [3, 8, 15, 20, 28] * 3 + [50, 75, 100, 150]      # (>= 40 is the recorded slow class F21: every verify / simplify costs a watchdog)


def wide_text(r, form=None, n=None):
    """(program bytes, user guide bytes, form, n): `output: p/n. input: q/n.`"""
    form = form or r.choice(sorted(WIDE_FORMS))
    n = n or r.choice(WIDE_SIZES)
    while True:
        text = WIDE_FORMS[form]([f"X{i}" for i in range(n)]).encode()
        if len(text) <= MAX_BYTES:
            break
        n = n * 3 // 4
    pa, qa = (1, 2) if form == "body-literals" else (n, n)
    return text, f"output: p/{pa}.\ninput: q/{qa}.\n".encode(), form, n


# ---- names that meet the names anthem itself creates: a symbolic constant / propositional atom / predicate x together
# with x__s (renamed constant), x_p / x_1 (renamed private predicate), hx / tx (here-and-there copies), x__i ..., used
# as propositional facts AND as terms (seeded/C16_r5: the renaming of a constant that clashes with an atom looped when the
# renamed name was an atom too: `a. a__s. p(a).`)
CLASH_AFFIXES = [("", ""), ("", "__s"), ("", "_p"), ("", "_1"), ("h", ""), ("t", ""), ("h", "__s"), ("", "__i"), ("", "__g"), ("", "__s__s")]


def clash_mutant(r, text, toks):
    names = sorted({t for t in toks if re.fullmatch(r"[a-z][A-Za-z0-9_]*", t) and t not in ("not", "and", "or", "forall", "exists", "input", "output")})
    x = r.choice(names) if names and r.random() < 0.7 else r.choice(["a", "p", "q", "c"])
    pred = r.choice([n for n in names if n != x] or ["p"])
    facts = []
    for pre, suf in CLASH_AFFIXES:
        v = pre + x + suf
        if r.random() < 0.7:
            facts.append(f"{v}.")
        if r.random() < 0.6:
            facts.append(f"{pred}({v})." if r.random() < 0.7 else f"{pred}({v}) :- {v}.")
    r.shuffle(facts)
    base = text if r.random() < 0.5 else ""
    return base.rstrip() + ("\n" if base else "") + "\n".join(facts) + "\n"


def mutate(r, text):
    """one mutated variant of a text (str) -> bytes"""
    toks = TOK.findall(text)
    kind = r.choices(["delete", "dup", "swap", "inflate", "inflate_in", "bigvar", "soup", "paren", "nest", "arity", "special", "bytes", "splice", "repeat", "clash"],
                     [10, 10, 10, 10, 16, 6, 8, 8, 8, 4, 5, 4, 3, 14, 4])[0]
    idx = [i for i, t in enumerate(toks) if not t.isspace()]
    if kind in ("delete", "dup", "swap", "soup", "paren", "repeat") and not idx:
        kind = "special"
    if kind == "repeat":
        return repeat_mutant(r, toks, idx).encode()[:4096]
    if kind == "clash":
        return clash_mutant(r, text, toks).encode()[:4096]
    if kind == "delete":
        for _ in range(r.choice([1, 1, 2, 3])):
            if idx:
                i = r.choice(idx)
                toks[i] = ""
    elif kind == "dup":
        i = r.choice(idx)
        toks[i] = toks[i] * r.choice([2, 2, 3, 10])
    elif kind == "swap":
        i, j = r.choice(idx), r.choice(idx)
        toks[i], toks[j] = toks[j], toks[i]
    elif kind in ("inflate", "inflate_in"):
        nums = [i for i, t in enumerate(toks) if t.isdigit()]
        pool = BIG if kind == "inflate" else IN_RANGE
        if nums:
            for i in r.sample(nums, min(len(nums), r.choice([1, 1, 2]))):
                toks[i] = r.choice(pool)
        else:
            ids = [i for i, t in enumerate(toks) if re.fullmatch(r"[A-Z][A-Za-z0-9_]*", t)]
            if ids:
                toks[r.choice(ids)] = r.choice(pool)
            else:
                toks.append(" " + r.choice(pool))
    elif kind == "bigvar":
        ids = [i for i, t in enumerate(toks) if re.fullmatch(r"[A-Z][A-Za-z0-9_]*", t)]
        v = "V" + r.choice(["18446744073709551615", "18446744073709551614", "18446744073709551613", "18446744073709551616", "9223372036854775807", "0", "00", "1"])
        if ids:
            old = toks[r.choice(ids)]
            toks = [v if t == old else t for t in toks]
        else:
            toks.append(v)
    elif kind == "soup":
        for _ in range(r.choice([1, 2, 5, 20])):
            toks.insert(r.choice(idx), " " + r.choice(SOUP) + " ")
    elif kind == "paren":
        if r.random() < 0.5:
            par = [i for i, t in enumerate(toks) if t in "(){}"]
            if par:
                toks[r.choice(par)] = ""
            else:
                toks.insert(r.choice(idx), "(")
        else:
            toks.insert(r.choice(idx), r.choice(["(", ")", "((", "))", "{", "}"]))
    elif kind == "nest":
        shape = r.choice(sorted(NEST_SHAPES))
        top = nest_max(shape)
        # most are shallow and cheap; one in five fills the 4 KB ("a few KB" of the property); the deep ones of a
        # program shape cost a watchdog per verify command (recorded slow class F15), so they are kept rarer
        deep = 0.05 if shape in NEST_PROGRAM_SHAPES else 0.15
        x = r.random()
        if x < deep / 2:
            n = top
        elif x < deep:
            n = r.choice([150, 250, 400, 700, 1000, 1500, 2000, 2800])
        else:
            n = r.choice([20, 50, 70])       # (well below the slow classes: time grows like the 3rd-4th power of the depth)
        return nest_text(shape, min(n, top), r.choice(NEST_PREFIXES) if shape in NEST_FORMULA_SHAPES and r.random() < 0.3 else "")
    elif kind == "arity":
        n = r.choice([50, 300, 600, 1000])
        form = r.choice(["atom", "ug", "ugbig", "show"])
        if form == "atom":
            return ("p(" + ",".join(["X"] * n) + ") :- q(X).\n").encode()
        if form == "ug":
            return (f"input: p/{n}.\noutput: q/{r.choice(BIG)}.\n").encode()
        if form == "ugbig":
            return (f"input: p/{r.choice(['18446744073709551615', '18446744073709551616', '4294967296'])}.\n").encode()
        return ("forall " + " ".join(f"X{i}" for i in range(n)) + " p(" + ",".join(f"X{i}" for i in range(n)) + ").\n").encode()
    elif kind == "special":
        return r.choice([b"", b"\n", b" \t\n", b"% only a comment\n", b"% a\n% b\n", b"%", b".", b"..", b":-.", b"p", b"p.", b"p. % trailing",
                         b"\xef\xbb\xbfp.\n", b"p.\r\nq.\r\n", b"p(\x00).\n", b"\x00", b"p :- q.\x00", b"p.\x1a", b"\xff\xfe", b"p(\xc3\x28).\n",
                         "p(ü).\n".encode(), "ü.\n".encode(), "p(X) :- q(X), X = \"a\".\n".encode(), b"#show p/1.\n", b"#const n = 1.\n",
                         b"p(" + b"a" * 4000 + b").\n", b"a" * 4090 + b".\n", b"p" + b"'" * 100 + b".\n"])
    elif kind == "bytes":
        b = bytearray(text.encode())
        for _ in range(r.choice([1, 2, 5])):
            pos = r.randrange(len(b) + 1)
            b[pos:pos] = r.choice([b"\x00", b"\xff", b"\xc3", b"\xe2\x82", b"\r", b"\x7f", b"\x1b[0m", "é".encode(), "∀".encode()])
        return bytes(b)[:4096]
    elif kind == "splice":
        cut = r.randrange(len(text) + 1)
        return (text[:cut] + text[r.randrange(len(text) + 1):]).encode()[:4096]
    return "".join(toks).encode()[:4096]


# ------------------------------------------------------------------ commands

# (the companion program must itself be accepted in every role: no choice rule / recursion on the private r/1)
FIX_PROGRAM = "q(X) :- p(X), not r(X).\nr(X) :- p(X), X > 3.\n"
FIX_PROGRAM2 = "q(X) :- p(X), not r(X).\nr(X) :- p(X), not q(X), X > 3.\n"     # (recursion through q/1: accepted only where q/1 is public)
FIX_PROGRAM3 = "q(X) :- p(X), not r(X).\nr(X) :- p(X), X > 2+1.\n"            # (no recursion: accepted under any user guide without `input: q/1`)
FIX_SPEC = "assumption: forall X (p(X) -> exists N$i (N$i = X)).\nspec: forall X (q(X) -> p(X)).\n"
FIX_UG = "input: p/1.\noutput: q/1.\n"


def commands():
    cmds = []
    for k in ["program", "theory", "specification", "user-guide"]:
        cmds.append((f"parse/{k}", "lp", lambda f, d, k=k: ["parse", "--as", k, f]))
    cmds.append(("parse/program/default-output", "lp", lambda f, d: ["parse", "--as", "program", "--output", "default", f]))
    cmds.append(("parse/theory/default-output", "lp", lambda f, d: ["parse", "--as", "theory", "--output", "default", f]))
    for w in ["completion", "gamma", "mu", "natural", "tau-star"]:
        cmds.append((f"translate/{w}", "lp", lambda f, d, w=w: ["translate", "--with", w, f]))
    for p in ["classic", "ht", "intuitionistic"]:
        for s in ["shallow", "recursive", "fixpoint"]:
            cmds.append((f"simplify/{p}/{s}", "lp", lambda f, d, p=p, s=s: ["simplify", "--portfolio", p, "--strategy", s, f]))
    for p in ["regularity", "tightness"]:
        cmds.append((f"analyze/{p}", "lp", lambda f, d, p=p: ["analyze", "--property", p, f]))
    V = ["verify", "--no-proof-search", "--save-problems"]
    cmds.append(("verify/strong/left", "lp", lambda f, d: V + [d + "/out", "--equivalence", "strong", f, d + "/fix.lp"]))
    cmds.append(("verify/strong/no-simplify", "lp", lambda f, d: V + [d + "/out", "--equivalence", "strong", "--no-simplify", f, d + "/fix.lp"]))
    cmds.append(("verify/strong/right-mu", "lp", lambda f, d: V + [d + "/out", "--equivalence", "strong", "--formula-representation", "mu", d + "/fix.lp", f]))
    cmds.append(("verify/external/spec-program", "lp", lambda f, d: V + [d + "/out", "--equivalence", "external", f, d + "/fix.lp", d + "/fix.ug"]))
    cmds.append(("verify/external/program", "lp", lambda f, d: V + [d + "/out", "--equivalence", "external", "--bypass-tightness", d + "/fix.lp", f, d + "/fix.ug"]))
    cmds.append(("verify/external/specification", "spec", lambda f, d: V + [d + "/out", "--equivalence", "external", f, d + "/fix.lp", d + "/fix.ug"]))
    cmds.append(("verify/external/user-guide", "ug", lambda f, d: V + [d + "/out", "--equivalence", "external", d + "/fix.lp", d + "/fix3.lp", f]))
    cmds.append(("verify/external/proof-outline", "po", lambda f, d: V + [d + "/out", "--equivalence", "external", d + "/fix.lp", d + "/fix2.lp", d + "/fix.ug", f]))
    return cmds


def stdin_commands():
    """the same parsers reached through stdin (no file argument)"""
    return [("stdin/parse/program", ["parse", "--as", "program"]), ("stdin/parse/theory", ["parse", "--as", "theory"]),
            ("stdin/translate/tau-star", ["translate", "--with", "tau-star"]), ("stdin/simplify", ["simplify", "--portfolio", "classic", "--strategy", "fixpoint"])]


PANIC_AT = re.compile(rb"panicked at ([^\n]*?):(\d+):(\d+)")


def crash_site(rr):
    m = PANIC_AT.search(rr.err)
    if m:
        return m.group(1).decode("latin1").split("/src/")[-1] + ":" + m.group(2).decode()
    if rr.timed_out:
        return "timeout"
    return f"signal/exit {rr.rc}"


def run_input_job(job):
    return run_input(*job)


def pmap_jobs(jobs, heavy):
    """run_input over all jobs in worker processes, results in order; the jobs whose index is in `heavy` (deep / wide
    inputs: dozens of watchdog expiries each) are started first, one per task, so that they do not queue up behind
    each other in one worker"""
    import concurrent.futures
    first = [i for i in range(len(jobs)) if i in heavy]
    rest = [i for i in range(len(jobs)) if i not in heavy]
    out = [None] * len(jobs)
    with concurrent.futures.ProcessPoolExecutor(max_workers=clilib.NPROC) as ex:
        a = ex.map(run_input_job, [jobs[i] for i in first], chunksize=1)
        b = ex.map(run_input_job, [jobs[i] for i in rest], chunksize=4)
        for i, r in zip(first, a):
            out[i] = r
        for i, r in zip(rest, b):
            out[i] = r
    return out


# ------------------------------------------------------------------ accepted texts (printed generated trees)

# harness op -> (share of the accepted stream, the commands that read that kind of text: prefixes of command ids)
ACCEPTED_KINDS = {
    "gen_text_theory": (52, ("simplify/", "translate/gamma", "translate/completion", "parse/theory", "stdin/simplify")),
    "gen_text_deep": (4, ("simplify/classic/fixpoint", "simplify/classic/recursive", "simplify/ht/fixpoint", "stdin/simplify")),
    "gen_text_program": (28, ("parse/program", "translate/mu", "translate/natural", "translate/tau-star", "analyze/", "verify/strong/",
                              "verify/external/spec-program", "verify/external/program", "stdin/parse/program", "stdin/translate/")),
    "gen_text_spec": (6, ("parse/specification", "verify/external/specification")),
    "gen_text_outline": (6, ("parse/specification", "verify/external/proof-outline")),
    "gen_text_ug": (4, ("parse/user-guide", "verify/external/user-guide")),
}


def sx_unstring(s):
    """inverse of the harness's string writer on one quoted string -> bytes"""
    assert s[0] == '"' and s[-1] == '"', s[:40]
    out = bytearray()
    i = 1
    while i < len(s) - 1:
        c = s[i]
        if c == "\\":
            if s[i + 1] == "x":
                out.append(int(s[i + 2:i + 4], 16))
                i += 4
            else:
                out.append(ord(s[i + 1]))
                i += 2
        else:
            out += c.encode("utf8")
            i += 1
    return bytes(out)


def accepted_texts(seed, total):
    """[(text bytes, only, origin)]: printed random trees of the framework's generators (harness ops
    gen_text_*), i.e. texts anthem ACCEPTS, each with the commands that read that kind of text"""
    out = []
    weight = sum(w for w, _ in ACCEPTED_KINDS.values())
    for op, (w, only) in ACCEPTED_KINDS.items():
        n = max(1, total * w // weight)
        seen = set()
        for ln in vlib.generate(op, seed, n):
            text = sx_unstring(ln.split("\t", 1)[1])
            if text in seen or len(text) > 6000:
                continue
            seen.add(text)
            out.append((text, only, "accepted:" + op[len("gen_text_"):]))
    return out


WIDE_COMMANDS = [("wide/verify/external", []), ("wide/verify/external/forward", ["--direction", "forward"]),
                 ("wide/verify/external/no-eq-break", ["--no-eq-break"])]
CHAIN_SIMPLIFY = [(p, s) for p in ("classic", "ht", "intuitionistic") for s in ("shallow", "recursive", "fixpoint")]


def run_one(exe, cid, argv, stdin, text, ms):
    """one command under the watchdog -> (Run, class or None).  A timeout counts as a crash.  It is booked in a
    recorded slow class only if the pair (command, input text) is in that class AND the control run of the class
    (the same command line without the slow stage) finishes; otherwise it is retried once with 40 s."""
    slow = slow_class(cid, text, ms)
    rr = clilib.run([exe] + argv, stdin=stdin, timeout=SLOW_WATCHDOG[slow] if slow else 10.0)
    if rr.timed_out and slow:
        ctl = control_argv(slow, argv)
        ok = False
        if ctl:
            cr = clilib.run([exe] + ctl, stdin=stdin, timeout=10.0)
            if cr.timed_out:
                cr = clilib.run([exe] + ctl, stdin=stdin, timeout=40.0)
            # (the control run of a deep input may itself end in the recorded stack overflow F20: `verify --no-simplify`
            # aborts from nesting 1167 on, where the run with simplification is still simplifying)
            ok = (not cr.crashed and cr.rc == 0) or (cr.crashed and not cr.timed_out and classify(cid, text, cr.err, False, cr.rc, ms) == "F20")
        if ok:
            return rr, slow
        slow = None
    if rr.timed_out:
        # 16 inputs run side by side: before calling it a hang, give it 40 s once more
        rr2 = clilib.run([exe] + argv, stdin=stdin, timeout=40.0)
        if not rr2.timed_out:
            rr = rr2
    if not rr.crashed:
        return rr, None
    return rr, (None if rr.timed_out else classify(cid, text, rr.err, False, rr.rc, ms))


def run_input(exe, scratch, idx, text, task, only=None, wide=None):
    """all commands on one input (with `only`: the commands whose id starts with one of these prefixes);
    `wide` = the user guide (bytes) that declares the predicates of the program `text`: the program is also verified
    against itself under that user guide, and its tau-star translation goes through the nine simplify variants.
    returns a list of (cmd_id, argv, rc, crashed, class, site, stderr_tail, has_output, wall seconds of the last attempt)"""
    import shutil
    d = os.path.join(scratch, f"i{idx}")
    os.makedirs(os.path.join(d, "out"))
    for ext in ("lp", "spec", "ug", "po"):
        clilib.write(os.path.join(d, "in." + ext), text)
    clilib.write(os.path.join(d, "fix.lp"), FIX_PROGRAM)
    clilib.write(os.path.join(d, "fix2.lp"), FIX_PROGRAM2)
    clilib.write(os.path.join(d, "fix3.lp"), FIX_PROGRAM3)
    clilib.write(os.path.join(d, "fix.spec"), FIX_SPEC)
    clilib.write(os.path.join(d, "fix.ug"), FIX_UG)
    ms = measures(text)
    res = []
    todo = [(cid, build(os.path.join(d, "in." + ext), d), None) for cid, ext, build in commands()]
    for cid, argv in stdin_commands():
        todo.append((cid, argv, text))
    if only is not None:
        todo = [t for t in todo if t[0].startswith(tuple(only))]
    if task:
        eq, flags, files, which = task
        repl = os.path.join(d, "in." + files[which].rsplit(".", 1)[1])
        tfiles = [repl if k == which else f for k, f in enumerate(files)]
        todo.append((f"verify/task/{eq}", ["verify", "--no-proof-search", "--save-problems", d + "/out", "--equivalence", eq] + flags + tfiles, None))
    if wide is not None:
        clilib.write(os.path.join(d, "wide.ug"), wide)
        for cid, flags in WIDE_COMMANDS:
            todo.append((cid, ["verify", "--no-proof-search", "--save-problems", d + "/out", "--equivalence", "external"] + flags
                         + [d + "/in.lp", d + "/in.lp", d + "/wide.ug"], None))
    for cid, argv, stdin in todo:
        rr, cls = run_one(exe, cid, argv, stdin, text, ms)
        crashed = rr.crashed
        res.append((cid, argv, rr.rc, crashed, cls, crash_site(rr) if crashed else None, rr.err[-400:].decode("latin1") if crashed else "",
                    len(rr.out) > 0, rr.wall))
        if wide is not None and cid == "translate/tau-star" and rr.rc == 0 and not crashed:
            # what anthem printed goes back in: the nine simplify variants on the tau-star theory of the wide program
            clilib.write(os.path.join(d, "chain.th"), rr.out)
            for p, s in CHAIN_SIMPLIFY:
                ccid = f"chain/simplify/{p}/{s}"
                cargv = ["simplify", "--portfolio", p, "--strategy", s, d + "/chain.th"]
                cr, ccls = run_one(exe, ccid, cargv, None, rr.out, measures(rr.out))
                res.append((ccid, cargv, cr.rc, cr.crashed, ccls, crash_site(cr) if cr.crashed else None,
                            cr.err[-400:].decode("latin1") if cr.crashed else "", len(cr.out) > 0, cr.wall))
    shutil.rmtree(d, ignore_errors=True)
    return res


def sx(b):
    out = '"'
    for c in b:
        if c in (0x22, 0x5C):
            out += "\\" + chr(c)
        elif 32 <= c <= 126:
            out += chr(c)
        else:
            out += "\\x%02x" % c
    return out + '"'


KINDS = None


def harness_kinds():
    global KINDS
    if KINDS is None:
        src = open(os.path.join(vlib.HARNESS, "src", "ops", "crash.rs")).read()
        KINDS = re.findall(r'"((?:asp|fol)\.[A-Za-z]+)" =>', src)
    return KINDS


def run_isolating(lines):
    """harness outputs; a case that kills the process (abort, stack overflow) is isolated"""
    outs = vlib.run_lines(vlib.HARNESS_EXE, lines)
    i = 0
    while i < len(outs):
        if outs[i].startswith("(process-died"):
            # the first such line of a shard is the culprit; re-run what follows it in that shard
            j = i + 1
            while j < len(outs) and outs[j].startswith("(process-died"):
                j += 1
            if j > i + 1:
                outs[i + 1:j] = run_isolating(lines[i + 1:j])
        i += 1
    return outs


