"""C16 runtime part: the input stream.

Inputs (at most 4 KB): the shipped example files and the string literals of /repo/src (unit-test inputs), mutated
(token deletion / duplication / swap, numeral inflation to the limits of isize/usize and beyond, huge variable
indices, names that meet anthem's own generated names, operator soup, unbalanced parentheses, 20 nesting shapes
from 20 levels to what fits in 4 KB, huge arities, empty file, comments only, NUL / non-UTF-8 bytes, CRLF, BOM, a
token / keyword repeated 3..6 times); wide programs with a user guide that declares their predicates; a fixed corpus
(every keyword / operator / bracket of a small file of each type repeated, every nesting shape at 4 KB, one wide
program of every form) and - in-process - every token of valid texts of every node type repeated; printed random
trees of the framework's generators (accepted texts).
Every input goes through EVERY command of the CLI (parse --as x4 (+2), translate --with x5, simplify 3x3, analyze x2,
verify in eight role assignments + the example's own task, 4 commands on stdin; a wide program also through verify
external against itself x3 and its tau-star theory through simplify 3x3) under a 10 s watchdog, and through
`str::parse::<T>()` of all 43 node types in-process (harness op `parse_any`).

A crash = exit status 101 / 134, "panicked at" on stderr, death by signal, or a timeout.  Crashes inside the recorded
classes (known_findings.jsonl: F3a, F11 panics; F20 stack overflow abort; F15, F21, F22 slower than the watchdog; F3b,
F14, F16, N1, F19 are repaired) are counted; a class is recognised from the INPUT TEXT (c16lib.measures: operator nesting,
bracket nesting, width; a digit run beyond isize::MAX; ..) together with the symptom and, for the slow classes, a
control run, so that a different crash on the same input, or the same symptom on another kind of input, is still a
VIOLATION whose replay is the input file and the command.  A class whose entry is no longer `known`, or whose recorded
input no longer shows its panic / abort on the tree under test, is closed: nothing is booked in it.
A command id that accepts no input of the run stops the check with INTERNAL-ERROR (exit status 2).
"""
import os
import re
import sys

sys.path.insert(0, os.path.dirname(os.path.abspath(__file__)))
import clilib
from clilib import vlib, log, bump
import c16lib
from c16lib import *  # noqa: F401,F403  (classify, mutate, commands, run_input, ...)

# (text, suffix of the file of a shipped verify task it replaces)
FIXED_TASK_INPUTS = [
    ("output: q/9223372036854775806.\n", "external_equivalence/trivial/first_order/first_order.ug"),
]

# ------------------------------------------------------------------ the hook

def cli_search(ctx, cfg):
    """the CLI-only part (bin/check falls back to it when the harness does not build against the tree)"""
    extra(ctx, cfg, {}, inprocess=False)


def extra(ctx, cfg, results, inprocess=True):
    exe = clilib.anthem_exe()
    thorough = ctx.tier == "thorough"
    # sizes of the stream: props/C16.json "stream": {"quick": {..}, "thorough": {..}} (defaults below)
    sizes = dict({"inputs": 12000, "in_process": 8000, "accepted": 30000} if thorough else {"inputs": 1800, "in_process": 900, "accepted": 5000})
    sizes.update(cfg.get("stream", {}).get("thorough" if thorough else "quick", {}))
    n_inputs, n_inproc, n_accepted = sizes["inputs"], sizes["in_process"], sizes["accepted"]
    if os.environ.get("C16_SMALL"):          # debugging aid (trying a recogniser / a seeded change quickly): the fixed inputs and few others
        n_inputs, n_inproc, n_accepted = 300, 50, 400
    r = clilib.rng(ctx, "inputs")
    tasks = example_tasks()
    strings = source_strings()
    dist = {"inputs": 0, "cli_runs": 0, "mutation": {}, "accepted_by_command": {}, "rejected_by_command": {}, "known_class_crashes": {}, "known_class_by_command": {},
            "corpus": {"example_tasks": len(tasks), "source_string_literals": len(strings)}, "input_size": {}, "in_process_cases": 0,
            "in_process_outcomes": {}}
    inputs = []     # (text bytes, task or None, origin)
    # unmutated corpus first (a tenth), then mutants
    for eq, flags, files in tasks:
        for which, f in enumerate(files):
            inputs.append((open(f, "rb").read()[:4096], (eq, flags, files, which), "example:" + os.path.basename(f)))
    fixed = ["p(99999999999999999999).\n", "p(-9223372036854775808).\n", "p(V18446744073709551615, V1) :- q.\n",
             "forall X (X = 99999999999999999999).\n", "input: p/18446744073709551616.\n", "p(9223372036854775807+1).\n",
             "p(X) :- X = -9223372036854775808.\n", "forall X$i (X$i = -9223372036854775808 -> p(X$i)).\n"]
    for t in fixed:
        inputs.append((t.encode(), None, "fixed"))
    # fixed inputs that replace one file of a shipped task (regression inputs of repaired findings):
    # F19 (18b2e85; introduced by the repair of F17, 70e6ace): the empty completed definition built for a declared
    # output predicate that occurs on neither side was as large as its arity - `output: q/9223372036854775806.` as the
    # user guide of trivial/first_order made verify hang (the check found it by mutating an example user guide; a
    # recurrence shows up as a timeout of verify/task/external on this input)
    for text, suffix in FIXED_TASK_INPUTS:
        for eq, flags, files in tasks:
            which = [k for k, f in enumerate(files) if f.endswith(suffix)]
            if which:
                inputs.append((text.encode(), (eq, flags, files, which[0]), "fixed"))
                break
        else:
            ctx.notes.append(f"fixed task input: no shipped task with a file {suffix}")
    # every keyword / operator / bracket of a small file of each type, repeated 3 (5) times
    repeated = cli_repeat_corpus()
    for t in repeated:
        inputs.append((t.encode(), None, "fixed: repeated token"))
    # every nesting shape at the 4 KB the property's quantifier names, and one wide program of every form with its user guide
    wide_of = {}
    for shape in sorted(NEST_SHAPES):
        inputs.append((nest_text(shape, nest_max(shape)), None, "fixed: nesting 4 KB"))
    for form in sorted(WIDE_FORMS):
        for n in (24, 75) if form in ("head-arith", "body-arith", "body-literals") else (24,):
            text, ug, _, _ = wide_text(r, form, n)
            wide_of[len(inputs)] = ug
            inputs.append((text, None, "fixed: wide arity"))
    n_fixed = len(inputs)
    while len(inputs) < n_inputs:
        if r.random() < 0.012:
            text, ug, _, _ = wide_text(r)
            wide_of[len(inputs)] = ug
            inputs.append((text, None, "wide arity"))
            continue
        if tasks and r.random() < 0.45:
            eq, flags, files = r.choice(tasks)
            which = r.randrange(len(files))
            base = open(files[which], encoding="utf8", errors="replace").read()
            task = (eq, flags, files, which)
            origin = "mutant of " + os.path.basename(files[which])
        else:
            base = r.choice(strings) if strings else "p."
            if r.random() < 0.5 and not base.rstrip().endswith("."):
                base += "."
            task = None
            origin = "mutant of a source string"
        text = mutate(r, base)
        if r.random() < 0.25:
            text = mutate(r, text.decode("utf8", "replace"))
        inputs.append((text[:4096], task, origin))
    # accepted texts: printed random trees of the framework's generators (redex shapes of every simplification
    # rule, mixed-sort quantifier blocks, variables and placeholders of every sort, many-pass formulas, programs of
    # every generator, specifications, outlines, user guides), each through the commands that read that kind of text
    accepted = []
    if inprocess:
        accepted = accepted_texts(ctx.seed, n_accepted)
    dist["accepted_text_inputs"] = {}
    only_of = {}
    for text, only, origin in accepted:
        only_of[len(inputs)] = only
        inputs.append((text, None, origin))
        bump(dist["accepted_text_inputs"], origin.split(":")[1])
    # which recorded classes are open on THIS tree: the entry is still `known`, and - for the classes with a fast symptom
    # (a panic, an abort) - the recorded input still shows it.  A class that is closed (repaired) books nothing: a crash
    # that would have fallen into it is a VIOLATION.
    closed = compute_closed_classes(ctx)
    dist["closed_classes (repaired on this tree: a crash of such a class is a VIOLATION)"] = sorted(closed)
    if closed:
        log(f"C16: recorded classes closed on this tree: {sorted(closed)}")
    with clilib.Scratch("C16") as scratch:
        heavy = {i for i, t in enumerate(inputs) if i in wide_of or t[2] == "fixed: nesting 4 KB"}
        outs = pmap_jobs([(exe, scratch, i, t[0], t[1], only_of.get(i), wide_of.get(i)) for i, t in enumerate(inputs)], heavy)
    crashes = []
    walls = {}
    by_command = {}     # command id -> {"accepted": exit 0, "rejected": error exit, "known-class": .., "crash": ..}
    for i, ((text, task, origin), res) in enumerate(zip(inputs, outs)):
        dist["inputs"] += 1
        bump(dist["input_size"], vlib.histogram([len(text)], buckets=(0, 16, 64, 256, 1024, 4096)).popitem()[0])
        bump(dist["mutation"], origin.split(":")[0] if origin.startswith("example") else origin)
        if origin.startswith("accepted:"):
            for cid, argv, rc, crashed, cls, site, err, has_out, wall in res:
                bump(dist.setdefault("accepted_text_outcomes", {}), "crash" if crashed else "exit 0" if rc == 0 else f"exit {rc}")
        accepted_somewhere = False
        for cid, argv, rc, crashed, cls, site, err, has_out, wall in res:
            dist["cli_runs"] += 1
            walls[cls if crashed and cls else "crash" if crashed else "other"] = walls.get(cls if crashed and cls else "crash" if crashed else "other", 0.0) + wall
            ctx.evaluations += 1
            row = by_command.setdefault(cid, {"accepted": 0, "rejected": 0, "known-class": 0, "crash": 0})
            if crashed:
                if cls:
                    bump(dist["known_class_crashes"], cls)
                    bump(dist["known_class_by_command"].setdefault(cls, {}), cid)
                    row["known-class"] += 1
                else:
                    crashes.append((len(text), text, cid, argv, rc, site, err, origin, task, wide_of.get(i)))
                    row["crash"] += 1
            elif rc == 0:
                bump(dist["accepted_by_command"], cid)
                row["accepted"] += 1
                accepted_somewhere = True
            else:
                bump(dist["rejected_by_command"], cid)
                row["rejected"] += 1
        if accepted_somewhere:
            ctx.nontrivial.add(text)
    # in-process parsing of every node type
    kinds = harness_kinds() if inprocess else []
    r2 = clilib.rng(ctx, "inprocess")
    texts = [t for t, _, o in inputs[n_fixed:] if len(t) <= 600 and not o.startswith("accepted:")]
    r2.shuffle(texts)
    # (the fixed texts always; then a sample of the mutants)
    texts = [t for t, _, o in inputs[:n_fixed] if o.startswith("fixed")] + texts
    lines, meta = [], []
    # node-type stream: valid texts of each of the node types and every token of them repeated
    # 3, 4, 6 times, parsed as that node type and as the broad node types of the language
    stream = node_type_stream(kinds)
    for k, t in stream:
        lines.append(f"parse_any\t({sx(k.encode())} {sx(t)})")
        meta.append((k, t))
    n_stream = len(lines)
    for t in (texts[:n_inproc] if inprocess else []):
        try:
            t.decode("utf8")
        except UnicodeDecodeError:
            continue     # &str cannot hold it; the CLI path covers non-UTF-8 files
        for k in kinds:
            lines.append(f"parse_any\t({sx(k.encode())} {sx(t)})")
            meta.append((k, t))
    inproc = run_isolating(lines) if lines else []
    dist["node_type_stream_cases"] = n_stream
    # fixed in-process cases with their expected outcome (corpus/parse_any_expect.txt: regression cases of repaired findings)
    if inprocess:
        expected = parse_any_corpus()
        got = run_isolating([f"parse_any\t({sx(k.encode())} {sx(t)})" for k, t, _ in expected]) if expected else []
        dist["parse_any_corpus_cases"] = len(expected)
        for (k, t, want), o in zip(expected, got):
            ctx.evaluations += 1
            if o != want:
                ctx.violation(f"str::parse::<{k}>() of {t.decode()!r} answers {o}, expected {want} (corpus/parse_any_expect.txt)",
                              {"kind": "custom-crash", "command_id": "parse_any/" + k, "argv": ["<in-process>", k], "input_latin1": t.decode("latin1"),
                               "input_repr": repr(t), "expected": want, "got": o, "origin": "corpus/parse_any_expect.txt"}, True)
    bad_seeds = [(k, t.decode()) for (k, t), o in zip(meta[:n_stream], inproc[:n_stream])
                 if t.decode() in NODE_SEEDS.get(k, []) and o == "err"]
    if bad_seeds:
        ctx.notes.append(f"node-type seeds that no longer parse as their node type (props/c16lib.py NODE_SEEDS): {bad_seeds[:10]}")
    for (k, t), o in zip(meta, inproc):
        dist["in_process_cases"] += 1
        ctx.evaluations += 1
        key = o if o in ("ok", "err", "(panic)") else o.split(" ")[0]
        bump(dist["in_process_outcomes"], key)
        if o in ("ok", "err"):
            continue
        cls = classify_inprocess(k, t) if o == "(panic)" else None
        if cls:
            bump(dist["known_class_crashes"], cls + " (in-process)")
        else:
            crashes.append((len(t), t, "parse_any/" + k, ["<in-process>", k], None, o, "", "in-process", None, None))
    # report
    crashes.sort(key=lambda c: (c[0], c[2]))
    sites = {}
    for c in crashes:
        sites.setdefault(c[5], []).append(c)
    for site, cs in list(sites.items())[:6]:
        size, text, cid, argv, rc, _, err, origin, task, wide = cs[0]
        ctx.violation(f"anthem crashes ({site}) on an input outside the recorded classes; command {cid}",
                      {"kind": "custom-crash", "command_id": cid, "argv": argv, "input_latin1": text.decode("latin1"), "input_repr": repr(text)[:600],
                       "exit_code": rc, "stderr_tail": err, "site": site, "origin": origin, "inputs_with_this_site": len(cs), "task": list(task) if task else None,
                       "wide_user_guide_latin1": wide.decode("latin1") if wide is not None else None,
                       "measures (opdepth, nestdepth, width)": list(measures(text))}, True)
    if crashes:
        ctx.notes.append(f"{len(crashes)} crashing runs outside the recorded classes at {len(sites)} distinct sites: {sorted(sites)[:12]}")
    dist["process_seconds (last attempt of each run; 16 inputs side by side)"] = {k: round(v, 1) for k, v in sorted(walls.items())}
    dist["by_command"] = {c: by_command[c] for c in sorted(by_command)}
    ctx.distribution["malformed_input_stream"] = dist
    # a command id that accepted NOTHING saw only its own error path: the stages behind its parser were not exercised by
    # this run (audit B1: five fixed-role verify commands rejected 100 % of their inputs because of their companion
    # program).  That is a defect of the CHECK, not of anthem: an internal error, not a property violation.
    never = sorted(c for c, row in by_command.items() if row["accepted"] == 0)
    if never:
        msg = ("INTERNAL-ERROR: property=C16 the stream is blind on these command ids (0 inputs accepted, "
               + ", ".join(f"{c}: {by_command[c]['rejected']} rejected / {by_command[c]['known-class']} known-class / {by_command[c]['crash']} crash" for c in never)
               + "): fix the companion files / generators of props/c16lib.py")
        ctx.notes.append(msg)
        if inprocess and not crashes:
            print(msg, flush=True)
            sys.exit(2)
        log(msg)
    ctx.samples.insert(0, {"note": "three inputs of the stream (repr)", "inputs": [repr(t)[:200] for t, _, _ in inputs[n_fixed + 5: n_fixed + 8]]})
    acc = sum(dist["accepted_by_command"].values())
    log(f"C16 stream: {dist['inputs']} inputs, {dist['cli_runs']} CLI runs ({acc} accepted, {sum(dist['rejected_by_command'].values())} rejected with an error), "
        f"{dist['in_process_cases']} in-process parses {dist['in_process_outcomes']}; crashes in recorded classes {dist['known_class_crashes']}; "
        f"other crashes: {len(crashes)}")


def compute_closed_classes(ctx):
    closed = set()
    entries = {e["id"]: e for e in vlib.known_findings("C16")}
    for cls in ("F3a", "F11", "F15", "F20", "F21", "F22"):
        e = entries.get(cls)
        if e is None or e.get("status") != "known":
            closed.add(cls)
        elif "timeout_s" not in e and "cmd" in e and not replay_known(ctx, e)[0]:
            closed.add(cls)
    os.environ["C16_CLOSED_CLASSES"] = ",".join(sorted(closed))
    return closed


def parse_any_corpus():
    """[(kind, text bytes, expected outcome)] from corpus/parse_any_expect.txt: `<kind>\t<text>\t<ok|err>` per line
    (`\\n` in the text = newline; lines beginning with # are comments)"""
    path = os.path.join(vlib.VERIF, "corpus", "parse_any_expect.txt")
    out = []
    if os.path.isfile(path):
        for line in open(path, encoding="utf8"):
            line = line.rstrip("\n")
            if not line.strip() or line.startswith("#"):
                continue
            kind, text, want = line.split("\t")
            out.append((kind, text.replace("\\n", "\n").encode(), want))
    return out


# ------------------------------------------------------------------ known findings through the CLI

def generated_text(gen):
    """the stdout of a generator command line (an argv list, no shell), e.g. ["python3", "-c", "print('p(' + '-'*3000 + '1).')"]"""
    import subprocess
    return subprocess.run(gen, stdout=subprocess.PIPE, check=True, timeout=30).stdout


def replay_known(ctx, e):
    """known_findings.jsonl entries with a `cmd`: write the recorded input(s), run the CLI, look for the symptom.
    Input: `input_text`, or `input_gen` = the generator command line (argv list) whose stdout is the input, under
    `input_name`; further files in `files`: {name: {"text": ..} | {"gen": [..]}}.  `cmd` refers to them as {input},
    {outdir}, {file:<name>}.  Symptom: `exit_code` + `stderr_contains`; or `timeout_s` (still running after that many
    seconds) - then `control_cmd`, if given, must FINISH with exit 0 within 20 s on the same files (the same command
    line without the slow stage: the finding is slowness of that stage, not a hang of the command)."""
    exe = clilib.anthem_exe()
    with clilib.Scratch("C16-known-" + e["id"]) as scratch:
        text = e["input_text"] if "input_text" in e else generated_text(e["input_gen"])
        f = clilib.write(os.path.join(scratch, e.get("input_name", "input.lp")), text)
        names = {}
        for name, src in e.get("files", {}).items():
            names[name] = clilib.write(os.path.join(scratch, name), src["text"] if "text" in src else generated_text(src["gen"]))
        os.makedirs(os.path.join(scratch, "out"))

        def subst(a):
            a = a.replace("{input}", f).replace("{outdir}", os.path.join(scratch, "out"))
            for name, path in names.items():
                a = a.replace("{file:" + name + "}", path)
            return a
        rr = clilib.run([exe] + [subst(a) for a in e["cmd"]], timeout=e.get("timeout_s", 20))
        control = None
        if "timeout_s" in e and rr.timed_out and "control_cmd" in e:
            control = clilib.run([exe] + [subst(a) for a in e["control_cmd"]], timeout=20)
    if "timeout_s" in e:
        if rr.timed_out and control is not None and (control.crashed or control.rc != 0):
            return False, f"the command is still running after {e['timeout_s']} s, but so does / fails its control command (exit {control.rc}): not this class"
        return rr.timed_out, ("still running after %s s" % e["timeout_s"] if rr.timed_out else f"finished in {rr.wall:.1f} s")
    still = rr.rc in (e.get("exit_code", 101), -e.get("signal", 0) or None) and e.get("stderr_contains", "panicked at").encode() in rr.err
    return still, (rr.err[-200:].decode("latin1") or f"exit {rr.rc}")


def replay(ctx, cfg, r):
    exe = clilib.anthem_exe()
    text = r["input_latin1"].encode("latin1")
    if r["command_id"].startswith("parse_any/"):
        k = r["argv"][1]
        o = run_isolating([f"parse_any\t({sx(k.encode())} {sx(text)})"])[0]
        print("parse_any", k, repr(text)[:300], "->", o)
        bad = o != r["expected"] if r.get("expected") else o not in ("ok", "err")
    else:
        compute_closed_classes(ctx)
        with clilib.Scratch("C16-replay") as scratch:
            wide = r.get("wide_user_guide_latin1")
            res = run_input(exe, scratch, 0, text, tuple(r["task"]) if r.get("task") else None, wide=wide.encode("latin1") if wide is not None else None)
            bad = False
            for cid, argv, rc, crashed, cls, site, err, _, _ in res:
                if crashed and not cls:
                    print("CRASH", cid, "exit", rc, site)
                    print(err)
                    bad = True
    if bad:
        print(f"VIOLATION property={ctx.prop} replay=(re-run)")
        sys.exit(1)
    print("replay: no longer fails")
    sys.exit(0)
