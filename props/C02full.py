"""C02full hook: regression replay of repaired findings.

A `fixed` entry of known_findings.jsonl for property C02 may carry
  "regression": {"op": <harness op>, "input": <wire input>, "sem_op": <driver op>}
the minimal input on which the defect was observed.  On every run the input is executed on the real
code, the model and the semantic oracle; if the oracle again finds a counterexample on the
implementation's output the repaired defect is back: VIOLATION with that input as failing input
(e.g. finding F17 on a tree without the repair)."""
import vlib


def extra(ctx, cfg, results):
    for e in vlib.known_findings(ctx.prop):
        reg = e.get("regression")
        if e.get("status") != "fixed" or not reg:
            continue
        key = "regression-" + e["id"]
        if key in ctx.replayed:
            continue
        ctx.replayed.add(key)
        line = f"{reg['op']}\t{reg['input']}"
        impl = vlib.run_lines(vlib.HARNESS_EXE, [line])[0]
        model = vlib.run_lines(vlib.DRIVER_EXE, [line])[0]
        sem = vlib.run_lines(vlib.DRIVER_EXE, [f"{reg['sem_op']}\t({reg['input']} {impl})"])[0]
        ctx.evaluations += 1
        ctx.sem_evaluations += 1
        if sem.startswith("(cex"):
            ctx.violation(
                f"finding {e['id']} (repaired by /repo {e.get('commit', '?')}) reproduces on its recorded input",
                {"kind": "correspondence", "finding": e["id"], "op": reg["op"], "input": reg["input"],
                 "implementation": impl, "model": model, "sem_op": reg["sem_op"], "counterexample": sem},
                True)
            # reported first: bin/check prints the first three violations with a failing input
            ctx.violations.insert(0, ctx.violations.pop())
        elif impl != model:
            ctx.violation(
                f"recorded input of finding {e['id']}: implementation output differs from the model",
                {"kind": "correspondence", "finding": e["id"], "op": reg["op"], "input": reg["input"],
                 "implementation": impl, "model": model}, True)
        elif not sem.startswith("(ok"):
            ctx.violation(f"recorded input of finding {e['id']}: semantic oracle could not evaluate the case",
                          {"kind": "semantic-error", "sem_op": reg["sem_op"], "input": reg["input"], "error": sem}, False)
