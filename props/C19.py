"""C19: only `bin/check C19 --replay <file>` for the replay files of the part C19cli (props/CLIverify.py)."""
import os
import sys

sys.path.insert(0, os.path.dirname(os.path.abspath(__file__)))
from CLIverify import replay  # noqa: E402,F401
